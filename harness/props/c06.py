"""C06 -- persistent state: correspondence with lean/EdzedModel/Persist.lean + independent oracle.

One scenario = one "first life" of a circuit with persistent blocks on the virtual-time loop
(storage snapshot after init, after EVERY event incl. timer firings, after stop / failed start)
and a list of restarts: a second circuit is started from a deep copy of a snapshot after a
downtime on the shared virtual wall clock (`World`).
"""
import asyncio
import copy
import datetime as dt
import json

import edzed

from .. import vtime
from ..enc import enc, enc_data
from ..runner import shrink_ops

ID = 'C06'
RULE = ("random circuits of 1-4 persistent-capable blocks (Input, Counter, Timer, InputExp, generated timed FSM "
        "classes with scripted cond_/enter_ callbacks; second family: TimeDate/TimeSpan with Input/Counter), "
        "sync_state on/off, initial storage with stale/unused/reserved entries; histories of events (accepted, "
        "rejected, parameter errors, unknown events, failing handlers), timer firings and time steps, start modes "
        "ok/aborted-before/start()-raises/initialisation fails; a deep copy of the storage after init, after "
        "every event and timer firing, after stop and after a failed start; in half of the circuits an extra block "
        "has an asynchronous clean-up of 0.25-5 s during which timers go on firing: snapshot when the clean-up "
        "starts (states + stop time must be there already) and when it ends, the application's shutdown() "
        "completed, or cancelled before/at/after the end of the clean-up (the task awaiting shutdown() is "
        "cancelled, as wait_for(shutdown(), timeout) does); from the snapshots (all of them in "
        "the thorough tier, a random third in quick) a second circuit is started after a downtime "
        "shorter/equal/longer than the remaining timer with expiration in {None, 0, <0, shorter, equal, longer "
        "than the age of the stop time stamp}, blocks dropped or made non-persistent; in half of "
        "the timer-family circuits with >= 2 blocks one or two Input/Counter blocks send their output as a 'put' "
        "event (plain, EventCond('put', None), EventCond(None, 'put'), EventCond(None, None)) to another persistent "
        "block created before or after them, with falsy and truthy initial/restored values and valid entries of "
        "both in the initial storage; the constructor arguments persistent / sync_state are written as other truthy / falsy "
        "values in 15 % of the blocks and the expiration of a restarted block as float, int or string with units; in 30 % of "
        "the timer-family circuits the STORAGE FAILS (a mapping whose "
        "__setitem__, pop/__delitem__, keys()/iteration and __getitem__ of chosen keys raise OSError / RuntimeError / an "
        "application exception on demand): reads of block entries and of the stop time, keys() and the purge at the "
        "start of the first or of a restarted circuit, writes (and the pop that removes the stale entry) during a "
        "stretch of events and timer firings, at the saves and the stop-time write of the stop; half of the generated FSM "
        "classes have one or two entry actions that request a CHAINED transition with an event or a Goto to their own "
        "block (acyclic; later entry actions / conditions of the chain may fail or reject, Goto targets may be unknown) "
        "and 12 % an on_enter / on_exit event of a type its destination does not know; the storage is copied after "
        "EVERY write (crash points inside an event), a third of the scenarios restart from a JSON-like storage that "
        "returns a saved tuple as a list; compared with the Lean "
        "model line by line: result of every event, every block's persistent flag/state/output/sdata/absolute "
        "timer expiry/entry-action log, persistent_ts and the canonicalised storage; a case is distinct by its "
        "(lines, trace) hash and non-trivial when it has at least one storage-changing event and one restart")
ASSUMPTIONS = [
    "all instants and durations of the timer family are multiples of 1/64 s on a virtual wall clock that starts "
    "on 1970-01-02, so that edzed's float arithmetic on time stamps is exact (rounding ties are excluded, "
    "DESIGN.md 2.5)",
    "TimeDate/TimeSpan circuits run with 2 us clock-read latency (cron needs it); there the start instant handed "
    "to the model is read just before the start, the stop time stamp is read back from the storage (the oracle "
    "checks it against the stop window) and configurations have no boundary within 60 s of a probe",
    "the calendar predicate of TimeDate/TimeSpan is an input of the model (table computed by an independent "
    "15-line membership function in the harness); C07/C13 are about that predicate",
    "storage back-end with value semantics (deep copy on write and on read, like shelve)",
    "Counter values are ints; FSM callbacks are scripts (cond: yes/no/state!=s/InputExp.cond_put/raise; enter: "
    "nop/sdata[k]=v/raise/self.event(EVENT)/self.event(Goto(STATE))); chained transitions only as requested by an entry "
    "action (one request per action, acyclic), no zero durations, no per-event duration (C03/C04 cover these)",
    "an on_enter/on_exit event of an unknown type (nested EdzedUnknownEvent, the C09 known findings) is not modelled: the "
    "comparison with the model ends before the first such event of a scenario, the oracle judges the whole run",
    "events during the clean-up of a FAILED start-up are not modelled (circuits with the slow clean-up block are "
    "generated so that their initialisation succeeds); after an interrupted clean-up the life ends (FSM timers "
    "that were not cancelled are not followed any further)",
    "events between blocks: only on_output 'put' events (plain or EventCond with None on either side) of an "
    "Input/Counter to a block without on_output of its own, followed during the start-up only; no event changes "
    "the output of a source block at run time (not modelled); the sync save is modelled with the repair "
    "patches/C06-sync-save-on-uninitialized.diff",
    "storage faults raise exception classes other than KeyError / TypeError (those two mean 'missing' / 'invalid' to "
    "the code); a start on a failing storage is generated for link-free circuits with working writes only; a stop on a "
    "failing storage for circuits without the slow clean-up block; a failing pop/del at the start only when the "
    "initialisation cannot fail; what the code does when the unprotected operations "
    "fail (pop inside the save's handler during an event, _check_persistent_data at the start) is modelled as it is "
    "and compared, not judged by the oracle; the stop is modelled with the repair "
    "patches/C08-storage-fault-at-stop-skips-cleanup.diff (storage errors of the save-and-stamp section are logged, "
    "the clean-up follows)",
    "reading of 'nothing is written if start-up failed' = abort before the start or a failing start() "
    "(DESIGN.md 6); a failing initialisation rewrites the entries and is compared with the model only",
]
EXHAUSTIVE = {'quick': False, 'thorough': False}

TICK = 15625                       # 1/64 s in us
SEC = 1_000_000
EPOCH = dt.datetime(1970, 1, 1)
WALL0 = (dt.datetime(1970, 1, 2) - EPOCH) // dt.timedelta(microseconds=1)
STOPKEY = 'edzed-stop-time'


# ----------------------------------------------------------------------------- storage

class StorageFault(Exception):
    """an application-defined error of the storage back-end"""


FAULT_EXC = {'OSError': OSError, 'RuntimeError': RuntimeError, 'StorageFault': StorageFault}
NO_FAULTS = {'w': False, 'd': False, 'i': False, 'r': ()}


class Storage(vtime.Storage):
    """value semantics in both directions; its operations raise on demand (the FAULT MODEL of the storage):
    faults['w'] __setitem__, ['d'] pop / __delitem__, ['i'] keys() / iteration, ['r'] __getitem__ of the listed keys"""

    def __init__(self, *args):
        super().__init__(*args)
        self.faults = dict(NO_FAULTS)
        self.exc = OSError
        self.wlog = None          # while a list: a deep copy of the content is appended after EVERY write
        self.seq_as_list = False  # a JSON-backed mapping: a saved tuple comes back as a list

    def faults_active(self):
        f = self.faults
        return bool(f['w'] or f['d'] or f['i'] or f['r'])

    def _written(self):
        if self.wlog is not None:
            self.wlog.append(copy.deepcopy(self.raw()))

    def boom(self, what):
        raise self.exc(f'storage fault: {what}')

    def __getitem__(self, key):
        if key in self.faults['r']:
            self.boom('read')
        return copy.deepcopy(super().__getitem__(key))

    def __setitem__(self, key, value):
        if self.faults['w']:
            self.boom('write')
        if self.seq_as_list and isinstance(value, tuple) and len(value) == 3 and isinstance(value[2], dict):
            try:
                value = json.loads(json.dumps(value))      # (state, time stamp, sdata) -> [state, time stamp, sdata]
            except (TypeError, ValueError):
                pass
        super().__setitem__(key, value)
        self._written()

    def pop(self, key, *default):
        if self.faults['d']:
            self.boom('pop')
        had = dict.__contains__(self, key)
        rv = super().pop(key, *default)
        if had:
            self._written()
        return rv

    def __delitem__(self, key):
        if self.faults['d']:
            self.boom('del')
        super().__delitem__(key)
        self._written()

    def keys(self):
        if self.faults['i']:
            self.boom('keys')
        return super().keys()

    def __iter__(self):
        if self.faults['i']:
            self.boom('iter')
        return super().__iter__()

    def raw(self):
        """the content, read behind the back of the fault injection"""
        return {k: dict.__getitem__(self, k) for k in dict.keys(self)}


def cjson(cfg):
    return json.dumps(cfg, sort_keys=True, separators=(',', ':'))


def hexs(s):
    return s.encode('utf-8').hex()


def enc_cfg(cfg):
    return 's' + hexs(cjson(cfg))


def us_of(ts):
    return round(ts * 1e6)


def enc_entry(key, val):
    if key == STOPKEY and isinstance(val, float) and val >= 0:
        return f'T~{us_of(val)}'
    if (isinstance(val, (tuple, list)) and len(val) == 3 and isinstance(val[0], str)
            and (val[1] is None or isinstance(val[1], float)) and isinstance(val[2], dict)):
        return f"m~{val[0]}~{'n' if val[1] is None else us_of(val[1])}~{enc_data(val[2])}"
    if isinstance(val, dict) or (isinstance(val, list) and any(isinstance(x, list) for x in val)) or val == []:
        return 'v~' + enc_cfg(val)
    return 'v~' + enc(val)


def enc_store(d):
    items = sorted((hexs(k), enc_entry(k, v)) for k, v in d.items())
    return '&'.join(f'{k}^{e}' for k, e in items) or '-'


def dec_entry(e):
    """scenario (JSON) form of an initial storage entry -> python object"""
    t = e[0]
    if t == 'val':
        return e[1]
    if t == 'tup':
        return tuple(e[1])
    if t == 'ts':
        return e[1] / 1e6
    if t == 'fsm':
        return (e[1], None if e[2] is None else e[2] / 1e6, dict(e[3]))
    if t == 'cfg':
        return copy.deepcopy(e[1])
    raise ValueError(e)


# ----------------------------------------------------------------------------- calendar (independent)

def cal_verdict(kind, cfg, wall_us):
    now = EPOCH + dt.timedelta(microseconds=wall_us)
    if kind == 'timespan':
        tup = (now.year, now.month, now.day, now.hour, now.minute, now.second, now.microsecond)
        return any(tuple(lo) <= tup < tuple(hi) for lo, hi in cfg)
    times, dates, wdays = cfg['times'], cfg['dates'], cfg['weekdays']
    if times is None and dates is None and wdays is None:
        return False
    ok = True
    if times is not None:
        t = (now.hour, now.minute, now.second, now.microsecond)
        ok = ok and any((tuple(lo) <= t < tuple(hi)) if tuple(lo) < tuple(hi) else (tuple(lo) <= t or t < tuple(hi))
                        for lo, hi in times)
    if dates is not None:
        d = (now.month, now.day)
        ok = ok and any((tuple(lo) <= d <= tuple(hi)) if tuple(lo) <= tuple(hi) else (tuple(lo) <= d or d <= tuple(hi))
                        for lo, hi in dates)
    if wdays is not None:
        ok = ok and now.isoweekday() in wdays
    return ok


# ----------------------------------------------------------------------------- blocks

class Failer(edzed.SBlock):
    def start(self):
        super().start()
        raise RuntimeError('start failed')

    def init_regular(self):
        self.set_output(None)


class SlowStop(edzed.AddonAsync, edzed.SBlock):
    """a block with an asynchronous clean-up of a given (virtual) duration"""
    life = None
    delay = 0.0

    def init_regular(self):
        self.set_output(None)

    async def stop_async(self):
        self.life.on_cleanup()
        await asyncio.sleep(self.delay)
        self.life.cleanup_finished = True


_ARMED = [True]


class LateSender(edzed.SBlock):
    """a block WITHOUT asynchronous clean-up whose stop() sends an event to the persistent timed blocks: what an
    OutputFunc with stop_data and on_success does.  The blocks without asynchronous clean-up are stopped in the
    iteration order of a set, so the event reaches its destination before or after the destination's own stop()"""
    life = None

    def init_regular(self):
        self.set_output(None)

    def stop(self):
        super().stop()
        self.life.send_late()


def _check(value):
    if value == 'BOOM' and _ARMED[0]:
        raise RuntimeError('validator exploded')
    return value != 'REJ'


def key_of(spec):
    cls = {'input': 'Input', 'counter': 'Counter', 'timer': 'Timer', 'inputexp': 'InputExp', 'fsm': 'GFsm',
           'timedate': 'TimeDate', 'timespan': 'TimeSpan'}[spec['kind']]
    return f"<{cls} '{spec['name']}'>"


def fsm_tables(spec):
    """FsmCls description (states, trans, timers, conds, enters, outmode, init state, init sdata)"""
    k = spec['kind']
    if k == 'timer':
        conds = [] if spec['restartable'] else [['start', 'ne', 'on'], ['stop', 'ne', 'off']]
        return {'states': ['off', 'on'],
                'trans': [['start', None, 'on'], ['stop', None, 'off'], ['toggle', 'on', 'off'], ['toggle', 'off', 'on']],
                'timers': [['on', spec['t_on'], ['E', 'stop']], ['off', spec['t_off'], ['E', 'start']]],
                'conds': conds, 'enters': [], 'out': ['is', 'on'], 'init': 'off', 'sdata': {}}
    if k == 'inputexp':
        has = spec['initdef'] is not None
        return {'states': ['expired', 'valid'], 'trans': [['put', None, 'valid']],
                'timers': [['valid', spec['dur'], ['G', 'expired']]], 'conds': [['put', 'put']], 'enters': [],
                'out': ['iexp', spec['expired']], 'init': 'valid' if has else 'expired',
                'sdata': {'input': spec['initdef'][0]} if has else {}}
    return spec['tables']


def enc_kind(spec):
    k = spec['kind']
    if k == 'input':
        return 'input ' + ('u' if spec['initdef'] is None else enc(spec['initdef'][0]))
    if k == 'counter':
        return f"counter {'n' if spec['mod'] is None else spec['mod']} {spec['initdef']}"
    if k in ('timedate', 'timespan'):
        return 'cal ' + enc_cfg(spec['cfg'])
    t = fsm_tables(spec)

    def lst(items):
        return '&'.join(items) or '-'
    trans = lst(f"{e}~{'*' if f is None else f}~{to}" for e, f, to in t['trans'])
    timers = lst(f"{s}~{'inf' if d is None else d}~{ev[0]}.{ev[1]}" for s, d, ev in t['timers'])
    conds = lst('~'.join(c) for c in t['conds'])
    enters = lst(f"{e[0]}~set~{e[2]}~{enc(e[3])}" if e[1] == 'set' else
                 (f"{e[0]}~{e[1]}~{e[2]}" if e[1] in ('chain', 'goto') else f"{e[0]}~{e[1]}") for e in t['enters'])
    out = t['out'][0] if t['out'][0] == 'state' else (f"is~{t['out'][1]}" if t['out'][0] == 'is' else f"iexp~{enc(t['out'][1])}")
    return f"fsm {lst(t['states'])} {trans} {timers} {conds} {enters} {out} {t['init']} {enc_data(t['sdata'])}"


def ctor_arg(spec, which):
    """the constructor argument as the application writes it: `persistent` / `sync_state` may be any truthy / falsy
    value (`p_raw`, `s_raw`), `expiration` None, a number of seconds or a string with units (`exp_raw`)"""
    if which + '_raw' in spec:
        return spec[which + '_raw'][0]
    if which == 'exp':
        exp = spec.get('exp')
        return None if exp is None else exp / 1e6
    return spec[which]


def make_block(spec, life):
    k, name = spec['kind'], spec['name']
    exp = spec.get('exp')
    common = {'persistent': ctor_arg(spec, 'p'), 'sync_state': ctor_arg(spec, 's'), 'expiration': ctor_arg(spec, 'exp')}
    link = spec.get('link')
    if link is not None:
        et, ef = ('put' if link['etrue'] else None), ('put' if link['efalse'] else None)
        common['on_output'] = edzed.Event(link['dest_name'], 'put' if et and ef else edzed.EventCond(et, ef))
    if k == 'input':
        # an initdef 'BOOM' passes the constructor's validation and makes the validator raise when the block is
        # initialised from it: a start-up that fails in the MIDDLE of the second synchronous pass (the blocks
        # created later are still uninitialised when run_forever saves the states and stops the blocks)
        _ARMED[0] = False
        try:
            return edzed.Input(name, check=_check, initdef=edzed.UNDEF if spec['initdef'] is None else spec['initdef'][0],
                               **common)
        finally:
            _ARMED[0] = True
    if k == 'counter':
        return edzed.Counter(name, modulo=spec['mod'], initdef=spec['initdef'], **common)
    if k == 'timedate':
        return edzed.TimeDate(name, **copy.deepcopy(spec['cfg']), **common)
    if k == 'timespan':
        return edzed.TimeSpan(name, span=copy.deepcopy(spec['cfg']), **common)
    t = fsm_tables(spec)
    entered = life.entered.setdefault(name, [])
    holder = {}
    kw = {}
    scripts = {e[0]: e[1:] for e in t['enters']}

    def mk_enter(st):
        def enter():
            entered.append(st)
            sc = scripts.get(st)
            if sc is None or sc[0] == 'nop':
                return
            if sc[0] == 'raise':
                raise RuntimeError('enter action failed')
            if sc[0] == 'chain':        # the documented chained transition: an event to the own block
                holder['blk'].event(sc[1])
                return
            if sc[0] == 'goto':
                holder['blk'].event(edzed.Goto(sc[1]))
                return
            holder['blk'].sdata[sc[1]] = sc[2]
        return enter
    for st in t['states']:
        kw['enter_' + st] = mk_enter(st)
    if k == 'timer':
        blk = edzed.Timer(name, restartable=spec['restartable'],
                          **{a: spec[a] / 1e6 for a in ('t_on', 't_off') if spec[a] is not None}, **kw, **common)
    elif k == 'inputexp':
        blk = edzed.InputExp(name, duration=spec['dur'] / 1e6, expired=spec['expired'],
                             initdef=edzed.UNDEF if spec['initdef'] is None else spec['initdef'][0], **kw, **common)
    else:
        def mk_cond(c):
            if c[1] == 'yes':
                return lambda: True
            if c[1] == 'no':
                return lambda: False
            if c[1] == 'ne':
                return lambda: holder['blk'].state != c[2]
            if c[1] == 'raise':
                def boom():
                    raise RuntimeError('cond failed')
                return boom
            raise ValueError(c)
        for c in t['conds']:
            kw['cond_' + c[0]] = mk_cond(c)
        for trig, st in t.get('bogus', []):
            # an on_enter / on_exit event of a type the destination does not know
            kw[f'on_{trig}_{st}'] = edzed.Event('zz_sink', 'bogus')
        timers = {s: (edzed.INF_TIME if d is None else d / 1e6, ev[1] if ev[0] == 'E' else edzed.Goto(ev[1]))
                  for s, d, ev in t['timers']}
        cls = type('GFsm', (edzed.FSM,), {
            'STATES': list(t['states']),
            'EVENTS': [(e, None if f is None else [f], to) for e, f, to in t['trans']],
            'TIMERS': timers})
        blk = cls(name, initdef=t['init'], **kw, **common)
        blk.sdata.update(copy.deepcopy(t['sdata']))
    holder['blk'] = blk
    return blk


# ----------------------------------------------------------------------------- one life of a circuit

class Life:
    """builds the circuit, runs it on a fresh virtual loop attached to the shared world,
    produces protocol lines + implementation trace + snapshots"""

    def __init__(self, world, specs, store, family, lines, trace):
        self.world, self.specs, self.store, self.family = world, specs, store, family
        self.lines, self.trace = lines, trace
        self.entered = {}
        self.snaps = []          # dicts: label, t, store (deep copy), obs (per block), results
        self.fired = []          # timer events seen during an advance
        self.in_call = True
        self.blocks = []
        self.circuit = None
        self.loop = None
        self.aborted_seen = False
        self.bad = {}            # block index -> snapshot index just before its handler error
        self.slow = None         # duration (us) of the asynchronous clean-up of an extra block, or None
        self.cleanup = False     # the asynchronous clean-up is in progress
        self.started_ok = False
        self.cleanup_finished = False
        self.faults_now = {}     # the storage operations that raise at the moment ({} = none)
        self.restored_from = {}  # block name -> the saved state `_restore_state` accepted
        self.init_events = []    # (block name, event type, value) of events sent by other blocks during the start-up
        self.t_begin = None      # instant the stop began (when it can be observed)
        self.late_n = 0          # number of extra blocks whose stop() sends events to the persistent FSM blocks
        self.stopped_names = set()   # blocks whose stop() has returned
        self.late = []           # records of the events sent from another block's stop()

    # ---- observation

    def wall_of(self, when):
        return self.world.wall_us + (round(when * 1e6) - self.world.loop_base)

    def timer_of(self, blk):
        if self.loop is None:
            return None
        ready = [h for h in self.loop._ready if isinstance(h, asyncio.TimerHandle) and not h._cancelled]
        for h in ready + self.loop.pending_handles():     # (a due timer of the same batch sits in _ready)
            cb = getattr(h, '_callback', None)
            if getattr(cb, '__self__', None) is blk or (cb is blk.__dict__.get('event')):
                ev = h._args[0] if h._args else None
                evs = f'G.{ev.state}' if isinstance(ev, edzed.Goto) else f'E.{ev}'
                return (self.wall_of(h.when()), evs)
        return None

    def obs(self):
        out = []
        for spec, blk in zip(self.specs, self.blocks):
            o = {'persistent': blk.persistent, 'inited': blk.is_initialized(), 'output': blk.output,
                 'restored': spec['name'] in self.restored_from,
                 'restored_from': copy.deepcopy(self.restored_from.get(spec['name'])),
                 'init_events': [e for e in self.init_events if e[0] == spec['name']]}
            if isinstance(blk, edzed.FSM):
                tm = self.timer_of(blk)
                o.update(state=None if blk.state is edzed.UNDEF else blk.state, timer=None if tm is None else tm[0],
                         sdata=copy.deepcopy(blk.sdata), entered=list(self.entered.get(spec['name'], [])))
            elif spec['kind'] in ('timedate', 'timespan'):
                o['cfg'] = copy.deepcopy(blk.get_state()) if blk.is_initialized() else None
            out.append(o)
        return out

    def render(self):
        c = self.circuit
        if c.is_ready():
            ph = 'running'
        elif c._simtask is not None and c._simtask.done():
            ph = 'stopped'
        elif c.error is not None:
            ph = 'stopping' if self.cleanup else 'aborted'
        else:
            ph = 'idle'
        ts = c.persistent_ts
        parts = []
        for spec, blk in zip(self.specs, self.blocks):
            inited = blk.is_initialized()
            k = spec['kind']
            v, s, t, d = 'u', '-', 'n', 'd{}'
            if k in ('input', 'counter'):
                v = enc(blk.output)
            elif k in ('timedate', 'timespan'):
                v = enc_cfg(blk.get_state()) if inited else 'u'
            else:
                if blk.state is not edzed.UNDEF:
                    s = blk.state
                    d = enc_data(blk.sdata)     # (the sdata of a block that was never initialised is not shown)
                tm = self.timer_of(blk)
                if tm is not None:
                    t = f'{tm[0]}.{tm[1]}' 
            e = ','.join(self.entered.get(spec['name'], [])) or '-'
            parts.append(f"P{int(blk.persistent)}:I{int(inited)}:v={v}:o={enc(blk.output)}:s={s}:t={t}:d={d}:e={e}"
                         f":r={int(spec['name'] in self.restored_from)}")
        return (f"ph={ph} ts={'n' if not isinstance(ts, float) else us_of(ts)} B " + ' '.join(parts)
                + ' S ' + enc_store(self.store.raw()))

    def snap(self, label, **extra):
        self.snaps.append({'label': label, 't': self.world.now_us(), 'store': copy.deepcopy(self.store.raw()),
                           'obs': self.obs(), 'in_cleanup': self.cleanup, 'faults': dict(self.faults_now),
                           'ready': bool(self.circuit.is_ready()), **extra})

    def cal_table(self, configs):
        if self.family == 'a':
            return 'd{}'
        now = self.world.now_us()
        tab = {}
        for kind, cfg in configs:
            tab[hexs(cjson(cfg))] = cal_verdict(kind, cfg, now)
        return enc_data(tab)

    # ---- building

    def build(self, mode, failer_first):
        if any(spec.get(a) == 0 for spec in self.specs for a in ('t_on', 't_off', 'dur')):
            # a zero-length timer delivers its event at once, as a nested event() of the block (`_start_timer`):
            # not modelled - nothing of such a scenario is compared with the model, the oracle judges it
            self.cut_here()
        edzed.reset_circuit()
        self.circuit = edzed.get_circuit()
        self.circuit.set_persistent_data(self.store)
        if mode == 'raises' and failer_first:
            Failer('zz_failer')
        self.blocks = [make_block(spec, self) for spec in self.specs]
        if any(spec['kind'] == 'fsm' and spec['tables'].get('bogus') for spec in self.specs):
            edzed.Input('zz_sink', initdef=0)
        if mode == 'raises' and not failer_first:
            Failer('zz_failer')
        if self.slow is not None:
            sl = SlowStop('zz_slow')
            sl.life, sl.delay = self, self.slow / 1e6
        for k in range(self.late_n):
            LateSender(f'zz_late{k}').life = self
        for idx, blk in enumerate(self.blocks):
            self.wrap(idx, blk)
        self.lines.append('persist reset')
        self.trace.append('ok')
        for spec in self.specs:
            exp = spec.get('exp')
            link = spec.get('link')
            lk = '-' if link is None else f"L{link['dest']}.{int(link['etrue'])}.{int(link['efalse'])}"
            self.lines.append(f"persist blk {hexs(key_of(spec))} {enc(ctor_arg(spec, 'p'))} {enc(ctor_arg(spec, 's'))} "
                              f"{enc(ctor_arg(spec, 'exp'))} {lk} {enc_kind(spec)}")
            self.trace.append('ok')
        self.lines.append('persist store ' + enc_store(self.store.raw()))
        self.trace.append('ok ' + enc_store(self.store.raw()))

    def wrap(self, idx, blk):
        orig = blk.event
        name = self.specs[idx]['name']
        orig_stop = blk.stop

        def stop_rec():
            try:
                return orig_stop()
            finally:
                self.stopped_names.add(name)
        blk.stop = stop_rec
        if hasattr(blk, '_restore_state'):
            orig_restore = blk._restore_state

            def restore(state, /):
                orig_restore(state)
                if blk.is_initialized():      # (an FSM ignores a state whose timer ran out without raising)
                    self.restored_from[name] = copy.deepcopy(state)
            blk._restore_state = restore

        def wrapper(etype, /, **data):
            if not self.started_ok and 'source' in data:
                self.init_events.append((name, str(etype), data.get('value')))
            if self.in_call:
                return orig(etype, **data)
            st = self.circuit._simtask
            if st is not None and st.done():
                # the simulation task has ended without stopping the blocks (a stop that raised on a failing
                # storage): the life of the circuit is over, timers left behind are not followed
                return None
            # an event that does not come from the harness: a timer
            self.in_call = True
            before = len(self.snaps) - 1
            err0 = self.circuit.error
            res = None
            watch = not self.store.faults_active()
            self.store.wlog = [] if watch else None
            try:
                rv = orig(etype, **data)
                res = 'ret ' + enc(rv)
                return rv
            except BaseException as err:
                res = self.classify(err, err0)
                raise
            finally:
                self.in_call = False
                writes, self.store.wlog = self.store.wlog, None
                self.fired.append(idx)
                if res == 'err Abort':
                    self.bad.setdefault(idx, before)
                nested_unknown = res == 'err UnknownEvent'     # (a timed event is always known to its FSM)
                if nested_unknown:
                    self.cut_here()
                self.lines.append(f'persist fire {idx} {self.cal}')
                self.trace.append(f'at={self.world.now_us()} {res} ' + self.wfmt(writes) + self.render())
                self.snap('fire', blk=idx, res=res, writes=writes, nested_unknown=nested_unknown)
        blk.event = wrapper

    def set_faults(self, spec):
        spec = {k: v for k, v in (spec or {}).items() if v}
        keys = [STOPKEY if r == 'stamp' else key_of(self.specs[r]) for r in spec.get('r', []) if r == 'stamp' or r < len(self.specs)]
        self.store.faults = {'w': bool(spec.get('w')), 'd': bool(spec.get('d')), 'i': bool(spec.get('i')), 'r': tuple(keys)}
        self.faults_now = spec
        self.lines.append(f"persist fault {int(bool(spec.get('w')))} {int(bool(spec.get('d')))} {int(bool(spec.get('i')))} "
                          + ('&'.join(hexs(k) for k in keys) or '-'))
        self.trace.append('ok')

    def classify(self, err, err0):
        if isinstance(err, self.store.exc) and str(err).startswith('storage fault'):
            return 'err StorageError'          # (comes out of the sync save, after the handler has returned)
        if self.circuit.error is not None and err0 is None:
            return 'err Abort'
        if isinstance(err, edzed.EdzedUnknownEvent):
            return 'err UnknownEvent'
        if isinstance(err, TypeError) and 'required keyword' in str(err):
            return 'err ParamError'
        if err0 is not None and isinstance(err, Exception):
            return 'err Abort'      # a failing handler in a circuit that is shutting down already
        return 'err ' + type(err).__name__

    # ---- running

    def on_cleanup(self):
        """called when the asynchronous clean-up starts: the states and the stop time were saved in the
        same instant, before the first await of the clean-up"""
        if not self.started_ok or self.cleanup:
            return
        self.cleanup = True
        stamp = self.store.raw().get(STOPKEY)
        now = self.world.now_us()
        self.t_begin = now if self.family == 'a' else (us_of(stamp) if isinstance(stamp, float) else now)
        self.lines.append(f'persist stopbegin {self.t_begin}')
        self.trace.append(self.render())
        self.snap('stopbegin', t_begin=self.t_begin, t_hook=now)
        self.in_call = False         # timers go on firing during the clean-up

    def run(self, t0, mode, failer_first, ops, t_stop, configs, slow=None, stop=None, start_fault=None,
            stop_fault=None, late=0):
        """whole life; returns nothing, fills lines/trace/snaps"""
        self.slow = slow
        self.late_n = late
        stop = stop or {'kind': 'full'}
        self.configs = configs
        self.world.wall_us = t0
        self.build(mode, failer_first)
        self.cal = 'd{}'

        async def main(loop):
            self.loop = loop
            c = self.circuit
            start_now = self.world.now_us()
            self.cal = self.cal_table(configs)
            start_cal = self.cal
            if mode == 'aborted':
                c.abort(RuntimeError('abort before start'))
            if start_fault:
                self.set_faults(start_fault)
            simtask = asyncio.create_task(c.run_forever())
            self.done_render = None

            def sim_done(_task):
                # (the state at the instant the simulation task ended: timers it left behind are still pending)
                self.done_render, self.done_time = self.render(), self.world.now_us()
            simtask.add_done_callback(sim_done)
            init_err = None
            try:
                await c.wait_init()
            except BaseException as err:
                init_err = err
            # ('raises0': the failing start() is the first one - no block of the scenario was started or is stopped)
            mname = {'ok': 'ok', 'aborted': 'aborted', 'raises': 'raises0' if failer_first else 'raises'}[mode]
            if init_err is not None or not c.is_ready():
                await asyncio.wait([simtask])
                stamp = self.store.raw().get(STOPKEY)
                tstop = us_of(stamp) if isinstance(stamp, float) and self.family == 'b' else self.world.now_us()
                self.lines.append(f'persist startstop {start_now} {mname} {start_cal} {tstop}')
                self.trace.append(self.render())
                self.snap('failed-start' if mode != 'ok' else 'failed-init', mode=mode,
                          start_error=type(simtask.exception()).__name__ if simtask.done() and not simtask.cancelled()
                          and simtask.exception() is not None else None)
                self.store.faults = dict(NO_FAULTS)
                return
            self.lines.append(f'persist start {start_now} {mname} {start_cal}')
            self.trace.append(self.render())
            self.snap('init')
            if start_fault:
                self.set_faults({})
            self.started_ok = True
            self.in_call = False
            stopped = False
            for op in ops:
                if self.circuit.error is not None and op[0] != 'ev':
                    break
                if op[0] == 'fault':
                    self.set_faults(op[1])
                    continue
                if op[0] == 'adv':
                    target = op[1] - self.world.wall_us + self.world.loop_base
                    if target < loop.now_us:
                        continue
                    await vtime.advance_to(loop, target)
                    if self.circuit.error is not None:
                        break
                    self.cal = self.cal_table(configs)
                    self.lines.append(f'persist adv {self.world.now_us() if self.family == "a" else op[1]}')
                    self.trace.append(self.render())
                else:
                    self.do_event(op)
            self.in_call = True
            t_before = self.world.now_us()
            complete = True
            if self.circuit.error is None:
                target = t_stop - self.world.wall_us + self.world.loop_base
                if target > loop.now_us:
                    self.in_call = False
                    await vtime.advance_to(loop, target)
                    self.in_call = True
                    if self.circuit.error is None:
                        self.lines.append(f'persist adv {self.world.now_us() if self.family == "a" else t_stop}')
                        self.trace.append(self.render())
            if self.circuit.error is None:
                t_before = self.world.now_us()
                regular = True
                if stop_fault and self.slow is None:
                    self.set_faults(stop_fault)
                if self.slow is None:
                    try:
                        await c.shutdown()
                    except BaseException:
                        pass
                else:
                    # the application waits for the shutdown in a task of its own ...
                    self.in_call = False
                    waiter = asyncio.create_task(c.shutdown())
                    if stop['kind'] == 'cancel':
                        # ... and gives up after a while: wait_for(circuit.shutdown(), timeout) -> timeout;
                        # cancelling the waiter cancels the simulation task it awaits
                        if stop['after'] == 0:
                            # in the very next loop iteration: the second cancellation meets the first one before
                            # the simulation task has run (asyncio merges them, the clean-up is not interrupted)
                            await asyncio.sleep(0)
                        else:
                            await vtime.advance_to(loop, loop.now_us + stop['after'])
                        waiter.cancel()
                    await asyncio.gather(waiter, simtask, return_exceptions=True)
                    complete = self.cleanup_finished
                    self.in_call = True
            else:
                # (a handler error: the simulation task stops by itself)
                self.in_call = False
                await asyncio.wait([simtask])
                self.in_call = True
                regular = False
            stamp = self.store.raw().get(STOPKEY)
            sim_exc = simtask.exception() if simtask.done() and not simtask.cancelled() else None
            stop_raised = isinstance(sim_exc, self.store.exc) and str(sim_exc).startswith('storage fault')
            if self.faults_now and not self.cleanup:
                # a stop on a failing storage
                at_end = stop_raised and self.done_render is not None
                self.lines.append(f'persist stopf {t_before if regular else (self.done_time if at_end else self.world.now_us())}')
                self.trace.append(('raised ' if stop_raised else 'done ') + (self.done_render if at_end else self.render()))
                self.store.faults = dict(NO_FAULTS)
                self.snap('stop', t_before=t_before, t_after=self.world.now_us(), regular=regular, t_begin=None,
                          complete=not stop_raised, had_cleanup=False, stop_raised=stop_raised, on_faulty_storage=True)
                return
            if self.cleanup:
                # the beginning of the stop was seen by the clean-up hook
                # the model's flag means "every block got its stop()": observed (an asynchronous clean-up that is cut
                # short by its own stop_timeout does not keep the simulator from stopping the other blocks)
                all_stopped = all(spec['name'] in self.stopped_names for spec in self.specs)
                self.lines.append(f'persist stopend {self.world.now_us()} {int(all_stopped)}')
                t_begin = self.t_begin
            else:
                tstop = us_of(stamp) if isinstance(stamp, float) and (self.family == 'b' or not regular) else t_before
                self.lines.append(f'persist stop {tstop}')
                t_begin = t_before if regular and self.family == 'a' else None
            self.trace.append(self.render())
            self.snap('stop', t_before=t_before, t_after=self.world.now_us(), regular=regular, t_begin=t_begin,
                      complete=complete, had_cleanup=self.cleanup)
            if not simtask.done():
                await asyncio.wait([simtask])
            simtask.exception() if not simtask.cancelled() else None

        vtime.run(main, world=self.world)
        self.loop = None

    def do_event(self, op):
        _, idx, name, arg = op
        spec, blk = self.specs[idx], self.blocks[idx]
        before = len(self.snaps) - 1
        data = {}
        wire_arg = '-'
        if arg is not None:
            val = arg[0]
            if name == 'reconfig':
                wire_arg = enc_cfg(val)
                if spec['kind'] == 'timedate':
                    data = copy.deepcopy(val) if isinstance(val, dict) else {'times': val}
                else:
                    data = {'span': copy.deepcopy(val)}
            else:
                wire_arg = enc(val)
                data = {'amount' if name in ('inc', 'dec') else 'value': val}
        etype = edzed.Goto(name[5:]) if name.startswith('goto.') else (name[2:] if name.startswith('n.') else name)
        err0 = self.circuit.error
        self.in_call = True
        watch = not self.store.faults_active()
        self.store.wlog = [] if watch else None
        try:
            rv = blk.event(etype, **data)
            res = 'ret ' + enc(rv)
        except Exception as err:
            res = self.classify(err, err0)
        finally:
            self.in_call = False
            writes, self.store.wlog = self.store.wlog, None
        if res == 'err Abort':
            self.bad.setdefault(idx, before)
        # EdzedUnknownEvent for an event the block KNOWS: it comes from a nested event sent by the handler
        nested_unknown = False
        if res == 'err UnknownEvent' and spec['kind'] == 'fsm':
            t = spec['tables']
            nested_unknown = (name.startswith('n.') and name[2:] in {x[0] for x in t['trans']}) or \
                (name.startswith('goto.') and name[5:] in t['states'])
        if nested_unknown:
            self.cut_here()
        self.cal = self.cal_table(self.configs)
        self.lines.append(f'persist ev {idx} {name} {wire_arg} {self.cal}')
        self.trace.append(res + ' ' + self.wfmt(writes) + self.render())
        self.snap('ev', blk=idx, res=res, op=op, writes=writes, nested_unknown=nested_unknown)

    def send_late(self):
        """one event for every persistent Timer / InputExp, sent from inside another block's stop()"""
        self.cut_here()         # (events during the synchronous part of the clean-up are not in the model)
        for idx, (spec, blk) in enumerate(zip(self.specs, self.blocks)):
            if spec['kind'] not in ('timer', 'inputexp') or not blk.persistent:
                continue
            key = key_of(spec)
            before = copy.deepcopy(self.store.raw().get(key, KeyError))
            stopped = spec['name'] in self.stopped_names
            in_call, self.in_call = self.in_call, True      # (not a timer: no 'fire' snapshot)
            try:
                rv = blk.event('start') if spec['kind'] == 'timer' else blk.event('put', value=9)
                res = 'ret ' + repr(rv)
            except Exception as err:    # pylint: disable=broad-except
                res = 'err ' + type(err).__name__
            finally:
                self.in_call = in_call
            self.late.append({'blk': idx, 'stopped': stopped, 'res': res, 'before': before,
                              'after': copy.deepcopy(self.store.raw().get(key, KeyError)),
                              'state': None if blk.state is edzed.UNDEF else blk.state})

    def cut_here(self):
        """a nested EdzedUnknownEvent (known finding C09-nested-unknown-*) is not modelled: the comparison with the
        model ends before this line; the oracle goes on judging the rest of the run"""
        if getattr(self.world, 'c06_cut', None) is None and self.lines is getattr(self.world, 'c06_lines', None):
            self.world.c06_cut = len(self.lines)

    @staticmethod
    def wfmt(writes):
        """the storage after every write made during one event (`None`: not watched, the storage is failing)"""
        if writes is None:
            return ''
        return 'W=' + ('|'.join(enc_store(w) for w in writes) or '-') + ' '


# ----------------------------------------------------------------------------- scenarios

def _gen_fsm(rng, name):
    ns = rng.randint(2, 3)
    states = [f's{i}' for i in range(ns)]
    events = ['e0', 'e1', 'tk']
    trans = []
    for e in events:
        r = rng.random()
        if r < 0.35:
            trans.append([e, None, rng.choice(states)])
        for st in states:
            if rng.random() < 0.45:
                trans.append([e, st, rng.choice(states)])
    if not any(t[0] == 'tk' for t in trans):
        trans.append(['tk', rng.choice(states), rng.choice(states)])
    seen, uniq = set(), []
    for t in trans:
        if (t[0], t[1]) not in seen:
            seen.add((t[0], t[1]))
            uniq.append(t)
    trans = uniq
    evnames = sorted({t[0] for t in trans})
    timers = []
    for st in states:
        if rng.random() < 0.6:
            dur = None if rng.random() < 0.12 else rng.choice([32, 64, 96, 128, 200, 37, 5]) * TICK
            ev = ['E', rng.choice([e for e in evnames if e == 'tk'] * 3 + evnames)] if rng.random() < 0.7 else ['G', rng.choice(states)]
            timers.append([st, dur, ev])
    conds = []
    for e in evnames:
        r = rng.random()
        if r < 0.2:
            conds.append([e, 'no'])
        elif r < 0.4:
            conds.append([e, 'ne', rng.choice(states)])
        elif r < 0.45:
            conds.append([e, 'raise'])
        elif r < 0.55:
            conds.append([e, 'yes'])
    init = rng.choice(states)
    enters = []
    for st in states:
        r = rng.random()
        if r < 0.3:
            enters.append([st, 'set', rng.choice(['k', 'n']), rng.choice([1, 2, 'z', None])])
        elif r < 0.38 and st != init:
            enters.append([st, 'raise'])
        elif r < 0.5:
            enters.append([st, 'nop'])
    tables = {'states': states, 'trans': trans, 'timers': timers, 'conds': conds, 'enters': enters,
              'out': ['state'], 'init': init, 'sdata': rng.choice([{}, {}, {'k': 0}])}
    if rng.random() < 0.5:
        _add_chains(rng, tables)
    if rng.random() < 0.12:
        trig = rng.choice(['enter', 'exit'])
        cands = [st for st in states if trig == 'exit' or st not in (init, _init_final(tables))]
        if cands:
            tables['bogus'] = [[trig, rng.choice(cands)]]
    return {'kind': 'fsm', 'name': name, 'tables': tables}


def _next_state(tables, ev, st):
    for e, f, to in tables['trans']:
        if e == ev and f == st:
            return to
    for e, f, to in tables['trans']:
        if e == ev and f is None:
            return to
    return None


def _chain_cyclic(tables):
    """could the chained transitions requested by the entry actions go on for ever? (conditions ignored)"""
    scripts = {e[0]: e for e in tables['enters']}
    for st in tables['states']:
        seen, cur = set(), st
        while cur is not None:
            if cur in seen:
                return True
            seen.add(cur)
            sc = scripts.get(cur)
            if sc is None or sc[1] not in ('chain', 'goto'):
                break
            cur = _next_state(tables, sc[2], cur) if sc[1] == 'chain' else (sc[2] if sc[2] in tables['states'] else None)
    return False


def _init_final(tables):
    """the state the initial transition (conditions are skipped there) ends in, following the chained transitions
    of the entry actions; None: it runs into a failing entry action"""
    scripts = {e[0]: e for e in tables['enters']}
    cur = tables['init']
    for _ in range(len(tables['states']) + 1):
        sc = scripts.get(cur)
        if sc is None:
            return cur
        if sc[1] == 'raise':
            return None
        if sc[1] == 'chain':
            nxt = _next_state(tables, sc[2], cur)
            if nxt is None:
                return cur
            cur = nxt
        elif sc[1] == 'goto':
            if sc[2] not in tables['states']:
                return None
            cur = sc[2]
        else:
            return cur
    return None


def _init_chain_fails(tables):
    return _init_final(tables) is None


def _add_chains(rng, tables):
    """entry actions that request a chained transition: `self.event(EVENT)` / `self.event(Goto(STATE))`"""
    states = tables['states']
    evnames = sorted({t[0] for t in tables['trans']})
    for st in rng.sample(states, rng.randint(1, 2)):
        saved = [list(e) for e in tables['enters']]
        if rng.random() < 0.7:
            good = [e for e in evnames if _next_state(tables, e, st) not in (None, st)]
            ev = rng.choice(good) if good and rng.random() < 0.8 else rng.choice(evnames)
            script = [st, 'chain', ev]
        else:
            others = [x for x in states if x != st]
            script = [st, 'goto', rng.choice(others) if rng.random() < 0.93 else 'zz']
        tables['enters'] = [e for e in tables['enters'] if e[0] != st] + [script]
        if _chain_cyclic(tables) or _init_chain_fails(tables):
            tables['enters'] = saved


def _gen_block(rng, i, family):
    if family == 'b':
        kind = rng.choice(['timedate', 'timespan', 'timedate', 'timespan', 'input', 'counter'])
    else:
        kind = rng.choice(['input', 'counter', 'timer', 'timer', 'inputexp', 'inputexp', 'fsm', 'fsm', 'fsm'])
    name = f'b{i}'
    if kind == 'input':
        spec = {'kind': kind, 'name': name,
                'initdef': rng.choice([[0], ['x'], [None], [7], None] if rng.random() < 0.5 else [[0], ['x'], [7]])}
    elif kind == 'counter':
        spec = {'kind': kind, 'name': name, 'mod': rng.choice([None, None, 7, 3, -4]), 'initdef': rng.randint(-5, 9)}
    elif kind == 'timer':
        spec = {'kind': kind, 'name': name, 'restartable': rng.random() < 0.6,
                't_on': rng.choice([None, 64, 128, 96, 33]) if rng.random() < 0.85 else None,
                't_off': rng.choice([None, None, 64, 160])}
        for a in ('t_on', 't_off'):
            if spec[a] is not None:
                spec[a] *= TICK
    elif kind == 'inputexp':
        spec = {'kind': kind, 'name': name, 'dur': rng.choice([64, 128, 192, 50]) * TICK,
                'expired': rng.choice([None, 'EXP', 0]), 'initdef': rng.choice([None, [5], ['v']])}
    elif kind == 'fsm':
        spec = _gen_fsm(rng, name)
    elif kind == 'timedate':
        spec = {'kind': kind, 'name': name, 'cfg': _gen_td(rng)}
    else:
        spec = {'kind': kind, 'name': name, 'cfg': _gen_ts(rng)}
    spec['p'] = rng.random() < 0.9
    spec['s'] = rng.random() < 0.75
    spec['exp'] = None
    if rng.random() < 0.15:
        # the flags written as other truthy / falsy values
        spec['p_raw'] = [rng.choice([1, 'yes', 2.5, (0,)]) if spec['p'] else rng.choice([0, '', None, ()])]
    if rng.random() < 0.15:
        spec['s_raw'] = [rng.choice([1, 'on', 0.5]) if spec['s'] else rng.choice([0, '', None, 0.0])]
    return spec


def _gen_td(rng):
    def tm():
        return [rng.randint(0, 23), rng.choice([0, 10, 30, 45]), 0, 0]
    times = None if rng.random() < 0.3 else sorted([tm(), tm()] for _ in range(rng.randint(1, 2)))
    dates = None if rng.random() < 0.6 else [[[rng.randint(1, 12), rng.randint(1, 28)], [rng.randint(1, 12), rng.randint(1, 28)]]]
    wd = None if rng.random() < 0.6 else sorted(rng.sample(range(1, 8), rng.randint(1, 4)))
    return {'times': times, 'dates': dates, 'weekdays': wd}


def _gen_ts(rng):
    out = []
    for _ in range(rng.randint(0, 2)):
        a = [1970, 1, rng.randint(1, 6), rng.randint(0, 23), rng.choice([0, 20, 40]), 0, 0]
        b = [1970, 1, rng.randint(a[2], 7), rng.randint(0, 23), rng.choice([10, 30, 50]), 0, 0]
        if tuple(a) < tuple(b):
            out.append([a, b])
    out.sort()
    return out


def _windows(scn):
    """probe windows (start, end) of wall time used by a family-b scenario"""
    w = [(scn['t0'] - SEC, scn['t_stop'] + 2 * SEC)]
    for r in scn['restarts']:
        if isinstance(r['down'], int):
            w.append((scn['t0'] - SEC + r['down'], scn['t_stop'] + r['down'] + 12 * SEC))
    return w


def _cfg_stable(kind, cfg, windows):
    for a, b in windows:
        v0 = cal_verdict(kind, cfg, a - 60 * SEC)
        t = a - 60 * SEC
        while t <= b + 60 * SEC:
            if cal_verdict(kind, cfg, t) != v0:
                return False
            t += 5 * SEC
    return True


def _gen_event(rng, spec, family, scn):
    k = spec['kind']
    r = rng.random()
    if k == 'input':
        if r < 0.7:
            return ['put', [rng.choice([1, 2, 'a', None, 'b', (1, 2), 'REJ'])]]
        if r < 0.8:
            return ['put', None]
        if r < 0.9:
            return ['n.foo', None]
        return ['put', ['BOOM']]
    if k == 'counter':
        if r < 0.6:
            return [rng.choice(['inc', 'dec']), rng.choice([None, [rng.randint(-9, 20)]])]
        if r < 0.7:
            return ['put', [rng.randint(-30, 30)]]
        if r < 0.78:
            return ['reset', None]
        if r < 0.86:
            return ['put', None]
        if r < 0.92:
            return ['reconfig', [[]]] if family == 'b' else ['n.bar', None]
        return ['inc', ['x']]
    if k in ('timedate', 'timespan'):
        if r < 0.75:
            for _ in range(30):
                cfg = _gen_td(rng) if k == 'timedate' else _gen_ts(rng)
                if _cfg_stable(k, cfg, scn['_windows']):
                    return ['reconfig', [cfg]]
            return ['reconfig', [{'times': None, 'dates': None, 'weekdays': None} if k == 'timedate' else []]]
        if r < 0.85:
            return ['put', [1]]
        return ['reconfig', [{'times': 'bad', 'dates': None, 'weekdays': None} if k == 'timedate' else 'bad']]
    if k == 'timer':
        if r < 0.9:
            return ['n.' + rng.choice(['start', 'stop', 'toggle', 'start']), None]
        if r < 0.95:
            return ['n.nonsense', None]
        return ['goto.' + rng.choice(['on', 'off', 'zz']), None]
    if k == 'inputexp':
        if r < 0.8:
            return ['put', [rng.choice([1, 'w', None, 5])]]
        if r < 0.88:
            return ['put', None]
        if r < 0.95:
            return ['n.nonsense', None]
        return ['goto.' + rng.choice(['expired', 'valid']), None]
    t = spec['tables']
    if r < 0.85:
        return ['n.' + rng.choice(['e0', 'e1', 'tk']), None]
    if r < 0.92:
        return ['goto.' + rng.choice(t['states'] + ['zz']), None]
    return ['n.nonsense', None]


def _gen_links(rng, scn):
    """put on_output links into the block specs; returns the indices of the blocks involved"""
    blocks = scn['blocks']
    if not any(b['kind'] in ('input', 'counter') for b in blocks):
        i = rng.randrange(len(blocks))
        blocks[i] = {'kind': 'input', 'name': blocks[i]['name'], 'initdef': [0], 'p': True, 's': True, 'exp': None}
    if not any(b['kind'] in ('input', 'inputexp') for b in blocks) or len(blocks) == 2:
        j = rng.choice([j for j, b in enumerate(blocks)])
        if sum(1 for b in blocks if b['kind'] in ('input', 'counter')) > 1 or blocks[j]['kind'] not in ('input', 'counter'):
            blocks[j] = {'kind': 'input', 'name': blocks[j]['name'], 'initdef': [rng.choice(['dflt', 1])], 'p': True,
                         's': True, 'exp': None}
    srcs = [i for i, b in enumerate(blocks) if b['kind'] in ('input', 'counter')]
    rng.shuffle(srcs)
    used, dests = [], set()
    for i in srcs[:rng.choice([1, 1, 2])]:
        if i in dests:
            continue
        src = blocks[i]
        cands = [j for j, b in enumerate(blocks) if j != i and b.get('link') is None and j not in used and
                 (b['kind'] in ('input', 'inputexp') or (b['kind'] == 'counter' and src['kind'] == 'counter'))]
        if not cands:
            continue
        j = rng.choice(cands)
        r = rng.random()
        et, ef = (True, True) if r < 0.25 else ((True, False) if r < 0.6 else ((False, True) if r < 0.9 else (False, False)))
        src['link'] = {'dest': j, 'dest_name': blocks[j]['name'], 'etrue': et, 'efalse': ef}
        if src['kind'] == 'input':
            src['initdef'] = [rng.choice([0, 5, '', 'x', None])]
        else:
            src['initdef'] = rng.choice([0, 0, 3])
        for b in (src, blocks[j]):
            if rng.random() < 0.85:
                b['p'] = True
                b.pop('p_raw', None)
            if rng.random() < 0.8:
                b['s'] = True
                b.pop('s_raw', None)
        used.append(i)
        dests.add(j)
    return sorted(set(used) | dests) if used else []


EXPV = ['none', 'none', 'zero', 'neg', 'short', 'equal', 'long', 'long']
DOWNV = ['short', 'equal', 'long', 'longer', 'tick']


def _gen_scenario(rng, tier, family):
    nb = rng.randint(1, 4 if family == 'a' else 3)
    scn = {'family': family, 'blocks': [], 'restarts': []}
    t0 = WALL0 + rng.randint(0, 400) * (TICK if family == 'a' else SEC) + (SEC // 2 if family == 'b' else 0)
    scn['t0'] = t0
    r = rng.random()
    scn['mode'] = 'ok' if r < 0.86 else ('aborted' if r < 0.92 else 'raises')
    scn['failer_first'] = rng.random() < 0.5
    nops = rng.randint(2, 12)
    step = (lambda: rng.choice([0, 0, 1, 7, 16, 32, 64, 100]) * TICK) if family == 'a' else (lambda: rng.choice([0, 0, 1, 2]) * SEC)
    times, t = [], t0
    for _ in range(nops):
        t += step()
        times.append(t)
    scn['t_stop'] = t + step()
    # restarts (symbolic; resolved against the snapshot when run)
    nsnap = nops + 3
    if tier == 'thorough':
        picks = list(range(nsnap)) + [rng.randrange(nsnap) for _ in range(3)]
    else:
        picks = sorted({rng.randrange(nsnap) for _ in range(max(2, nsnap // 3))} | {nsnap - 1} | ({0} if rng.random() < 0.5 else set()))
    for sidx in picks:
        if family == 'a':
            down = rng.choice(DOWNV)
        else:
            down = rng.choice([5, 40, 3 * 3600, 2 * 86400 + 3600]) * SEC
        scn['restarts'].append({'snap': sidx, 'down': down, 'exp': [rng.choice(EXPV) for _ in range(nb)],
                                'drop': [i for i in range(nb) if rng.random() < 0.07],
                                'nopersist': [i for i in range(nb) if rng.random() < 0.07],
                                'sync': [rng.random() < 0.8 for _ in range(nb)]})
    # an extra block with an asynchronous clean-up of duration `slow`; the application's shutdown() may be
    # cancelled `after` us (before or after the end of the clean-up)
    scn['slow'] = None
    scn['stop'] = {'kind': 'full'}
    if scn['mode'] == 'ok' and rng.random() < 0.5:
        unit = TICK if family == 'a' else SEC
        scn['slow'] = rng.choice([16, 64, 100, 200, 320] if family == 'a' else [1, 2]) * unit
        if rng.random() < 0.6:
            r = rng.random()
            after = (max(unit, int(scn['slow'] * rng.choice([0.25, 0.5, 0.75])) // unit * unit) if r < 0.7
                     else (0 if r < 0.8 else (scn['slow'] if r < 0.9 else scn['slow'] + unit)))
            scn['stop'] = {'kind': 'cancel', 'after': after}
        for sidx in (-1, -2):
            if family == 'a':
                down = rng.choice(DOWNV)
            else:
                down = rng.choice([5, 40, 3 * 3600, 2 * 86400 + 3600]) * SEC
            scn['restarts'].append({'snap': sidx, 'down': down, 'exp': [rng.choice(EXPV) for _ in range(nb)],
                                    'drop': [], 'nopersist': [], 'sync': [rng.random() < 0.8 for _ in range(nb)]})
    scn['_windows'] = _windows(scn)
    for i in range(nb):
        for _ in range(50):
            spec = _gen_block(rng, i, family)
            if scn['slow'] is not None and spec['kind'] == 'input' and spec['initdef'] is None:
                continue        # (keeps the start-up from failing: the clean-up of a failed start is not modelled)
            if spec['kind'] not in ('timedate', 'timespan') or _cfg_stable(spec['kind'], spec['cfg'], scn['_windows']):
                break
        else:
            spec = {'kind': 'counter', 'name': f'b{i}', 'mod': None, 'initdef': 0, 'p': True, 's': True, 'exp': None}
        scn['blocks'].append(spec)
    # a block whose regular initialisation raises (round ten): the start-up fails after start_ok, the blocks created
    # after it have no state yet when the final save runs
    if scn['mode'] == 'ok' and scn['slow'] is None and rng.random() < 0.08:
        j = rng.randrange(nb)
        scn['blocks'][j] = {'kind': 'input', 'name': f'b{j}', 'initdef': ['BOOM'], 'p': rng.random() < 0.9,
                            's': rng.random() < 0.75, 'exp': None}
        scn['init_boom'] = True
    # blocks whose stop() sends an event to the persistent Timer / InputExp blocks (round ten): the event arrives
    # before or after the destination's own stop(), as the set of blocks without asynchronous clean-up iterates
    if family == 'a' and scn['mode'] == 'ok' and scn['slow'] is None and not scn.get('init_boom') \
            and any(b['kind'] in ('timer', 'inputexp') and b['p'] for b in scn['blocks']) and rng.random() < 0.25:
        scn['late'] = rng.choice([2, 4])
    # events between the blocks at start-up: on_output of an Input/Counter -> 'put' to another block, plain or
    # through an EventCond with None on either side; the destination is created before or after the source
    linked = _gen_links(rng, scn) if family == 'a' and scn['mode'] == 'ok' and nb >= 2 and not scn.get('init_boom') and not scn.get('late') and rng.random() < 0.5 else []
    ops = []
    aborted = False
    free = [i for i in range(nb) if scn['blocks'][i].get('link') is None]
    for tt in times:
        ops.append(['adv', tt])
        for _ in range(rng.choice([1, 1, 1, 2, 3])):
            i = rng.choice(free)        # (events that change the output of a link source are not modelled)
            name, arg = _gen_event(rng, scn['blocks'][i], family, scn)
            ops.append(['ev', i, name, arg])
    scn['ops'] = ops
    if linked:
        for r in scn['restarts']:
            r['drop'] = []
    # the storage fails: at the start (reads of entries / of the stop time, keys(), the purge), at run time
    # (writes, and the pop that removes the stale entry), at the stop (saves, stop time)
    if family == 'a' and scn['mode'] == 'ok' and not linked and not scn.get('init_boom') and not scn.get('late') and rng.random() < 0.3:
        scn['slow'], scn['stop'] = None, {'kind': 'full'}
        scn['fault_exc'] = rng.choice(['OSError', 'RuntimeError', 'StorageFault'])

        def read_fault():
            f = {'r': sorted(rng.sample(range(nb), rng.randint(1, nb)))}
            r = rng.random()
            if r < 0.08:
                f['r'].append('stamp')
            elif r < 0.14:
                f['i'] = True
            elif r < 0.25 and not any(b['kind'] == 'input' and b['initdef'] is None for b in scn['blocks']):
                f['d'] = True       # (not when the initialisation can fail: the stop of a failed start on a storage
                                    #  whose pop fails is outside the model)
            return f
        if rng.random() < 0.3:
            scn['start_fault'] = read_fault()
        if rng.random() < 0.8 and len(ops) >= 2:
            a = rng.randrange(len(ops))
            ops.insert(a, ['fault', {'w': True, 'd': rng.random() < 0.2}])
            if rng.random() < 0.8:
                ops.insert(rng.randrange(a + 1, len(ops) + 1), ['fault', {}])
        if rng.random() < 0.3:
            scn['stop_fault'] = rng.choice([{'w': True}, {'w': True}, {'w': True, 'd': True}, {'d': True}])
        for r in scn['restarts']:
            if rng.random() < 0.4:
                r['start_fault'] = read_fault()
    # initial storage: stale entries, unused keys, reserved keys, stamp
    store0 = []
    if linked and rng.random() < 0.8:
        # valid entries of the linked blocks: the first start-up is a restart already
        store0.append([STOPKEY, ['ts', t0 - 64 * TICK]])
        for i in linked:
            spec = scn['blocks'][i]
            if rng.random() < 0.8:
                k = spec['kind']
                if k == 'input':
                    e = ['val', rng.choice([0, 7, '', 'kept', None] if spec.get('link') else [11, 'kept', 0])]
                elif k == 'counter':
                    e = ['val', rng.choice([0, 0, 4])]
                else:
                    e = ['fsm', rng.choice(['valid', 'expired']), None, {'input': 3}]
                store0.append([key_of(spec), e])
    elif rng.random() < 0.6:
        if rng.random() < 0.7:
            store0.append([STOPKEY, ['ts', t0 - rng.choice([1, 64, 640, 6400]) * TICK]])
        elif rng.random() < 0.5:
            store0.append([STOPKEY, ['val', 'yesterday']])
        if rng.random() < 0.7:
            store0.append(["<Input 'gone'>", ['val', 5]])
        if rng.random() < 0.4:
            store0.append(["<Timer 'old'>", ['fsm', 'on', t0 + 64 * TICK, {}]])
        if rng.random() < 0.6:
            store0.append(['edzed-app-data', ['val', rng.choice([1, 'keep me'])]])
        if rng.random() < 0.2:
            store0.append(['edzed-', ['val', 0]])
        for spec in scn['blocks']:
            if rng.random() < 0.35:
                k = spec['kind']
                if k == 'input':
                    e = ['val', rng.choice([11, 'stored', 'REJ'])]
                elif k == 'counter':
                    e = ['val', rng.randint(-20, 20)]
                elif k == 'timer':
                    e = ['fsm', rng.choice(['on', 'off']), rng.choice([None, t0 + 64 * TICK, t0 - TICK, t0]), {}]
                elif k == 'inputexp':
                    e = ['fsm', rng.choice(['valid', 'expired']), rng.choice([None, t0 + 32 * TICK]), {'input': 3}]
                elif k == 'fsm':
                    e = ['fsm', rng.choice(spec['tables']['states'] + ['zz']), rng.choice([None, None, t0 + 32 * TICK]),
                         rng.choice([{}, {'k': 9}])]
                else:
                    e = ['cfg', spec['cfg']]
                store0.append([key_of(spec), e])
    scn['store0'] = store0
    del scn['_windows']
    scn['json_store'] = rng.random() < 0.35      # the restarts read a storage that hands sequences back as lists
    return scn


def _defect8_seed():
    """the history of DESIGN.md section 5 row 8: a timed event that is rejected"""
    t0 = WALL0
    tables = {'states': ['s0', 's1'], 'trans': [['e0', None, 's1'], ['tk', 's0', 's1']],
              'timers': [['s1', 64 * TICK, ['E', 'tk']]], 'conds': [], 'enters': [], 'out': ['state'],
              'init': 's0', 'sdata': {}}
    blk = {'kind': 'fsm', 'name': 'b0', 'tables': tables, 'p': True, 's': True, 'exp': None}
    return {'family': 'a', 'blocks': [blk], 't0': t0, 'mode': 'ok', 'failer_first': False,
            'ops': [['adv', t0 + 32 * TICK], ['ev', 0, 'n.e0', None], ['adv', t0 + 200 * TICK]],
            't_stop': t0 + 256 * TICK, 'store0': [],
            'restarts': [{'snap': 3, 'down': 'long', 'exp': ['none'], 'drop': [], 'nopersist': [], 'sync': [True]},
                         {'snap': 4, 'down': 'long', 'exp': ['long'], 'drop': [], 'nopersist': [], 'sync': [True]}]}


def _cancelled_shutdown_seed(first_run):
    """a persistent Input (expiration 60 s) and a Timer, a block with 30 s of asynchronous clean-up, the
    application gives up waiting for shutdown() after 10 s; restart 100 s later"""
    t0 = WALL0
    blocks = [{'kind': 'input', 'name': 'b0', 'initdef': [0], 'p': True, 's': True, 'exp': None},
              {'kind': 'timer', 'name': 'b1', 'restartable': True, 't_on': 20 * SEC, 't_off': None, 'p': True,
               's': False, 'exp': None}]
    store0 = [] if first_run else [[STOPKEY, ['ts', t0 - 3600 * SEC]], ["<Input 'b0'>", ['val', 3]]]
    return {'family': 'a', 'blocks': blocks, 't0': t0, 'mode': 'ok', 'failer_first': False,
            'ops': [['adv', t0 + SEC], ['ev', 0, 'put', [7]], ['ev', 1, 'n.start', None]],
            't_stop': t0 + 15 * SEC, 'store0': store0, 'slow': 30 * SEC, 'stop': {'kind': 'cancel', 'after': 10 * SEC},
            'restarts': [{'snap': -1, 'down': 100 * SEC, 'exp': [60 * SEC, 'none'], 'drop': [], 'nopersist': [],
                          'sync': [True, True]},
                         {'snap': -1, 'down': 50 * SEC, 'exp': [60 * SEC, 'none'], 'drop': [], 'nopersist': [],
                          'sync': [True, True]},
                         {'snap': -2, 'down': 64 * TICK, 'exp': ['long', 'short'], 'drop': [], 'nopersist': [],
                          'sync': [True, False]}]}


def _condnone_seed(src_first):
    """`src` sends EventCond('put', None) to `dst` on output; both are persistent; first life: dst gets 'saved';
    restart: src is restored to 0 (falsy -> "no event") before or after dst"""
    t0 = WALL0
    src = {'kind': 'input', 'name': 'b0' if src_first else 'b1', 'initdef': [0], 'p': True, 's': True, 'exp': None,
           'link': {'dest': 1 if src_first else 0, 'dest_name': 'b1' if src_first else 'b0', 'etrue': True, 'efalse': False}}
    dst = {'kind': 'input', 'name': 'b1' if src_first else 'b0', 'initdef': ['dflt'], 'p': True, 's': True, 'exp': None}
    di = 1 if src_first else 0
    return {'family': 'a', 'blocks': [src, dst] if src_first else [dst, src], 't0': t0, 'mode': 'ok', 'failer_first': False,
            'ops': [['adv', t0 + SEC], ['ev', di, 'put', ['saved']]], 't_stop': t0 + 2 * SEC, 'store0': [],
            'slow': None, 'stop': {'kind': 'full'},
            'restarts': [{'snap': -1, 'down': 64 * TICK, 'exp': ['none', 'none'], 'drop': [], 'nopersist': [],
                          'sync': [True, True]}]}


def _storage_outage_seed():
    """a persistent Counter and an InputExp on a storage that refuses writes for a while (the demo of the missed
    change: every event still returns the handler's result, the simulation goes on, the next save after the outage
    stores the current state)"""
    t0 = WALL0
    blocks = [{'kind': 'counter', 'name': 'b0', 'mod': 10, 'initdef': 23, 'p': True, 's': True, 'exp': None},
              {'kind': 'inputexp', 'name': 'b1', 'dur': 64 * TICK, 'expired': 'EXP', 'initdef': None, 'p': True, 's': True,
               'exp': None}]
    return {'family': 'a', 'blocks': blocks, 't0': t0, 'mode': 'ok', 'failer_first': False,
            'ops': [['adv', t0 + SEC], ['ev', 0, 'inc', None], ['fault', {'w': True}], ['ev', 0, 'inc', [5]],
                    ['ev', 1, 'put', ['v']], ['ev', 0, 'put', None], ['adv', t0 + 3 * SEC], ['ev', 0, 'dec', None],
                    ['fault', {}], ['ev', 0, 'inc', [7]]],
            't_stop': t0 + 4 * SEC, 'store0': [[STOPKEY, ['ts', t0 - SEC]], ["<Counter 'b0'>", ['val', -4]]],
            'slow': None, 'stop': {'kind': 'full'}, 'fault_exc': 'OSError',
            'restarts': [{'snap': 5, 'down': 'short', 'exp': ['none', 'none'], 'drop': [], 'nopersist': [], 'sync': [True, True]},
                         {'snap': -1, 'down': 'short', 'exp': ['none', 'none'], 'drop': [], 'nopersist': [],
                          'sync': [True, True], 'start_fault': {'r': [0]}}]}


def _chain_seed(fail, via_goto=False):
    """the documented chained transition: enter_X requests the next transition (X -> Y) with an event to its own
    block; with `fail` the entry action of Y raises.  Crash points after every storage write."""
    t0 = WALL0
    tables = {'states': ['A', 'X', 'Y'], 'trans': [['go', 'A', 'X'], ['next', 'X', 'Y'], ['back', None, 'A']],
              'timers': [['Y', 64 * TICK, ['E', 'back']]], 'conds': [],
              'enters': [['X', 'goto', 'Y'] if via_goto else ['X', 'chain', 'next']] + ([['Y', 'raise']] if fail else []),
              'out': ['state'], 'init': 'A', 'sdata': {}}
    blk = {'kind': 'fsm', 'name': 'b0', 'tables': tables, 'p': True, 's': True, 'exp': None}
    return {'family': 'a', 'blocks': [blk], 't0': t0, 'mode': 'ok', 'failer_first': False,
            'ops': [['adv', t0 + 32 * TICK], ['ev', 0, 'n.go', None], ['adv', t0 + 40 * TICK]],
            't_stop': t0 + 48 * TICK, 'store0': [],
            'restarts': [{'snap': 2, 'down': 'short', 'exp': ['none'], 'drop': [], 'nopersist': [], 'sync': [True]},
                         {'snap': -1, 'down': 'short', 'exp': ['none'], 'drop': [], 'nopersist': [], 'sync': [True]}]}


def _bogus_seed(trig):
    """an on_enter / on_exit event of an FSM state goes to a block that does not know the event type"""
    t0 = WALL0
    tables = {'states': ['s0', 's1', 's2'], 'trans': [['e0', 's0', 's1'], ['e1', 's1', 's2'], ['e1', 's0', 's2']],
              'timers': [], 'conds': [], 'enters': [], 'out': ['state'], 'init': 's0', 'sdata': {},
              'bogus': [[trig, 's1' if trig == 'enter' else 's0']]}
    blk = {'kind': 'fsm', 'name': 'b0', 'tables': tables, 'p': True, 's': True, 'exp': None}
    return {'family': 'a', 'blocks': [blk], 't0': t0, 'mode': 'ok', 'failer_first': False,
            'ops': [['adv', t0 + 32 * TICK], ['ev', 0, 'n.e0', None], ['ev', 0, 'n.e1', None], ['adv', t0 + 40 * TICK]],
            't_stop': t0 + 48 * TICK, 'store0': [],
            'restarts': [{'snap': -1, 'down': 'short', 'exp': ['none'], 'drop': [], 'nopersist': [], 'sync': [True]}]}


def _zero_timer_seed(kind):
    """zero-length timers: the timed event is delivered inside `_start_timer`, as a nested event() of the block, while
    the transition into the timed state is still in progress (Timer: start -> on -> at once off; InputExp: put -> valid
    -> at once expired); oracle only"""
    t0 = WALL0
    if kind == 'timer':
        blk = {'kind': 'timer', 'name': 'b0', 'restartable': True, 't_on': 0, 't_off': None, 'p': True, 's': True, 'exp': None}
        ops = [['adv', t0 + 32 * TICK], ['ev', 0, 'n.start', None], ['adv', t0 + 40 * TICK], ['ev', 0, 'n.toggle', None]]
    else:
        blk = {'kind': 'inputexp', 'name': 'b0', 'dur': 0, 'expired': 'EXP', 'initdef': None, 'p': True, 's': True, 'exp': None}
        ops = [['adv', t0 + 32 * TICK], ['ev', 0, 'put', ['v']], ['adv', t0 + 40 * TICK], ['ev', 0, 'put', [5]]]
    return {'family': 'a', 'blocks': [blk], 't0': t0, 'mode': 'ok', 'failer_first': False, 'ops': ops,
            't_stop': t0 + 48 * TICK, 'store0': [],
            'restarts': [{'snap': 2, 'down': 'short', 'exp': ['none'], 'drop': [], 'nopersist': [], 'sync': [True]}]}


def scenarios(rng, tier):
    yield _defect8_seed()
    yield _zero_timer_seed('timer')
    yield _zero_timer_seed('inputexp')
    yield _chain_seed(True)
    yield _chain_seed(False)
    yield _chain_seed(True, via_goto=True)
    yield _bogus_seed('enter')
    yield _bogus_seed('exit')
    yield _storage_outage_seed()
    yield _condnone_seed(True)
    yield _condnone_seed(False)
    yield _cancelled_shutdown_seed(True)
    yield _cancelled_shutdown_seed(False)
    n = 2400 if tier == 'quick' else 16000
    for i in range(n):
        yield _gen_scenario(rng, tier, 'b' if i % 6 == 5 else 'a')


def shrink(scn):
    if len(scn['restarts']) > 1:
        for i in reversed(range(len(scn['restarts']))):
            yield {**scn, 'restarts': scn['restarts'][:i] + scn['restarts'][i + 1:]}
    dests = {b['link']['dest'] for b in scn['blocks'] if b.get('link')}

    def telling(sc):
        return sum(1 for op in sc['ops'] if op[0] == 'ev' and op[1] in dests and op[2] == 'put'
                   and op[3] is not None and op[3][0] not in ('REJ', 'BOOM'))
    for cand in shrink_ops(scn):
        # (one event that gives the destination of a link a state of its own stays: it makes the loss visible)
        if telling(cand) >= min(1, telling(scn)):
            yield cand


# ----------------------------------------------------------------------------- run_impl

def _configs(scn):
    out = []
    for spec in scn['blocks']:
        if spec['kind'] in ('timedate', 'timespan'):
            out.append((spec['kind'], spec['cfg']))
    for op in scn['ops']:
        if op[0] == 'ev' and op[2] == 'reconfig' and op[3] is not None:
            spec = scn['blocks'][op[1]]
            cfg = op[3][0]
            if spec['kind'] in ('timedate', 'timespan') and _good_cfg(spec['kind'], cfg):
                out.append((spec['kind'], cfg))
    for k, e in scn['store0']:
        if e[0] == 'cfg':
            kind = 'timedate' if isinstance(e[1], dict) else 'timespan'
            out.append((kind, e[1]))
    return out


def _good_cfg(kind, cfg):
    if kind == 'timedate':
        return isinstance(cfg, dict) and not isinstance(cfg.get('times'), str)
    return isinstance(cfg, list)


def _resolve_restart(r, snap, specs1, family):
    """downtime and expiration values from the symbolic variants"""
    t_snap = snap['t']
    store = snap['store']
    rems = []
    for spec in specs1:
        e = store.get(key_of(spec))
        if isinstance(e, tuple) and len(e) == 3 and isinstance(e[1], float):
            rem = us_of(e[1]) - t_snap
            if rem > 0:
                rems.append(rem)
    rem = min(rems) if rems else 128 * TICK
    if isinstance(r['down'], int):
        down = r['down']
    else:
        down = {'short': max(TICK, (rem // 2) // TICK * TICK), 'equal': rem, 'long': rem + 64 * TICK,
                'longer': rem + 6400 * TICK, 'tick': TICK}[r['down']]
    now2 = t_snap + down
    stamp = store.get(STOPKEY)
    age = now2 - us_of(stamp) if isinstance(stamp, float) else None
    margin = TICK if family == 'a' else 2 * SEC
    exps = []
    for v in r['exp']:
        if isinstance(v, int):
            exps.append(v)
        elif v == 'none':
            exps.append(None)
        elif v == 'zero':
            exps.append(0)
        elif v == 'neg':
            exps.append(-64 * TICK)
        elif age is None or age <= margin:
            exps.append({'short': TICK, 'equal': 64 * TICK, 'long': 640 * TICK}[v])
        elif v == 'short':
            exps.append(age - margin)
        elif v == 'equal':
            exps.append(age if family == 'a' else age + margin)
        else:
            exps.append(age + 64 * TICK if family == 'a' else age + 60 * SEC)
    return down, now2, exps


def run_impl(scn):
    world = vtime.World()
    world.read_latency_us = 0 if scn['family'] == 'a' else 2
    vtime.install(world)
    try:
        return _run_impl(scn, world)
    finally:
        vtime.uninstall()


def _run_impl(scn, world):
    family = scn['family']
    lines, trace = [], []
    world.c06_lines, world.c06_cut = lines, None
    configs = _configs(scn)
    store = Storage()
    for k, e in scn['store0']:
        store[k] = dec_entry(e)
    store0 = copy.deepcopy(dict(store))
    first = Life(world, scn['blocks'], store, family, lines, trace)
    store.exc = FAULT_EXC[scn.get('fault_exc', 'OSError')]
    first.run(scn['t0'], scn['mode'], scn['failer_first'], scn['ops'], scn['t_stop'], configs,
              slow=scn.get('slow'), stop=scn.get('stop'), start_fault=scn.get('start_fault'),
              stop_fault=scn.get('stop_fault'), late=scn.get('late', 0))
    # reference: a fresh start without storage content (what "normal initialisation" gives)
    restarts = []
    for r in scn['restarts']:
        snap = first.snaps[r['snap'] % len(first.snaps)]
        down, now2, exps = _resolve_restart(r, snap, scn['blocks'], family)
        specs2, idxmap = [], []
        for i, spec in enumerate(scn['blocks']):
            if i in r['drop']:
                continue
            s2 = copy.deepcopy(spec)
            s2['exp'] = exps[i]
            s2.pop('exp_raw', None)
            if exps[i] is not None and exps[i] >= 0 and exps[i] % SEC == 0:
                # whole seconds: written as a float, an int or a string with units
                n = exps[i] // SEC
                form = (n + i + r['snap']) % 3
                if form == 1:
                    s2['exp_raw'] = [int(n)]
                elif form == 2:
                    s2['exp_raw'] = [f'{n // 60}m{n % 60}s' if n >= 60 and n % 7 == 0 else f'{n}s']
            if s2['s'] != r['sync'][i]:
                s2.pop('s_raw', None)
            s2['s'] = r['sync'][i]
            if i in r['nopersist']:
                s2['p'] = False
                s2.pop('p_raw', None)
            specs2.append(s2)
            idxmap.append(i)
        if not specs2:
            continue
        st2 = Storage()
        st2.seq_as_list = bool(scn.get('json_store'))
        for k, v in snap['store'].items():
            st2[k] = v
        life = Life(world, specs2, st2, family, lines, trace)
        horizon = now2 + (260 * TICK if family == 'a' else 3 * SEC)
        st2.exc = FAULT_EXC[scn.get('fault_exc', 'OSError')]
        sf = r.get('start_fault')
        if sf and r['drop']:
            sf = None               # (block indices of the fault refer to the undropped list)
        life.run(now2, 'ok', False, [['adv', now2 + (100 * TICK if family == 'a' else SEC)]], horizon, configs,
                 slow=scn.get('slow'), start_fault=sf)
        ref = Life(world, [{k: v for k, v in dict(s, p=False).items() if k != 'p_raw'} for s in specs2], Storage(), family, [], [])
        ref.run(now2, 'ok', False, [], now2, configs)
        restarts.append({'r': r, 'snap_index': r['snap'] % len(first.snaps), 'down': down, 'now2': now2, 'exps': exps,
                         'specs2': specs2, 'idxmap': idxmap, 'snaps': life.snaps, 'ref': ref.snaps,
                         'store_in': copy.deepcopy(snap['store'])})
    changing = sum(1 for s in first.snaps if s['label'] in ('ev', 'fire') and str(s.get('res', '')).startswith('ret'))
    tags = [f'family={family}', f'mode={scn["mode"]}', f'end={first.snaps[-1]["label"]}' if first.snaps else 'end=none',
            f'blocks={len(scn["blocks"])}', f'restarts={min(len(restarts), 8)}' + ('+' if len(restarts) > 8 else '')]
    tags += sorted({f'kind={b["kind"]}' for b in scn['blocks']})
    if any(b.get('link') for b in scn['blocks']):
        tags.append('links')
    if 'fault_exc' in scn:
        tags.append('storage-faults')
    if scn.get('json_store') and restarts:
        tags.append('restart-from-json-like-storage')
    for sn in first.snaps:
        if sn['label'] in ('ev', 'fire') and sn.get('faults'):
            tags.append('event-on-failing-storage')
            if sn.get('res') == 'err StorageError':
                tags.append('event-raised-storage-error')
            break
    if first.snaps and first.snaps[-1].get('stop_raised'):
        tags.append('stop-raised-storage-error (clean-up skipped)')
    if first.snaps and first.snaps[-1].get('on_faulty_storage'):
        tags.append('stop-on-failing-storage')
    if first.snaps and first.snaps[0].get('start_error'):
        tags.append('start-failed-on-storage-error')
    tags.append('cleanup=' + ('none' if scn.get('slow') is None else scn.get('stop', {}).get('kind', 'full')))
    if first.snaps and first.snaps[-1]['label'] == 'stop' and not first.snaps[-1].get('complete', True):
        tags.append('stop-interrupted')
    if any(s['label'] == 'fire' and s.get('in_cleanup') for s in first.snaps):
        tags.append('timer-fired-during-cleanup')
    if first.bad:
        tags.append('handler-error')
    if any(s['label'] == 'fire' for s in first.snaps):
        tags.append('timer-fired')
    if any(s['label'] == 'fire' and s['res'] == 'ret b0' for s in first.snaps):
        tags.append('timed-event-rejected')
    for sn in first.snaps:
        if sn['label'] in ('ev', 'fire'):
            if sn.get('nested_unknown'):
                tags.append('nested-unknown-event')
            if len(sn.get('writes') or []) > 1:
                tags.append('several-writes-in-one-event')
    for b in scn['blocks']:
        if b['kind'] == 'fsm' and any(e[1] in ('chain', 'goto') for e in b['tables']['enters']):
            tags.append('chained-transitions')
            break
    if first.late:
        tags.append('event-from-another-stop:' + ('after' if any(r['stopped'] for r in first.late) else 'before') + '-own-stop')
    tags = sorted(set(tags), key=tags.index)
    cut = getattr(world, 'c06_cut', None)
    if cut is not None:
        lines, trace = lines[:cut], trace[:cut]
    return {'lines': lines, 'trace': trace, 'tags': tags, 'nontrivial': changing > 0 and bool(restarts),
            'first': first.snaps, 'bad': first.bad, 'store0': store0, 'restarts': restarts, 'late': first.late}


# ----------------------------------------------------------------------------- oracle

def _expected_entry(spec, o):
    """what the storage must hold for a block observed as `o` (from the property text)"""
    k = spec['kind']
    if k in ('input', 'counter'):
        return ('val', o['output'])
    if k in ('timedate', 'timespan'):
        return ('cfg', o['cfg'])
    return ('fsm', o['state'], o['timer'], o['sdata'])


def _entry_view(spec, e):
    k = spec['kind']
    if k in ('input', 'counter'):
        return ('val', e)
    if k in ('timedate', 'timespan'):
        return ('cfg', e)
    if isinstance(e, (tuple, list)) and len(e) == 3:
        return ('fsm', e[0], None if e[1] is None else us_of(e[1]), e[2])
    return ('junk', e)


def _same(a, b):
    return a == b and repr(a) == repr(b)


def oracle(scn, res):
    out = []
    specs = scn['blocks']
    keys = [key_of(s) for s in specs]
    first = res['first']
    store0 = res['store0']
    family = scn['family']

    def viol(clause, what, **sig):
        out.append({'clause': clause, 'what': what, 'sig': sig})

    if not first:
        return [{'clause': 'infra', 'what': 'no snapshot at all'}]
    pkeys = {key_of(s) for s in specs if s['p']}
    # ---- failed start: nothing written
    if first[0]['label'] == 'failed-start':
        st = first[0]['store']
        if scn['mode'] == 'aborted':
            expect = store0
        else:
            expect = {k: v for k, v in store0.items() if k.startswith('edzed-') or k in pkeys}
        if not _same(st, expect):
            viol('no_write_on_failed_start', f"mode {scn['mode']}: storage {st!r}, expected {expect!r}")
    # ---- a start-up that failed during the initialisation: run_forever saves the states before it stops the blocks;
    # a block that was never initialised has no state - its entry may be gone ("remove stale data") or untouched,
    # but the storage must not get a state the block never had (a restart would restore it)
    if first[0]['label'] == 'failed-init':
        st = first[0]['store']
        for i, spec in enumerate(specs):
            if spec['p'] and not first[0]['obs'][i]['inited'] and keys[i] in st \
                    and not _same(st[keys[i]], store0.get(keys[i], KeyError)):
                viol('uninitialised_block_not_saved',
                     f"failed initialisation: {keys[i]} was never initialised (no output, no state), yet the final "
                     f"save wrote the entry {st[keys[i]]!r} (before the run: {store0.get(keys[i], 'no entry')!r}); a "
                     f"restart restores it instead of initialising the block from its arguments", kind=spec['kind'])
    # ---- reserved kept / unused removed, in every snapshot of a circuit that got as far as the check
    if scn['mode'] != 'aborted' and not first[0].get('start_error'):      # (`_check_persistent_data` completed)
        for i, s in enumerate(first):
            for k, v in store0.items():
                if k.startswith('edzed-') and k != STOPKEY and not _same(s['store'].get(k, KeyError), v):
                    viol('unused_removed_reserved_kept', f'snapshot {i}: reserved entry {k!r} lost or changed')
            for k in s['store']:
                if not k.startswith('edzed-') and k not in pkeys:
                    viol('unused_removed_reserved_kept', f'snapshot {i}: unused entry {k!r} still present')
    # ---- events sent from another block's stop() (the blocks without asynchronous clean-up are stopped in set order):
    # one that arrives AFTER the destination's own stop() meets a block whose timer was cancelled by that stop; the
    # states were saved before the blocks were stopped ("stop may invalidate the state information"), and that
    # entry - state AND expiry of the timer - is what a restart must find
    late = res.get('late') or []
    late_unstopped = {r['blk'] for r in late if not r['stopped']}
    for r in late:
        if r['stopped'] and not _same(r['after'], r['before']):
            viol('saved_state_survives_the_stop',
                 f"{keys[r['blk']]}: an event sent by another block's stop() after this block's own stop() ({r['res']}) "
                 f"replaced the entry saved at the stop {r['before']!r} by {r['after']!r}; a restart restores that",
                 kind=specs[r['blk']]['kind'])
            break
    # ---- storage follows the state
    saves = {}                # block index -> [(snapshot index, observation)] at its legitimate saves
    frozen = {}               # block index -> entry at the time of its handler error
    frozen_nu = {}            # the same for a handler that failed with a nested EdzedUnknownEvent (no abort)
    if first[0]['label'] == 'init':
        for i, spec in enumerate(specs):
            o = first[0]['obs'][i]
            if spec['p']:
                saves.setdefault(i, []).append((0, o))
                want = _expected_entry(spec, o)
                got = _entry_view(spec, first[0]['store'].get(keys[i], KeyError))
                if not _same(want, got):
                    viol('storage_refines_state', f'after init: {keys[i]} holds {got!r}, block state {want!r}', at='init')
    begin_snap = None
    for n, s in enumerate(first[1:], start=1):
        if s['label'] in ('ev', 'fire'):
            i = s['blk']
            spec = specs[i]
            flt = s.get('faults') or {}
            if flt and (s['res'].startswith('ret') or s['res'] == 'err StorageError'):
                # the storage fails while the block handles an event
                if first[n - 1].get('ready') and not s.get('ready'):
                    viol('simulation_not_aborted_by_storage_fault',
                         f"{s['label']} #{n} ({s.get('op')}) on a failing storage ({flt}): the simulation was stopped",
                         faults=sorted(flt))
                if s['res'] == 'err StorageError' and not flt.get('d'):
                    # (when the pop that removes the stale entry fails too, the code lets that exception out)
                    viol('event_unaffected_by_storage_fault',
                         f"{s['label']} #{n} ({s.get('op')}) on a storage whose writes fail ({flt}): event() raised the "
                         f"storage's exception instead of returning the handler's result", faults=sorted(flt))
            # ---- crash points INSIDE the event: the storage after every write made while the event was handled
            if spec['p'] and spec['s'] and s.get('writes') is not None:
                before = _entry_view(spec, first[n - 1]['store'].get(keys[i], KeyError))
                done = _expected_entry(spec, s['obs'][i]) if s['res'].startswith('ret') else None
                for wn, w in enumerate(s['writes']):
                    got = _entry_view(spec, w.get(keys[i], KeyError))
                    if _same(got, before) or (done is not None and _same(got, done)):
                        continue
                    viol('storage_never_holds_intermediate_state',
                         f"{s['label']} #{n} ({s.get('op')}, {s['res']}): write {wn + 1} of {len(s['writes'])} made during the "
                         f"event left {keys[i]} = {got!r} in the storage; the state after the last completed event is "
                         f"{before!r}" + (f", after this one {done!r}" if done is not None else " (this event failed)"),
                         at=s['label'], failed=done is None)
                    break
            if s.get('nested_unknown') and i not in frozen and i not in frozen_nu:
                # the handler failed with an exception raised by a nested event (an on_enter / on_exit event of a type
                # its destination does not know): "nothing is written once an event handler of the block has failed"
                frozen_nu[i] = (first[n - 1]['store'].get(keys[i], KeyError), n)
            if s['res'] == 'err Abort' and i not in frozen:
                frozen[i] = first[n - 1]['store'].get(keys[i], KeyError)
            elif (s['res'].startswith('ret') and flt.get('w') and spec['p'] and spec['s'] and i not in frozen
                  and s['obs'][i]['persistent']):
                # the write failed and was suppressed: no stale entry may stay
                if keys[i] in s['store']:
                    viol('stale_entry_removed_on_write_fault',
                         f"after {s['label']} #{n} ({s.get('op')}) with failing writes: {keys[i]} still holds "
                         f"{s['store'][keys[i]]!r}, the block's state is {_expected_entry(spec, s['obs'][i])!r}")
            elif s['res'] == 'err StorageError':
                pass
            elif s['res'].startswith('ret') and spec['p'] and spec['s'] and i not in frozen and s['obs'][i]['persistent']:
                o = s['obs'][i]
                saves.setdefault(i, []).append((n, o))
                want = _expected_entry(spec, o)
                got = _entry_view(spec, s['store'].get(keys[i], KeyError))
                if not _same(want, got):
                    viol('storage_refines_state',
                         f"after {s['label']} #{n} ({s.get('op')}, {s['res']}): {keys[i]} holds {got!r}, block state {want!r}",
                         at=s['label'], rejected=s['res'] == 'ret b0')
        if s['label'] == 'stopbegin':
            # the clean-up starts: states and the time stamp of THIS stop were saved before its first await
            begin_snap = s
            stamp = s['store'].get(STOPKEY)
            hook = s['t_hook']
            if not isinstance(stamp, float) or not (us_of(stamp) == hook if family == 'a' else hook - 1000 <= us_of(stamp) <= hook):
                viol('stop_saves_all_with_timestamp',
                     f'the clean-up starts at {hook} us: the storage holds the stop time {stamp!r}', at='cleanup-start')
            for i, spec in enumerate(specs):
                o = s['obs'][i]
                if spec['p'] and i not in frozen and o['persistent']:
                    saves.setdefault(i, []).append((n, o))
                    want = _expected_entry(spec, o)
                    got = _entry_view(spec, s['store'].get(keys[i], KeyError))
                    if not _same(want, got):
                        viol('stop_saves_all_with_timestamp',
                             f'the clean-up starts: {keys[i]} holds {got!r}, block state {want!r}', at='cleanup-start')
        if s['label'] == 'stop' and first[0]['label'] == 'init' and s.get('on_faulty_storage'):
            # a stop on a failing storage: no exception leaves run_forever / shutdown() because of the storage (the
            # clean-up must take place); what the storage holds afterwards is compared with the model; remember
            # what did get saved (the restarts start from whatever is there)
            if s.get('stop_raised'):
                viol('stop_unaffected_by_storage_fault',
                     f"stop on a failing storage ({first[n - 1].get('faults') or s.get('faults')}): the storage's exception "
                     f"left run_forever before the clean-up (no block was stopped)")
            prev = first[n - 1]['obs']
            for i, spec in enumerate(specs):
                if spec['p'] and i not in frozen and prev[i]['persistent'] and keys[i] in s['store'] and \
                        _same(_expected_entry(spec, prev[i]), _entry_view(spec, s['store'][keys[i]])):
                    saves.setdefault(i, []).append((n, prev[i]))
        elif s['label'] == 'stop' and first[0]['label'] == 'init':
            stamp = s['store'].get(STOPKEY)
            lo, hi = s['t_before'], s['t_after']
            how = 'interrupted' if not s.get('complete', True) else 'complete'
            if s.get('had_cleanup') and begin_snap is not None:
                hook = begin_snap['t_hook']
                if not isinstance(stamp, float) or not (us_of(stamp) == hook if family == 'a' else hook - 1000 <= us_of(stamp) <= hook):
                    viol('stamp_of_this_stop',
                         f'after the stop ({how} clean-up, ended at {s["t_after"]} us) the storage holds the stop time '
                         f'{stamp!r}; this stop began at {hook} us', cleanup=how)
            elif s['regular'] and family == 'a':
                if not isinstance(stamp, float) or us_of(stamp) != s['t_before']:
                    viol('stamp_of_this_stop', f'stop time stamp {stamp!r}, the stop began at {s["t_before"]} us', cleanup='none')
            else:
                if not s['regular']:
                    lo = first[n - 1]['t']
                if not isinstance(stamp, float) or not lo <= us_of(stamp) <= hi:
                    viol('stop_saves_all_with_timestamp', f'stop time stamp {stamp!r}, stop window [{lo}, {hi}] us')
            old = store0.get(STOPKEY)
            if isinstance(old, float) and us_of(old) <= scn['t0'] and isinstance(stamp, float) and stamp < old:
                viol('stamp_of_this_stop', f'stop time stamp {stamp!r} is older than the previous one {old!r}')
            if s.get('had_cleanup') and begin_snap is not None:
                # blocks without sync_state keep what was saved when the stop began
                for i, spec in enumerate(specs):
                    if spec['p'] and not spec['s'] and i not in frozen:
                        if not _same(s['store'].get(keys[i], KeyError), begin_snap['store'].get(keys[i], KeyError)):
                            viol('stop_saves_all_with_timestamp',
                                 f'{keys[i]} (sync_state off) changed during the clean-up: {s["store"].get(keys[i])!r}')
            else:
                prev = first[n - 1]['obs']
                for i, spec in enumerate(specs):
                    if i in late_unstopped:
                        continue        # (changed legitimately by an event that came before its own stop())
                    if spec['p'] and i not in frozen and prev[i]['persistent']:
                        saves.setdefault(i, []).append((n, prev[i]))
                        want = _expected_entry(spec, prev[i])
                        got = _entry_view(spec, s['store'].get(keys[i], KeyError))
                        if not _same(want, got):
                            viol('stop_saves_all_with_timestamp', f'after stop: {keys[i]} holds {got!r}, block state {want!r}')
        for i, (e, at) in frozen_nu.items():
            if i not in frozen and n > at and not _same(s['store'].get(keys[i], KeyError), e):
                viol('frozen_after_handler_error',
                     f"snapshot {n} ({s['label']}): entry of {keys[i]} was written after its handler had failed with an "
                     f"EdzedUnknownEvent of a nested event (event #{at}): {s['store'].get(keys[i])!r}, was {e!r}",
                     cause='nested-unknown-event')
                break
        for i, e in frozen.items():
            if not _same(s['store'].get(keys[i], KeyError), e):
                viol('frozen_after_handler_error',
                     f"snapshot {n} ({s['label']}): entry of {keys[i]} changed after its handler had failed: "
                     f"{s['store'].get(keys[i])!r}, was {e!r}")
    # ---- restarts
    for rs in res['restarts']:
        if not rs['snaps'] or rs['snaps'][0]['label'] != 'init':
            # the second start itself failed: only legitimate when a block has no source of initialisation
            continue
        sidx = rs['snap_index']
        snap = first[sidx]
        now2 = rs['now2']
        stamp = rs['store_in'].get(STOPKEY)
        # a snapshot taken at or after the beginning of a stop: the age of the saved state is measured from the
        # instant THAT stop began, whether its clean-up was completed or interrupted
        if family == 'a' and (snap['label'] in ('stopbegin', 'stop') or snap.get('in_cleanup')):
            if begin_snap is not None and sidx >= first.index(begin_snap):
                stamp = begin_snap['t_hook'] / 1e6
            elif snap['label'] == 'stop' and snap.get('t_begin') is not None:
                stamp = snap['t_begin'] / 1e6
        o2s = rs['snaps'][0]['obs']
        refs = rs['ref'][0]['obs'] if rs['ref'] and rs['ref'][0]['label'] == 'init' else None
        st2 = rs['snaps'][0]['store']
        keys2 = {key_of(s) for s in rs['specs2'] if s['p']}
        for k in rs['store_in']:
            if k.startswith('edzed-') and k != STOPKEY and not _same(st2.get(k, KeyError), rs['store_in'][k]):
                viol('unused_removed_reserved_kept', f'restart: reserved entry {k!r} lost or changed')
        for k in st2:
            if not k.startswith('edzed-') and k not in keys2:
                viol('unused_removed_reserved_kept', f'restart: entry {k!r} of a block that no longer exists/persists is kept')
        for j, spec2 in enumerate(rs['specs2']):
            if spec2['p'] and o2s[j]['persistent']:
                want = _expected_entry(spec2, o2s[j])
                got = _entry_view(spec2, st2.get(key_of(spec2), KeyError))
                if not _same(want, got):
                    viol('storage_refines_state',
                         f'after the start-up of the restarted circuit: {key_of(spec2)} holds {got!r}, block state {want!r}',
                         at='restart-init')
        for j, spec2 in enumerate(rs['specs2']):
            i = rs['idxmap'][j]
            o2 = o2s[j]
            key = keys[i]
            if not spec2['p'] or key not in rs['store_in']:
                continue
            if snap['label'] == 'stop' and i in late_unstopped:
                continue
            sf = rs['r'].get('start_fault') if not rs['r'].get('drop') else None
            if sf and i in sf.get('r', []):
                # the entry could not be read: the error is suppressed, the block is initialised normally
                if o2.get('restored'):
                    viol('startup_restores_every_valid_entry', f'restart: {key} restored although its entry is unreadable')
                continue
            entry = _entry_view(spec2, rs['store_in'][key])
            # the state the entry stands for: the first circuit's block when the entry was written
            src = None
            for n, o in saves.get(i, []):
                if n <= sidx:
                    src = o
            if src is None:
                continue        # entry from the initial storage: no first-circuit state to compare with
            exp = rs['exps'][i]
            is_expired = exp is not None and (exp <= 0 or (isinstance(stamp, float) and us_of(stamp) + exp < now2))
            kind = spec2['kind']
            timer = src.get('timer')
            ran_out = timer is not None and timer <= now2
            sig = {'kind': kind, 'snapshot': snap['label']}
            got_event = bool(o2.get('init_events')) or bool(refs is not None and refs[j].get('init_events'))
            if is_expired or ran_out:
                if o2.get('restored'):
                    viol('expired_state_discarded',
                         f"restart from snapshot {sidx} ({snap['label']}) at {now2}: {key} was restored from "
                         f"{o2.get('restored_from')!r} although expired={is_expired}, timer ran out={ran_out}", **sig)
                if refs is None or got_event:
                    continue
                rf = refs[j]
                same = (rf['output'] == o2['output'] and rf.get('state') == o2.get('state')
                        and rf.get('sdata') == o2.get('sdata') and rf.get('entered') == o2.get('entered')
                        and rf.get('timer') == o2.get('timer') and rf.get('cfg') == o2.get('cfg'))
                if not same:
                    viol('expired_state_discarded',
                         f"restart from snapshot {sidx} ({snap['label']}) at {now2}: {key} should be initialised normally "
                         f"(expired={is_expired}, timer ran out={ran_out}) but is {o2!r}, fresh block {rf!r}", **sig)
                continue
            # the entry is valid: the block must have been restored from it, whatever events the blocks sent each
            # other during the start-up and in whatever order they were created
            if not o2.get('restored') or not _same(_entry_view(spec2, o2.get('restored_from')), entry):
                viol('startup_restores_every_valid_entry',
                     f"restart from snapshot {sidx} ({snap['label']}, t={snap['t']}) after {rs['down']} us: the valid "
                     f"entry {rs['store_in'][key]!r} of {key} was not restored (restored from: {o2.get('restored_from')!r}); "
                     f"the block is {({k: v for k, v in o2.items() if k in ('output', 'state', 'inited')})!r}, events "
                     f"received during the start-up: {o2.get('init_events')!r}", **sig)
                continue
            if got_event:
                continue        # (restored, then changed by an event of another block: legitimate)
            if kind in ('timedate', 'timespan'):
                good = o2.get('cfg') == src['cfg'] and o2['output'] == cal_verdict(kind, src['cfg'], now2)
            elif kind in ('input', 'counter'):
                good = _same(o2['output'], src['output'])
            else:
                good = (o2['state'] == src['state'] and _same(o2['output'], src['output']) and o2['timer'] == src['timer']
                        and o2['sdata'] == src['sdata'] and o2['entered'] == [])
                if good and timer is not None:
                    # the restored timer really fires at the same absolute time (when the second life lasts that long)
                    stop2 = [s for s in rs['snaps'] if s['label'] == 'stop']
                    fires = [s for s in rs['snaps'] if s['label'] == 'fire' and s['blk'] == j]
                    end2 = stop2[0]['store'].get(STOPKEY) if stop2 else None
                    if isinstance(end2, float) and us_of(end2) > timer and (not fires or fires[0]['t'] != timer):
                        good = False
            if not good:
                viol('restart_from_any_snapshot',
                     f"restart from snapshot {sidx} ({snap['label']}, t={snap['t']}) after {rs['down']} us: {key} is "
                     f"{o2!r}, the first circuit's block was {src!r}", **sig)
    return out
