"""C16 -- event filters: correspondence with lean/EdzedModel/Filters.lean + independent oracle.

Every scenario is ONE real simulation (virtual-time loop) holding real filter objects, real
`Event`s with a Probe destination and real control blocks.  A scenario is a list of filter
definitions and a script of steps:

  ['call', fid, data]        direct call of the filter object with a fresh dict
  ['send', [fid…], data]     `Event(probe, 'put', efilter=[…]).send(src, **data)`
  ['env', block, value]      a control / source block (Input) gets a new output
  ['put', value]             (kind 'live') a `put` to an Input whose `on_output` holds the
                             filtered Event; the raw output event is recorded by a tap

phase 'run' executes the script while the simulation is running, phase 'init' executes it
inside `init_regular()` of a helper block, i.e. while control blocks may still be
uninitialised (the only time `IfNotIitialized` can pass).
"""
import collections
import collections.abc
import itertools
import zlib

import edzed

import math

from ..enc import enc as _enc, err_kind
from ..simrun import Sim, Probe
from ..runner import shrink_ops

ID = 'C16'
RULE = ("real filter objects called directly and through Event.send to a probe block inside a real "
        "simulation. Edge: all 108 constructor argument combinations (each flag omitted/False/True, "
        "u_rise also None) x 13 previous values (UNDEF, 6 falsy, 6 truthy) x 8 values, plus missing keys "
        "-- exhaustive in both tiers. Delta: all value sequences up to length 3 (quick) / 5 (thorough) "
        "over 8 values x 7 deltas, plus random sequences up to length 40 with dyadic floats and large "
        "ints, non-numeric values and missing keys; all sequences up to length 3 (quick) / 4 (thorough) over {NaN, +inf, "
        "-inf, 0, 1, 2.5} x 7 deltas incl. inf / NaN, and random ones with non-finite floats at every position. DataEdit: all chains up to length 2 (quick) / 3 "
        "(thorough) over a 61-operation alphabet on keys a,b,c and all chains of length 4 over a "
        "14-operation alphabet (thorough), each on all 8 input dicts over the key set, plus random "
        "chains up to length 5. Pipelines: all pipelines of <= 2 (quick) / <= 3 (thorough) filters over "
        "a 26-filter alphabet of editing, passing, in-place modifying, rejecting and raising filters x 3 "
        "input dicts, plus random ones. IfOutput/IfNotIitialized/add_output against all control outputs "
        "in both phases. Live: random put sequences to an Input whose on_output carries the filters. "
        "A case is distinct by its (lines, trace) hash; non-trivial if at least one step passed and one "
        "was stopped or edited")
ASSUMPTIONS = [
    "finite numbers given to Delta are ints below 2**40 or dyadic floats k/8 below 2**20, so that IEEE "
    "subtraction is exact (no rounding, no overflow) and equals the model's rational arithmetic; the non-finite "
    "floats NaN, +inf, -inf are in the domain (model: Filters.XNum)",
    "a filter object is used at one position of one Event only (no aliasing of a stateful Delta)",
    "event data keys are strings without the protocol's separator characters; values are UNDEF, None, "
    "numbers, strings, flat tuples/lists",
    "user filters and modify() functions are drawn from a script language (in-place set/delete, then "
    "return constant / fresh mapping / the dict itself / an item / raise); the Lean theorems are "
    "parametric in arbitrary functions",
]
EXHAUSTIVE = {'quick': False, 'thorough': False}

U = {'U': 1}            # JSON form of UNDEF


NAN, INF, NINF = {'F': 'nan'}, {'F': 'inf'}, {'F': '-inf'}      # JSON forms of the non-finite floats
# on the wire the non-finite floats travel as reserved strings (lean/EdzedModel/Filters.lean `nanVal` …)
CARRIER = {'nan': '\x00NaN', 'inf': '\x00+inf', '-inf': '\x00-inf'}


def _carry(v):
    if isinstance(v, float) and not math.isfinite(v):
        return CARRIER['nan' if math.isnan(v) else 'inf' if v > 0 else '-inf']
    if isinstance(v, (tuple, list)):
        return type(v)(_carry(x) for x in v)
    return v


def enc(v):
    return _enc(_carry(v))


def enc_data(d):
    return 'd{' + ';'.join(f'{k}={enc(d[k])}' for k in sorted(d)) + '}'


def dec(j):
    if isinstance(j, dict):
        if 'U' in j:
            return edzed.UNDEF
        if 'F' in j:
            return float(j['F'])
        return tuple(dec(x) for x in j['T'])
    if isinstance(j, list):
        return [dec(x) for x in j]
    return j


def dec_data(d):
    return {k: dec(v) for k, v in d.items()}


def jenc(j):
    return enc(dec(j))


def jenc_data(d):
    return enc_data(dec_data(d))


# ------------------------------------------------------------------ protocol lines

def fn_tok(fn):
    if fn[0] in ('const', 'inc'):
        return f'{fn[0]}:{jenc(fn[1])}'
    if fn[0] == 'raise':
        return f'raise:{fn[1]}'
    return fn[0]


def op_tok(op):
    k = op[0]
    if k in ('add', 'setdef'):
        return f'{k}:{jenc_data(op[1])}'
    if k in ('addout', 'copy', 'rename'):
        return f'{k}:{op[1]}:{op[2]}'
    if k in ('del', 'permit'):
        return f'{k}:{",".join(op[1])}'
    if k == 'mod':
        return f'mod:{op[1]}:{fn_tok(op[2])}'
    raise ValueError(op)


def spec_line(fid, spec):
    k = spec[0]
    if k == 'edge':
        return f'filters def {fid} edge {spec[1]} {spec[2]} {spec[3]} {spec[4]}'
    if k == 'nfu':
        return f'filters def {fid} nfu'
    if k == 'delta':
        return f'filters def {fid} delta {jenc(spec[1])}'
    if k in ('ifout', 'ifnotinit'):
        return f'filters def {fid} {k} {spec[1]}'
    if k == 'edit':
        return ' '.join([f'filters def {fid} edit'] + [op_tok(o) for o in spec[1]])
    if k == 'user':
        muts = '+'.join(f'set:{m[1]}={jenc(m[2])}' if m[0] == 'set' else f'del:{m[1]}' for m in spec[1]) or '-'
        r = spec[2]
        ret = {'val': lambda: f'val:{jenc(r[1])}', 'map': lambda: f'map:{jenc_data(r[1])}',
               'self': lambda: 'self', 'badkey': lambda: 'badkey', 'raise': lambda: f'raise:{r[1]}',
               'item': lambda: f'item:{r[1]}'}[r[0]]()
        return f'filters def {fid} user {muts} {ret}'
    raise ValueError(spec)


# ------------------------------------------------------------------ real objects from a spec

EXC = {'KeyError': KeyError, 'TypeError': TypeError, 'ValueError': ValueError}


def build_fn(fn):
    k = fn[0]
    if k == 'const':
        v = dec(fn[1])
        return lambda x: v
    if k == 'inc':
        n = dec(fn[1])
        return lambda x: x + n
    if k == 'del':
        return lambda x: edzed.DataEdit.DELETE
    if k == 'rej':
        return lambda x: edzed.DataEdit.REJECT
    if k == 'rejfalsy':
        return lambda x: x if x else edzed.DataEdit.REJECT
    if k == 'delfalsy':
        return lambda x: x if x else edzed.DataEdit.DELETE
    if k == 'raise':
        exc = EXC[fn[1]]

        def _raise(x):
            raise exc('scripted')
        return _raise
    raise ValueError(fn)


def build_edit(ops, blocks):
    f = None        # first operation through the class (the _dualmethod path), the rest chained
    for op in ops:
        tgt = edzed.DataEdit if f is None else f
        k = op[0]
        if k == 'add':
            f = tgt.add(**dec_data(op[1]))
        elif k == 'setdef':
            f = tgt.setdefault(**dec_data(op[1]))
        elif k == 'addout':
            f = tgt.add_output(op[1], blocks[op[2]])
        elif k == 'copy':
            f = tgt.copy(op[1], op[2])
        elif k == 'rename':
            f = tgt.rename(op[1], op[2])
        elif k == 'del':
            f = tgt.delete(*op[1])
        elif k == 'permit':
            f = tgt.permit(*op[1])
        elif k == 'mod':
            f = tgt.modify(op[1], build_fn(op[2]))
        else:
            raise ValueError(op)
    return edzed.DataEdit() if f is None else f


def build_user(muts, ret):
    muts = [(m[0], m[1], dec(m[2]) if m[0] == 'set' else None) for m in muts]
    kind = ret[0]
    arg = None
    if kind == 'val':
        arg = dec(ret[1])
    elif kind == 'map':
        arg = dec_data(ret[1])
    elif kind in ('raise', 'item'):
        arg = ret[1]

    def user_filter(data):
        for m, k, v in muts:
            if m == 'set':
                data[k] = v
            else:
                data.pop(k, None)
        if kind == 'val':
            return arg
        if kind == 'map':
            # "a dict (precisely a MutableMapping)": rotate over mapping types, chosen by the content
            which = zlib.crc32(repr(sorted(arg.items(), key=lambda kv: kv[0])).encode()) % 3
            if which == 1:
                return collections.UserDict(arg)
            if which == 2:
                return collections.ChainMap(dict(arg))
            return dict(arg)
        if kind == 'self':
            return data
        if kind == 'badkey':
            return {**data, 1: 2}
        if kind == 'raise':
            raise EXC[arg]('scripted')
        return data[arg]
    return user_filter


def build_filter(spec, blocks):
    k = spec[0]
    if k == 'edge':
        kw = {}
        for name, a in zip(('rise', 'fall', 'u_rise', 'u_fall'), spec[1:]):
            if a != '-':
                kw[name] = None if a == 'n' else a == '1'
        return edzed.Edge(**kw)
    if k == 'nfu':
        return edzed.not_from_undef
    if k == 'delta':
        return edzed.Delta(dec(spec[1]))
    if k == 'ifout':
        return edzed.IfOutput(blocks[spec[1]])
    if k == 'ifnotinit':
        return edzed.IfNotIitialized(blocks[spec[1]])
    if k == 'edit':
        return build_edit(spec[1], blocks)
    if k == 'user':
        return build_user(spec[1], spec[2])
    raise ValueError(spec)


# ------------------------------------------------------------------ implementation runner

CTL_NAMES = ('c1', 'c2')
ENV_NAMES = CTL_NAMES + ('src',)
CBLOCK_NAMES = ('nb', 'nn')     # combinational blocks (scenarios with 'cblock'): not src, not nb


class StopScript(Exception):
    pass


def run_impl(scn):
    lines = ['filters reset']
    trace = ['ok']
    results = []            # structured results for the oracle
    phase = scn.get('phase', 'run')
    ctl_init = scn.get('ctl', {})
    live = scn.get('live')
    blocks, filters, events = {}, {}, {}
    plog, taplog = [], []
    ctor_error = []

    def env_line(name, val):
        lines.append(f'filters env {name} {enc(val)}')
        trace.append('ok')

    def get_event(fids):
        key = tuple(fids)
        if key not in events:
            events[key] = edzed.Event(blocks['p'], 'put', efilter=[filters[f] for f in fids])
        return events[key]

    def define_all():
        for fid, spec in scn['defs']:
            lines.append(spec_line(fid, spec))
            if scn.get('cblock'):
                # constructors that check the type of their control block (given as an object: at once)
                try:
                    filters[fid] = build_filter(spec, blocks)
                except Exception as err:
                    trace.append('err ' + err_kind(err))
                    results.append(('def', fid, err_kind(err)))
                    continue
                trace.append('ok')
                results.append(('def', fid, None))
                continue
            try:
                filters[fid] = build_filter(spec, blocks)
            except Exception as err:
                # a constructor that must not fail did: recorded (the model answers `ok`), the script ends here
                trace.append('err ' + err_kind(err))
                ctor_error.append((fid, spec, f'{type(err).__name__}: {err}'))
                raise StopScript from None
            trace.append('ok')

    def do_call(fid, jdata):
        data = dec_data(jdata)
        lines.append(f'filters call {fid} {enc_data(data)}')
        try:
            ret = filters[fid](dict(data))
        except Exception as err:
            trace.append('err ' + err_kind(err))
            results.append(('call', 'err', err_kind(err)))
            return
        if isinstance(ret, collections.abc.MutableMapping):
            ret = dict(ret)
            if all(isinstance(k, str) for k in ret):
                trace.append('map ' + enc_data(ret))
            else:
                trace.append('badkey')
            results.append(('call', 'map', ret))
        else:
            trace.append('val ' + enc(ret))
            results.append(('call', 'val', ret))

    def do_send(fids, jdata, source='src'):
        data = dec_data(jdata)
        lines.append(f'filters send {",".join(fids) or "-"} {source} {enc_data(data)}')
        ev = get_event(fids)
        n0 = len(plog)
        try:
            ret = ev.send(blocks[source], **data)
        except Exception as err:
            new = plog[n0:]
            trace.append('err ' + err_kind(err) + (' but-delivered' if new else ''))
            results.append(('send', 'err', err_kind(err), [e[2] for e in new]))
            return
        new = plog[n0:]
        if ret is True and len(new) == 1 and new[0][1] == 'put':
            trace.append('sent ' + enc_data(new[0][2]))
        elif ret is False and not new:
            trace.append('rejected')
        else:
            trace.append(f'anomaly ret={ret!r} delivered={len(new)}')
        results.append(('send', ret, [e[2] for e in new]))

    def do_env(name, jval):
        val = dec(jval)
        blocks[name].event('put', value=val)
        env_line(name, blocks[name].output)
        results.append(('env', name, blocks[name].output))

    def script():
        for name in ENV_NAMES:
            env_line(name, blocks[name].output)
            results.append(('env0', name, blocks[name].output))
        for name in CBLOCK_NAMES if scn.get('cblock') else ():
            lines.append(f'filters kind {name} c')
            trace.append('ok')
            env_line(name, blocks[name].output)
            results.append(('env0', name, blocks[name].output))
        try:
            define_all()
        except StopScript:
            return
        for step in scn['steps']:
            need = [step[1]] if step[0] == 'call' else step[1] if step[0] == 'send' else []
            if any(f not in filters for f in need):
                continue        # its constructor failed (recorded at the `def` line)
            if step[0] == 'call':
                do_call(step[1], step[2])
            elif step[0] == 'send':
                do_send(step[1], step[2])
            elif step[0] == 'env':
                do_env(step[1], step[2])
            else:
                raise ValueError(step)

    class Kick(edzed.SBlock):
        """runs the script during the initialisation phase (control blocks without initdef, and
        those the simulator has not reached yet, are uninitialised)"""
        def init_regular(self):
            script()
            for name in CTL_NAMES:      # let the simulation start
                if not blocks[name].is_initialized():
                    blocks[name].event('put', value=None)
            self.set_output(None)

    class Tap(Probe):
        """records the raw output event together with the control outputs at that moment"""
        def _event(self, etype, data):
            envlog.append({name: blocks[name].output for name in ENV_NAMES})
            return super()._event(etype, data)

    envlog = []
    state = {'tap_seen': 0, 'p_seen': 0}

    def live_line(raw, envsnap):
        for name in ENV_NAMES:
            env_line(name, envsnap[name])
        src = raw.pop('source')
        lines.append(f'filters send {",".join(live) or "-"} {src} {enc_data(raw)}')
        return src

    def live_flush():
        """pair the raw output events seen by the tap with what the probe got"""
        while state['tap_seen'] < len(taplog):
            i = state['tap_seen']
            state['tap_seen'] += 1
            raw = dict(taplog[i][2])
            src = live_line(raw, envlog[i])
            new = plog[state['p_seen']:]
            if new:
                state['p_seen'] += 1
                trace.append('sent ' + enc_data(new[0][2]))
                results.append(('live', raw, src, new[0][2], envlog[i]))
            else:
                trace.append('rejected')
                results.append(('live', raw, src, None, envlog[i]))
        if state['p_seen'] != len(plog):
            lines.append('filters reset')
            trace.append(f'anomaly: the probe got {len(plog) - state["p_seen"]} unexplained event(s)')
            state['p_seen'] = len(plog)

    def build(circuit):
        blocks['p'] = Probe('p', log=plog)
        blocks['src'] = edzed.Input('src', initdef=7)
        for name in CTL_NAMES:
            init = dec(ctl_init.get(name, U))
            if phase != 'init' and init is edzed.UNDEF:
                raise ValueError('an uninitialised control block needs phase init')
            blocks[name] = edzed.Input(name, initdef=init)
        if scn.get('cblock'):
            blocks['nb'] = edzed.Not('nb').connect(blocks['src'])
            blocks['nn'] = edzed.Not('nn').connect(blocks['nb'])
        if live is not None:
            blocks['tap'] = Tap('tap', log=taplog)
            define_all()
            blocks['src2'] = edzed.Input(
                'src2', initdef=dec(scn['live_init']),
                on_output=[edzed.Event(blocks['tap'], 'put'),
                           edzed.Event(blocks['p'], 'put', efilter=[filters[f] for f in live])])
        if phase == 'init':
            blocks['kick'] = Kick('kick')
        return None

    async def drive(sim, _ctx):
        if live is not None:
            live_flush()
            for step in scn['steps']:
                n_tap, n_p = len(taplog), len(plog)
                kind, val = sim.send(blocks['src2'], 'put', value=dec(step[1]))
                if kind == 'err':
                    # a filter raised inside on_output: the put handler fails, the simulation aborts
                    if len(taplog) > n_tap:
                        state['tap_seen'] = len(taplog)
                        raw = dict(taplog[-1][2])
                        src = live_line(raw, envlog[-1])
                        trace.append('err ' + err_kind(val) + (' but-delivered' if len(plog) > n_p else ''))
                        results.append(('live-err', raw, src, err_kind(val), len(plog) > n_p, envlog[-1]))
                    break
                live_flush()
        elif phase == 'run':
            script()

    sim = Sim()
    try:
        sim.run(build, drive)
    except StopScript:
        pass
    if ctor_error:
        return {'lines': lines, 'trace': trace, 'results': results, 'tags': [f'kind={scn["kind"]}', 'ctor-error'],
                'nontrivial': False, 'ctor_error': ctor_error[0]}
    if sim.init_error is not None and not (live is not None and results and results[-1][0] == 'live-err'):
        if live is not None and taplog:
            # a filter raised while the initial output event of src2 was delivered
            raw = dict(taplog[-1][2])
            src = live_line(raw, envlog[-1])
            cause = getattr(sim.circuit.error, '__cause__', None) or sim.init_error
            trace.append('err ' + err_kind(cause))
            results.append(('live-err', raw, src, err_kind(cause), len(plog) > 0, envlog[-1]))
        else:
            raise RuntimeError(f'simulation did not start: {sim.init_error!r}')

    passed = sum(1 for t in trace if t.startswith(('sent', 'map', 'val b1')))
    stopped = sum(1 for t in trace if t.startswith(('rejected', 'val b0', 'val n', 'err')))
    tags = [f'kind={scn["kind"]}', f'phase={phase}']
    for t in trace:
        w = t.split(' ')[0]
        if w != 'ok':
            tags.append('reply=' + w)
    return {'lines': lines, 'trace': trace, 'results': results, 'tags': sorted(set(tags)),
            'nontrivial': passed > 0 and (stopped > 0 or scn['kind'] == 'chain')}


# ------------------------------------------------------------------ the oracle (from the documentation)

class Reject(Exception):
    pass


class Fails(Exception):
    """the documented precondition does not hold (missing item, non-number): the call must
    raise and nothing may be delivered"""


def truth(x):
    return bool(x)


class RefEdge:
    """docs/filters.rst: rise allows False->True, fall True->False, u_rise UNDEF->True
    (None = same as rise), u_fall UNDEF->False; nothing else passes."""
    def __init__(self, rise='-', fall='-', u_rise='-', u_fall='-'):
        self.allowed = set()
        r = rise == '1'
        if r:
            self.allowed.add(('F', 'T'))
        if fall == '1':
            self.allowed.add(('T', 'F'))
        if u_rise == '1' or (u_rise in ('-', 'n') and r):
            self.allowed.add(('U', 'T'))
        if u_fall == '1':
            self.allowed.add(('U', 'F'))

    def __call__(self, data, env):
        if 'previous' not in data or 'value' not in data:
            raise Fails
        p = data['previous']
        pc = 'U' if p is edzed.UNDEF else 'T' if truth(p) else 'F'
        vc = 'T' if truth(data['value']) else 'F'
        if (pc, vc) not in self.allowed:
            raise Reject
        return data


class Unspecified(Exception):
    """the documentation does not say what happens (Delta with a non-number)"""


class RefDelta:
    """docs: compares the last accepted value (not the previous one) with the current value;
    filters the event out iff the absolute difference is smaller than delta"""
    def __init__(self, delta):
        self.delta = delta
        self.accepted = []      # history of accepted values
        self.dead = False

    def __call__(self, data, env):
        if self.dead:
            raise Unspecified
        if 'value' not in data:
            raise Fails
        v = data['value']
        if isinstance(v, (int, float)) and not self.accepted:
            self.accepted.append(v)
            return data
        if not isinstance(v, (int, float)):
            self.dead = True
            raise Unspecified
        # the property: passes iff it differs from the last passed value by AT LEAST delta -- a difference
        # that is NaN (a NaN value, inf - inf) is not "at least delta"
        if not abs(v - self.accepted[-1]) >= self.delta:
            raise Reject
        self.accepted.append(v)
        return data


def ref_nfu(data, env):
    if data.get('previous', edzed.UNDEF) is edzed.UNDEF:
        raise Reject
    return data


def ref_edit_op(op, d, env):
    """the equivalent plain dictionary operation"""
    k = op[0]
    d = dict(d)
    if k == 'add':
        d.update(dec_data(op[1]))
    elif k == 'setdef':
        for key, v in dec_data(op[1]).items():
            d.setdefault(key, v)
    elif k == 'addout':
        d[op[1]] = env[op[2]]
    elif k == 'copy':
        if op[1] not in d:
            raise Fails
        d[op[2]] = d[op[1]]
    elif k == 'rename':
        if op[1] not in d:
            raise Fails
        v = d.pop(op[1])
        if op[1] != op[2]:      # "like copy, but the srckey item is deleted afterward"
            d[op[2]] = v
    elif k == 'del':
        for key in op[1]:
            d.pop(key, None)
    elif k == 'permit':
        d = {key: v for key, v in d.items() if key in op[1]}
    elif k == 'mod':
        if op[1] not in d:
            raise Fails
        fn, cur = op[2], d[op[1]]
        if fn[0] == 'const':
            d[op[1]] = dec(fn[1])
        elif fn[0] == 'inc':
            if not isinstance(cur, (int, float)):
                raise Fails
            d[op[1]] = cur + dec(fn[1])
        elif fn[0] == 'del' or (fn[0] == 'delfalsy' and not cur):
            del d[op[1]]
        elif fn[0] == 'rej' or (fn[0] == 'rejfalsy' and not cur):
            raise Reject
        elif fn[0] == 'raise':
            raise Fails
    return d


def make_ref(spec):
    k = spec[0]
    if k == 'edge':
        return RefEdge(*spec[1:])
    if k == 'nfu':
        return ref_nfu
    if k == 'delta':
        return RefDelta(dec(spec[1]))
    if k == 'ifout':
        def ifout(data, env):
            if not truth(env[spec[1]]):
                raise Reject
            return data
        return ifout
    if k == 'ifnotinit':
        def ifnotinit(data, env):
            if env[spec[1]] is not edzed.UNDEF:
                raise Reject
            return data
        return ifnotinit
    if k == 'edit':
        def edit(data, env):
            for op in spec[1]:
                data = ref_edit_op(op, data, env)
            return data
        return edit
    if k == 'user':
        def user(data, env):
            data = dict(data)
            for m in spec[1]:
                if m[0] == 'set':
                    data[m[1]] = dec(m[2])
                else:
                    data.pop(m[1], None)
            r = spec[2]
            if r[0] == 'val':
                if not truth(dec(r[1])):
                    raise Reject
                return data
            if r[0] == 'map':
                return dec_data(r[1])
            if r[0] == 'self':
                return data
            if r[0] in ('badkey', 'raise'):
                raise Fails
            if r[1] not in data:
                raise Fails
            if not truth(data[r[1]]):
                raise Reject
            return data
        return user
    raise ValueError(spec)


def same(a, b):
    """equal dicts with identical value types (True is not 1 here)"""
    def eq(x, y):
        return x == y or x is y or (isinstance(x, float) and isinstance(y, float) and math.isnan(x) and math.isnan(y))
    return a.keys() == b.keys() and all(type(a[k]) is type(b[k]) and eq(a[k], b[k]) for k in a)


def oracle(scn, res):
    out = []
    if res.get('ctor_error'):
        fid, spec, what = res['ctor_error']
        return [{'clause': 'constructor', 'what': f'constructing the filter {spec} failed: {what}'}]
    specs = dict((fid, spec) for fid, spec in scn['defs'])
    refs = {fid: make_ref(spec) for fid, spec in scn['defs']}
    env = {name: dec(scn.get('ctl', {}).get(name, U)) for name in CTL_NAMES}
    it = iter(res['results'])

    def bad(clause, what, **sig):
        out.append({'clause': clause, 'what': what, 'sig': sig})

    def clause_of(fids):
        kinds = sorted({specs[f][0] for f in fids})
        if len(fids) == 1:
            k = kinds[0]
            return {'edge': 'edge_truth_table', 'nfu': 'not_from_undef_spec', 'delta': 'delta_spec',
                    'ifout': 'if_output_spec', 'ifnotinit': 'if_not_initialized_spec',
                    'edit': 'dataedit_op_spec', 'user': 'pipeline_spec'}[k]
        return 'pipeline_spec'

    def expect(fids, data):
        """('pass', data) | ('reject',) | ('fails',) by the documented left-to-right reading"""
        try:
            for f in fids:
                data = refs[f](data, env)
        except Reject:
            return ('reject',)
        except Fails:
            return ('fails',)
        except Unspecified:
            return ('unspec',)
        return ('pass', data)

    steps = scn['steps']
    if scn.get('live') is not None:
        fids = scn['live']
        for r in it:
            raw, src = r[1], r[2]
            env.update(r[-1])
            exp = expect(fids, {**raw, 'source': src})
            if exp[0] == 'unspec':
                continue
            if r[0] == 'live-err':
                if exp[0] != 'fails' or r[4]:
                    bad(clause_of(fids), f'live {raw}: raised {r[3]} delivered={r[4]}, expected {exp}')
                    break
                continue
            got = r[3]
            if exp[0] == 'pass':
                if got is None or not same(got, exp[1]):
                    bad(clause_of(fids), f'live {raw}: destination got {got}, expected {exp[1]}')
                    break
            elif got is not None:
                bad(clause_of(fids), f'live {raw}: destination got {got}, expected {exp}')
                break
        return out
    for name in ENV_NAMES:
        r = next(it, None)
        if r is None or r[0] != 'env0':
            return [{'clause': 'harness', 'what': f'no initial control output: {r}'}]
        env[r[1]] = r[2]
    if scn.get('cblock'):
        for name in CBLOCK_NAMES:
            r = next(it, None)
            env[r[1]] = r[2]
        # docs/filters.rst: IfOutput(control_block: str | Block), NotIfInitialized(control_block: str | SBlock)
        for fid, spec in scn['defs']:
            r = next(it, None)
            must_fail = spec[0] == 'ifnotinit' and spec[1] in CBLOCK_NAMES
            if r is None or r[0] != 'def' or (r[2] is not None) != must_fail or (must_fail and r[2] != 'TypeError'):
                bad('control_block_type', f'constructing {spec}: {r}, expected '
                    + ('a TypeError (not a sequential block)' if must_fail else 'success'))
                return out
    for step in steps:
        r = next(it, None)
        if r is None:
            break
        if step[0] == 'env':
            env[r[1]] = r[2]      # the block's real output (a put of an equal value keeps the old object)
            continue
        if step[0] == 'call':
            fid, data = step[1], dec_data(step[2])
            spec = specs[fid]
            exp = expect([fid], data)
            cl = clause_of([fid])
            if exp[0] == 'unspec':
                continue
            if exp[0] == 'fails':
                if r[1] != 'err' and not (spec[0] == 'user' and spec[2][0] == 'badkey'):
                    bad(cl, f'call {spec} {data}: returned {r[2]!r}, documented precondition violated')
                    break
            elif exp[0] == 'reject':
                if r[1] != 'val' or truth(r[2]):
                    bad(cl, f'call {spec} {data}: returned {r[1]} {r[2]!r}, expected a false value')
                    break
            else:
                ok = (r[1] == 'map' and same(r[2], exp[1])) or (
                    r[1] == 'val' and truth(r[2]) and spec[0] != 'edit')
                if not ok:
                    bad(cl, f'call {spec} {data}: returned {r[1]} {r[2]!r}, expected {exp[1]}')
                    break
        else:
            fids, data = step[1], dec_data(step[2])
            exp = expect(fids, {**data, 'source': 'src'})
            cl = clause_of(fids)
            what = f'send {[specs[f] for f in fids]} {data}'
            if exp[0] == 'unspec':
                if r[1] is not True and r[2 if r[1] is False else 3]:
                    bad(cl, f'{what}: {r[1:]}: delivered although send() did not return True')
                    break
                continue
            if exp[0] == 'fails':
                if r[1] != 'err' or r[3]:
                    bad(cl, f'{what}: {r[1:]}, expected an exception and no delivery')
                    break
            elif exp[0] == 'reject':
                if r[1] is not False or r[2]:
                    bad(cl, f'{what}: returned {r[1]!r}, delivered {r[2]}, expected False and nothing')
                    break
            else:
                if r[1] is not True or len(r[2]) != 1 or not same(r[2][0], exp[1]):
                    bad(cl, f'{what}: returned {r[1]!r}, delivered {r[2]}, expected True and {exp[1]}')
                    break
    return out


# ------------------------------------------------------------------ generators

PREV = [U, None, False, 0, 0.0, '', {'T': []}, True, 1, 2.5, 'x', {'T': [0]}, -1]
VALS = [None, False, 0, '', True, 1, 'x', {'T': [0]}]
FLAG3 = ['-', '0', '1']


def edge_scenarios():
    for r, f, ur, uf in itertools.product(FLAG3, FLAG3, FLAG3 + ['n'], FLAG3):
        steps = []
        for p in PREV:
            for v in VALS:
                d = {'previous': p, 'value': v}
                steps.append(['call', 'e', d])
                steps.append(['send', ['e'], d])
        steps += [['call', 'e', {'value': 1}], ['call', 'e', {'previous': 0}], ['call', 'e', {}],
                  ['send', ['e'], {'value': 1}], ['send', ['e'], {'previous': U, 'value': U}],
                  ['call', 'n', {}], ['send', ['n'], {}], ['send', ['n', 'e'], {'previous': 0, 'value': 1}]]
        steps += [s for p in PREV for s in (['call', 'n', {'previous': p}], ['send', ['n'], {'previous': p, 'value': 1}])]
        yield {'kind': 'edge', 'ctl': {'c1': 0, 'c2': 0},
               'defs': [['e', ['edge', r, f, ur, uf]], ['n', ['nfu']]], 'steps': steps}


DELTAS = [0, 1, 2, 0.5, 1.5, -1, 3]
DVALS = [0, 1, 2, 3, 2.5, -1, 4.5, True]


def delta_batch(delta, seqs, kind='delta'):
    defs, steps = [], []
    for i, seq in enumerate(seqs):
        fid = f'd{i}'
        defs.append([fid, ['delta', delta]])
        for j, v in enumerate(seq):
            d = {} if v == 'MISSING' else {'value': v}
            if (i + j) % 3 == 0:
                d['previous'] = 0
            steps.append(['send', [fid], d] if i % 2 else ['call', fid, d])
    return {'kind': kind, 'ctl': {'c1': 0, 'c2': 0}, 'defs': defs, 'steps': steps}


def delta_scenarios(rng, tier):
    maxlen = 3 if tier == 'quick' else 5
    for delta in DELTAS:
        for n in range(1, maxlen + 1):
            seqs = list(itertools.product(DVALS, repeat=n))
            for i in range(0, len(seqs), 64):
                yield delta_batch(delta, [list(s) for s in seqs[i:i + 64]])
    # the non-finite floats: NaN / +inf / -inf at the first and at later positions, also as delta
    xvals = [NAN, INF, NINF, 0, 1, 2.5]
    for delta in (1, 0, 0.5, -1, INF, NAN, NINF):
        for n in range(1, (3 if tier == 'quick' else 4) + 1):
            seqs = list(itertools.product(xvals, repeat=n))
            for i in range(0, len(seqs), 72):
                yield delta_batch(delta, [list(s) for s in seqs[i:i + 72]])
    for _ in range(800 if tier == 'quick' else 6000):
        mode = rng.random()
        if mode < 0.12:
            delta = rng.choice([0, 1, 0.5, 2.5, INF, NAN, -3])
            pool = lambda: rng.choice([NAN, NAN, INF, NINF, rng.randint(-6, 6), rng.randint(-40, 40) / 8, True])
        elif mode < 0.45:
            delta = rng.choice([0, 1, 2, 3, 7, 100, 2 ** 33, -5])
            pool = lambda: rng.choice([rng.randint(-12, 12), rng.randint(-2 ** 40, 2 ** 40), rng.randint(0, 1) == 1])
        elif mode < 0.9:
            delta = rng.choice([0.125, 0.5, 1.5, 2, 10, 0.0, 1000.25])
            pool = lambda: rng.choice([rng.randint(-80, 80) / 8, rng.randint(-2 ** 23, 2 ** 23) / 8, rng.randint(-5, 5)])
        else:
            delta = rng.choice([1, 0.5])
            pool = lambda: rng.choice([0, 1, 2.5, 3, None, 'x', {'T': [1]}, U, 'MISSING', [1]])
        seqs = []
        for _ in range(rng.randint(1, 4)):
            n = rng.randint(2, 40)
            # random walk around the threshold so that passing and stopping both happen
            seqs.append([pool() for _ in range(n)])
        yield delta_batch(delta, seqs)


KEYS = ['a', 'b', 'c']
MODFNS = [['const', 5], ['inc', 1], ['del'], ['rej'], ['rejfalsy'], ['delfalsy']]


def edit_alphabet():
    ops = []
    for k in KEYS:
        ops.append(['add', {k: 9}])
        ops.append(['setdef', {k: 8}])
        ops.append(['addout', k, 'c1'])
    ops.append(['add', {'a': 1, 'b': None}])
    ops.append(['setdef', {'b': 0, 'c': 'x'}])
    for a in KEYS:
        for b in KEYS:
            ops.append(['copy', a, b])
            ops.append(['rename', a, b])
    subsets = [[], ['a'], ['b'], ['c'], ['a', 'b'], ['a', 'c'], ['b', 'c']]
    for s in subsets:
        ops.append(['del', s])
        ops.append(['permit', s])
    for k in KEYS:
        for fn in MODFNS:
            ops.append(['mod', k, fn])
    return ops


EDIT_OPS = edit_alphabet()
EDIT_SMALL = [['add', {'a': 9}], ['setdef', {'a': 8}], ['setdef', {'b': 8}], ['copy', 'a', 'b'], ['copy', 'b', 'a'],
              ['rename', 'a', 'b'], ['rename', 'b', 'a'], ['rename', 'a', 'a'], ['del', ['a']], ['permit', ['a']],
              ['mod', 'a', ['inc', 1]], ['mod', 'a', ['delfalsy']], ['mod', 'b', ['rejfalsy']], ['addout', 'b', 'c1']]
INPUT_DICTS = [dict(zip(ks, vs)) for ks, vs in (
    ([], []), (['a'], [0]), (['b'], [2]), (['c'], ['']), (['a', 'b'], [1, 0]), (['a', 'c'], [None, 3]),
    (['b', 'c'], [0.5, True]), (['a', 'b', 'c'], [0, 1, 2]))]


def chain_batch(chains, dicts=None, ctl1=4):
    defs, steps = [], []
    for i, ch in enumerate(chains):
        fid = f'x{i}'
        defs.append([fid, ['edit', ch]])
        for j, d in enumerate(dicts or INPUT_DICTS):
            steps.append(['send', [fid], d] if (i + j) % 2 else ['call', fid, d])
    return {'kind': 'chain', 'ctl': {'c1': ctl1, 'c2': 0}, 'defs': defs, 'steps': steps}


def chain_scenarios(rng, tier):
    yield chain_batch([[]] + [[op] for op in EDIT_OPS])
    for first in EDIT_OPS:
        yield chain_batch([[first, op] for op in EDIT_OPS])
    if tier == 'thorough':
        for a in EDIT_OPS:
            for b in EDIT_OPS:
                yield chain_batch([[a, b, op] for op in EDIT_OPS])
        for a in EDIT_SMALL:
            for b in EDIT_SMALL:
                for c in EDIT_SMALL:
                    yield chain_batch([[a, b, c, op] for op in EDIT_SMALL])
    else:
        for _ in range(200):
            a, b = rng.choice(EDIT_OPS), rng.choice(EDIT_OPS)
            yield chain_batch([[a, b, op] for op in EDIT_OPS])
        for _ in range(150):
            a, b, c = (rng.choice(EDIT_SMALL) for _ in range(3))
            yield chain_batch([[a, b, c, op] for op in EDIT_SMALL])
    # random chains with other keys / values, incl. the reserved items
    keys = ['a', 'b', 'value', 'previous', 'source', 'zz']
    vals = [0, 1, -3, 2.5, None, '', 'txt', True, {'T': [1, 2]}, [1], U]

    def rop():
        k = rng.choice(['add', 'setdef', 'addout', 'copy', 'rename', 'del', 'permit', 'mod', 'mod'])
        if k in ('add', 'setdef'):
            return [k, {key: rng.choice(vals) for key in rng.sample(keys, rng.randint(0, 3))}]
        if k == 'addout':
            return [k, rng.choice(keys), rng.choice(['c1', 'c2', 'src'])]
        if k in ('copy', 'rename'):
            return [k, rng.choice(keys), rng.choice(keys)]
        if k in ('del', 'permit'):
            return [k, rng.sample(keys, rng.randint(0, 4))]
        return [k, rng.choice(keys), rng.choice(MODFNS + [['inc', 0.5], ['const', U], ['const', None], ['raise', 'ValueError']])]
    for _ in range(400 if tier == 'quick' else 3000):
        chains = [[rop() for _ in range(rng.randint(1, 5))] for _ in range(12)]
        dicts = [{key: rng.choice(vals) for key in rng.sample(keys, rng.randint(0, 5))} for _ in range(6)]
        yield chain_batch(chains, dicts, ctl1=rng.choice([0, 'o', None]))


PIPE_FILTERS = [
    ['edit', [['add', {'a': 9}]]],
    ['edit', [['setdef', {'a': 8}]]],
    ['edit', [['rename', 'a', 'b']]],
    ['edit', [['copy', 'value', 'a'], ['del', ['value']]]],
    ['edit', [['permit', ['a', 'source']]]],
    ['edit', [['mod', 'a', ['rejfalsy']]]],
    ['edit', [['mod', 'a', ['inc', 1]]]],
    ['edit', []],
    ['user', [], ['val', True]],
    ['user', [], ['val', 'x']],
    ['user', [['set', 'a', 0]], ['val', 1]],
    ['user', [['del', 'a'], ['set', 'm', 1]], ['val', {'T': [0]}]],
    ['user', [['set', 'a', 3]], ['val', 0]],
    ['user', [], ['val', None]],
    ['user', [], ['val', '']],
    ['user', [], ['val', U]],
    ['user', [], ['map', {}]],
    ['user', [['set', 'a', 1]], ['map', {'z': 1}]],
    ['user', [['set', 'q', 2]], ['self']],
    ['user', [], ['item', 'a']],
    ['user', [], ['badkey']],
    ['user', [], ['raise', 'ValueError']],
    ['edge', '1', '-', '-', '-'],
    ['nfu'],
    ['delta', 2],
    ['ifout', 'c1'],
]
PIPE_DATA = [{}, {'a': 0, 'value': 1, 'previous': U}, {'a': 2, 'value': 0, 'previous': 1}]


def pipe_batch(pipes, datas=None, ctl1=1, phase='run'):
    defs, steps = [], []
    n = 0
    for pipe in pipes:
        fids = []
        for spec in pipe:
            fids.append(f'f{n}')
            defs.append([f'f{n}', spec])
            n += 1
        for d in datas or PIPE_DATA:
            steps.append(['send', fids, d])
    return {'kind': 'pipe', 'phase': phase, 'ctl': {'c1': ctl1, 'c2': 0}, 'defs': defs, 'steps': steps}


def pipe_scenarios(rng, tier):
    yield pipe_batch([[]] + [[f] for f in PIPE_FILTERS])
    for a in PIPE_FILTERS:
        yield pipe_batch([[a, b] for b in PIPE_FILTERS])
    if tier == 'thorough':
        for a in PIPE_FILTERS:
            for b in PIPE_FILTERS:
                yield pipe_batch([[a, b, c] for c in PIPE_FILTERS])
    else:
        for _ in range(300):
            a, b = rng.choice(PIPE_FILTERS), rng.choice(PIPE_FILTERS)
            yield pipe_batch([[a, b, c] for c in PIPE_FILTERS], ctl1=rng.choice([1, 0]))
    # sequences of sends through one pipeline holding a Delta (the state survives rejections
    # by later stages and is not touched when an earlier stage stops the event)
    for _ in range(300 if tier == 'quick' else 2000):
        pipe = [rng.choice(PIPE_FILTERS) for _ in range(rng.randint(0, 2))]
        pipe.insert(rng.randint(0, len(pipe)), ['delta', rng.choice([1, 2, 1.5])])
        datas = [{'a': rng.choice([0, 1]), 'value': rng.choice([0, 1, 2, 3, 4.5]), 'previous': rng.choice([U, 0, 1])}
                 for _ in range(rng.randint(3, 12))]
        yield pipe_batch([pipe], datas, ctl1=rng.choice([1, 1, 0]))


CTL_VALUES = [None, False, 0, 0.0, '', {'T': []}, [], True, 1, -2.5, 'on', {'T': [0]}, [0]]


def ctrl_scenarios(rng, tier):
    defs = [['o', ['ifout', 'c1']], ['i', ['ifnotinit', 'c1']], ['i2', ['ifnotinit', 'c2']],
            ['x', ['edit', [['addout', 'k', 'c1'], ['addout', 'a', 'c2'], ['addout', 's', 'src']]]]]
    probe = [['call', 'o', {'a': 1}], ['send', ['o'], {'a': 1}], ['call', 'i', {}], ['send', ['i'], {'v': 0}],
             ['send', ['i2', 'o'], {}], ['call', 'x', {'a': 0}], ['send', ['x', 'i2'], {}], ['call', 'i2', {'b': U}]]
    # running simulation: every control output
    steps = list(probe)
    for v in CTL_VALUES:
        steps.append(['env', 'c1', v])
        steps += probe
    yield {'kind': 'ctrl', 'phase': 'run', 'ctl': {'c1': 1, 'c2': 0}, 'defs': defs, 'steps': steps}
    # initialisation phase: control blocks uninitialised, then initialised by an event
    for init1, init2 in ((U, U), (U, 0), (1, U), (0, 'x')):
        for order in (('c1', 'c2'), ('c2', 'c1')):
            for v in (0, 1, None):
                steps = list(probe)
                for name in order:
                    steps.append(['env', name, v])
                    steps += probe
                yield {'kind': 'ctrl', 'phase': 'init', 'ctl': {'c1': init1, 'c2': init2}, 'defs': defs, 'steps': steps}
    for _ in range(20 if tier == 'quick' else 300):
        steps = []
        for _ in range(rng.randint(3, 10)):
            if rng.random() < 0.4:
                steps.append(['env', rng.choice(CTL_NAMES), rng.choice(CTL_VALUES)])
            steps.append(rng.choice(probe))
        phase = rng.choice(['run', 'init'])
        yield {'kind': 'ctrl', 'phase': phase,
               'ctl': {'c1': rng.choice([U, 0, 1] if phase == 'init' else [0, 1]),
                       'c2': rng.choice([U, None, 'y'] if phase == 'init' else [None, 'y'])},
               'defs': defs, 'steps': steps}


def reg_scenarios():
    """control blocks that are combinational: IfOutput takes any block, IfNotIitialized refuses them"""
    defs = [['o', ['ifout', 'nb']], ['o2', ['ifout', 'nn']], ['bad', ['ifnotinit', 'nb']], ['bad2', ['ifnotinit', 'nn']],
            ['i', ['ifnotinit', 'c1']], ['o3', ['ifout', 'c1']],
            ['x', ['edit', [['addout', 'k', 'nb'], ['addout', 'a', 'nn']]]]]
    probe = [['call', 'o', {'a': 1}], ['send', ['o'], {'a': 1}], ['call', 'o2', {}], ['send', ['o2', 'x'], {'v': 0}],
             ['send', ['i', 'o2'], {}], ['call', 'x', {'a': 0}], ['send', ['o3', 'o2'], {}]]
    for c1 in (0, 1):
        yield {'kind': 'ctrl', 'phase': 'run', 'cblock': True, 'ctl': {'c1': c1, 'c2': 0}, 'defs': defs, 'steps': list(probe)}


LIVE_FILTERS = [
    ['edge', '1', '-', '-', '-'], ['edge', '1', '-', '0', '-'], ['edge', '-', '1', '-', '-'], ['edge', '-', '1', '-', '1'],
    ['edge', '1', '1', 'n', '1'], ['nfu'], ['delta', 2], ['delta', 1.5],
    ['edit', [['copy', 'value', 'v2'], ['del', ['previous']]]], ['edit', [['mod', 'value', ['rejfalsy']]]],
    ['edit', [['rename', 'value', 'x'], ['setdef', {'value': 0}]]], ['edit', [['mod', 'previous', ['inc', 1]]]],
    ['user', [['set', 'seen', 1]], ['item', 'value']], ['user', [], ['map', {'value': 42}]], ['ifout', 'c1'],
]


def live_scenarios(rng, tier):
    for _ in range(700 if tier == 'quick' else 5000):
        pipe = [rng.choice(LIVE_FILTERS) for _ in range(rng.randint(1, 3))]
        numeric = any(s[0] == 'delta' or s == LIVE_FILTERS[11] for s in pipe) and rng.random() < 0.9
        pool = [0, 1, 2, 3, 4.5, -1, True, False] if numeric else [0, 1, 2, None, '', 'a', True, False, {'T': []}, 2.5]
        yield {'kind': 'live', 'phase': 'run', 'ctl': {'c1': rng.choice([1, 0]), 'c2': 0},
               'defs': [[f'f{i}', s] for i, s in enumerate(pipe)], 'live': [f'f{i}' for i in range(len(pipe))],
               'live_init': rng.choice(pool), 'steps': [['put', rng.choice(pool)] for _ in range(rng.randint(2, 14))]}


def scenarios(rng, tier):
    yield from edge_scenarios()
    yield from ctrl_scenarios(rng, tier)
    yield from reg_scenarios()
    yield from pipe_scenarios(rng, tier)
    yield from delta_scenarios(rng, tier)
    yield from live_scenarios(rng, tier)
    yield from chain_scenarios(rng, tier)


def shrink(scn):
    yield from shrink_ops(scn, 'steps')
    used = {f for s in scn['steps'] if s[0] in ('call', 'send') for f in ([s[1]] if s[0] == 'call' else s[1])}
    used |= set(scn.get('live') or [])
    small = [d for d in scn['defs'] if d[0] in used]
    if len(small) < len(scn['defs']):
        yield {**scn, 'defs': small}
