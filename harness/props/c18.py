"""C18 -- Repeat: correspondence with lean/EdzedModel/Repeat.lean + independent schedule oracle."""
import asyncio
import itertools

import edzed

from .. import vtime
from ..enc import enc_data, err_kind
from ..runner import shrink_ops

ID = 'C18'
RULE = ("real Repeat blocks (explicit, or created by Event(dest, etype, repeat=, count=) inside a sender block; "
        "alone or as a chain Repeat->Repeat->probe) in a running circuit on the integer-microsecond virtual loop; "
        "arrival scripts: EVERY sequence of <=3 (quick) / <=4 (thorough) arrivals whose gaps lie on the grid "
        "{0, I/2, I-1us, I, I+1us, 2I, 3I} relative to the interval I, each arrival in placement B (before the "
        "timers of its instant), T (as a loop timer of the same iteration) or A (after the loop settled), for "
        "count in {None,0,1,3}, for an explicit block and for an implicit one (quick: a quarter of the 3-arrival "
        "scripts for the implicit block); plus random scripts with non-matching event types, extra data items, external / "
        "direct / block sources, intermediate observation points, events after the stop, invalid constructor "
        "arguments, chains with commensurable intervals (so that both timeouts fall into one loop iteration), and "
        "(single block) destinations that REFUSE deliveries: every script of <=2 arrivals x count in {None,1,3} x "
        "index 0..5 of the refused delivery x kind (EdzedUnknownEvent as for an unknown event type / an error in "
        "the handler), random richer scripts with 0..3 refusals, and the event type 'pp' whose destination handler "
        "needs a data item (parameter error when it is missing); the answers the destination actually gave are "
        "handed to the model per step. "
        "Same-instant timer arrivals are reported to model and oracle in the ACTUAL order of delivery. Compared "
        "after every arrival / observation point: the time-stamped deliveries at the probe (type + all data "
        "items + how the probe answered), what the sender got back (ok / EdzedUnknownEvent / another exception / "
        "EdzedInvalidState), Circuit.is_ready() and Repeat.output of each block; the run goes on >= 3 intervals after the script and >= 3 after the "
        "stop. distinct = hash of (lines, trace); non-trivial = at least one repetition was sent")
ASSUMPTIONS = [
    "asyncio itself is not verified: wait_for/call_at/Queue on the virtual loop are taken as they are",
    "intervals are multiples of 1/4 s so that float deadlines are exact to well below 1 us",
    "in a chain, which of two tasks woken in the same loop iteration resumes first is taken from the "
    "implementation's log (both outcomes are accepted by the oracle)",
]
EXHAUSTIVE = {'quick': False, 'thorough': True}

I0 = 1_000_000
COUNTS = [None, 0, 1, 3]
RANK = {'B': 0, 'T': 1, 'A': 2}


GAPS = ['0', 'h', 'i-1', 'i', 'i+1', '2i', '3i']


def gap_us(sym, iv):
    return {'0': 0, 'h': iv // 2, 'i-1': iv - 1, 'i': iv, 'i+1': iv + 1, '2i': 2 * iv, '3i': 3 * iv}[sym]


# ---------------------------------------------------------------- scenario generation

def mk_ops(first_t, steps, iv):
    """steps: [(gap symbol, placement)] -> ops [[t, pl, src, etype, extra]] or None when not realisable"""
    ops, t, prev = [], first_t, None
    for gap, pl in steps:
        t += gap_us(gap, iv)
        if prev is not None and gap == '0' and RANK[pl] < RANK[prev]:
            return None
        prev = pl
        ops.append([t, pl, 'ext', 'M', {}])
    return ops


EXTRAS = [{}, {}, {'x': 'abc'}, {'flag': True, 'n': None}, {'orig_source': 'zzz'}, {'tu': [1, 'a']},
          {'previous': 2.5}, {'source': 'elsewhere'}]


def normalise(ops):
    """sort by time; at one instant placements go B, T, A; an observation point is dropped when it would
    force the loop to settle before a B/T arrival of the same instant"""
    res = []
    for op in sorted(ops, key=lambda o: o[0]):      # stable
        if res and op[0] == res[-1][0]:
            if res[-1][1] == 'adv' and op[1] in ('B', 'T'):
                res.pop()
            elif op[1] != 'adv' and res[-1][1] != 'adv' and RANK[op[1]] < RANK[res[-1][1]]:
                op = [op[0], res[-1][1]] + list(op[2:])
        res.append(list(op))
    return res


def decorate(rng, scn, richer=True):
    """random sources, extra items, non-matching events, observation points, events after the stop"""
    iv = scn['interval']
    out = []
    for op in scn['ops']:
        t, pl = op[0], op[1]
        if richer and rng.random() < 0.3:
            tt = max(1, t - rng.choice([0, 0, iv // 4, iv, iv - 1]))
            out.append([tt, rng.choice('BTA') if tt < t else pl, 'direct', 'other', dict(rng.choice(EXTRAS))])
        src = rng.choice(['ext', 'direct', 'blk']) if scn['kind'] == 'explicit' else rng.choice(['blk', 'blk', 'direct'])
        extra = dict(rng.choice(EXTRAS))
        if src != 'direct':
            extra.pop('source', None)
        out.append([t, pl, src, 'M', extra])
        if richer and rng.random() < 0.4:
            out.append([t + rng.choice([1, iv // 2, iv, iv + 1, 2 * iv + 1]), 'adv'])
    ops = normalise(out)
    while normalise(ops) != ops:
        ops = normalise(ops)
    scn['ops'] = ops
    if richer and rng.random() < 0.3:
        scn['post'] = [[rng.choice([0, iv // 2, iv]), rng.choice(['M', 'M', 'other']),
                        dict(rng.choice(EXTRAS))] for _ in range(rng.randint(1, 2))]
    return scn


def base(kind, count, ops, interval=I0, **kw):
    return {'kind': kind, 'etype': 'put', 'interval': interval, 'count': count, 'ops': ops, 'tail': 4, **kw}


CHAIN_IV = [(I0, I0), (I0, I0 // 2), (I0, 2 * I0), (2 * I0, I0), (I0, 3 * I0 // 2), (3 * I0 // 2, I0 // 2),
            (I0 // 2, I0), (I0, I0 // 4)]


def scenarios(rng, tier):
    first_t = I0 // 4
    maxn = 3 if tier == 'quick' else 4
    # 1. the grid enumeration (explicit block, plain external events) for every count
    enum = []
    for n in range(1, maxn + 1):
        for pls in itertools.product('BTA', repeat=n):
            for gaps in itertools.product(GAPS, repeat=n - 1):
                steps = list(zip(('0',) + gaps, pls))
                if mk_ops(first_t, steps, I0) is not None:
                    enum.append(steps)
    for kind in ('explicit', 'implicit'):
        for count in COUNTS:
            for k, steps in enumerate(enum):
                if tier == 'quick' and kind == 'implicit' and len(steps) == maxn and k % 4 != COUNTS.index(count):
                    continue        # quick: a quarter of the longest scripts for the implicit block
                ops = mk_ops(first_t, steps, I0)
                if kind == 'implicit':
                    for op in ops:
                        op[2] = 'blk'       # through the sender block owning Event(..., repeat=)
                yield base(kind, count, ops)
    # 2. the same space, decorated (implicit blocks, sources, other types, observation points, post-stop events)
    ndeco = 4000 if tier == 'quick' else 40000
    for _ in range(ndeco):
        iv = rng.choice([I0, I0, I0 // 2, 2 * I0, 3 * I0 // 4])
        scn = base(rng.choice(['explicit', 'implicit']), rng.choice(COUNTS + [2, 5]),
                   mk_ops(first_t, rng.choice(enum), iv), interval=iv, etype=rng.choice(['put', 'put', 'go']))
        yield decorate(rng, scn)
    # 3. chains of two (commensurable intervals: both timeouts fall into one loop iteration)
    nchain = 4000 if tier == 'quick' else 40000
    short = [o for o in enum if len(o) <= 2]
    for k in range(nchain):
        i1, i2 = rng.choice(CHAIN_IV)
        scn = base(rng.choice(['explicit', 'explicit', 'implicit']), rng.choice(COUNTS + [2]),
                   mk_ops(first_t, rng.choice(short if k % 3 else enum), i1), interval=i1, chain=True,
                   interval2=i2, count2=rng.choice(COUNTS + [2]), etype2='put' if rng.random() < 0.9 else 'zz')
        yield decorate(rng, scn, richer=k % 2 == 0)
    # 4. destinations that refuse a delivery (single block): every script of <= 2 arrivals x count x the index
    #    of the refused delivery x kind (u: unknown event type, e: an error), then random richer ones incl.
    #    the event type 'pp' whose handler needs the item 'needed' (parameter error when it is missing)
    small = [o for o in enum if len(o) <= 2]
    for steps in small:
        for count in (None, 1, 3):
            for idx in range(6):
                for kind_r in 'ue':
                    if tier == 'quick' and kind_r == 'e' and idx % 2:
                        continue
                    ops = mk_ops(first_t, steps, I0)
                    for op in ops:
                        op[2] = 'direct' if (idx + len(steps)) % 2 else 'ext'
                    yield base('explicit', count, ops, refuse=[[idx, kind_r]])
    nref = 2500 if tier == 'quick' else 30000
    for k in range(nref):
        iv = rng.choice([I0, I0, I0 // 2, 2 * I0])
        ety = rng.choice(['put', 'put', 'pp'])
        scn = base(rng.choice(['explicit', 'implicit']), rng.choice([None, 1, 3, 0, 2]),
                   mk_ops(first_t, rng.choice(enum), iv), interval=iv, etype=ety)
        scn = decorate(rng, scn, richer=k % 3 != 0)
        if ety == 'pp':
            for op in scn['ops']:
                if op[1] != 'adv' and op[3] == 'M' and rng.random() < 0.8:
                    op[4] = {**op[4], 'needed': 1}
            for po in scn.get('post') or []:
                if rng.random() < 0.8:
                    po[2] = {**po[2], 'needed': 1}
        scn['refuse'] = sorted([rng.randint(0, 9), rng.choice('uuue')] for _ in range(rng.choice([0, 1, 1, 2, 3])))
        scn['refuse'] = [r for j, r in enumerate(scn['refuse']) if j == 0 or r[0] != scn['refuse'][j - 1][0]]
        yield scn
    # 5. constructor arguments: Repeat(...) directly and through Event(..., repeat=, count=)
    for via in 'RE':
        for ety in (['s', 'put'], ['s', 'go'], ['s', ''], ['C'], ['T'], ['O']):
            for iv in (None, 0, -1, 1, 2.5, 0.25, '1m', '2m30s', '1.5s', '0s', 'bogus', [1], '-'):
                if iv == '-' and via == 'R':
                    continue
                for cnt in (None, 0, 3, -1):
                    yield {'ctor2': True, 'via': via, 'ety': ety, 'iv': iv, 'cnt': cnt}
    # 6. constructor checks (interval / count in microseconds as the model's Cfg.make? sees them)
    for iv, cnt in [(0, None), (-I0, 3), (I0, -1), (I0, -3), (0, -1)]:
        yield {'kind': 'explicit', 'etype': 'put', 'interval': iv, 'count': cnt, 'ops': [], 'tail': 1, 'ctor': True}


def shrink(scn):
    yield from shrink_ops(scn)
    if scn.get('post'):
        yield {**scn, 'post': []}
    ops = scn.get('ops') or []
    for i, op in enumerate(ops):
        if op[1] != 'adv' and len(op) > 4 and op[4]:
            yield {**scn, 'ops': ops[:i] + [op[:4] + [{}]] + ops[i + 1:]}
    if scn.get('chain') and scn.get('count2') not in (0,):
        yield {**scn, 'count2': 0}
    ref = scn.get('refuse') or []
    for i in range(len(ref)):
        yield {**scn, 'refuse': ref[:i] + ref[i + 1:]}


# ---------------------------------------------------------------- implementation run

class GuardLoop(vtime.VLoop):
    """virtual loop with an iteration budget: a livelocked implementation fails instead of hanging the check"""
    BUDGET = 200_000

    def _run_once(self):
        if self.iterations > self.BUDGET:
            raise RuntimeError('C18: loop iteration budget exhausted (livelock in the implementation?)')
        super()._run_once()


class TProbe(edzed.SBlock):
    """
    destination: time-stamped record of every delivery attempt and of how it ended
    ('o' handled, 'u' EdzedUnknownEvent, 'e' another exception).
    It refuses the deliveries named by the script `refuse` {attempt index: 'u' | 'e'} -- 'u' is what
    SBlock._event does for an event type the block does not know, 'e' an error inside the handler --
    and events of type 'pp' without the data item 'needed' (a handler with a required parameter:
    the TypeError of the call itself, one traceback level).
    """

    def __init__(self, *args, timeline, outs, refuse=None, **kwargs):
        self._tl = timeline
        self._outs = outs
        self._refuse = dict(refuse or {})
        self._attempts = 0
        super().__init__(*args, **kwargs)

    def event(self, etype, /, **data):
        self._attempts += 1
        t = asyncio.get_running_loop().now_us
        resp = 'o'
        try:
            return super().event(etype, **data)
        except edzed.EdzedUnknownEvent:
            resp = 'u'
            raise
        except Exception:
            resp = 'e'
            raise
        finally:
            self._tl.append(('probe', t, etype, dict(data), self._outs(), resp))

    def _scripted(self):
        answer = self._refuse.get(self._attempts - 1)
        if answer == 'u':
            raise edzed.EdzedUnknownEvent(f"{self}: no handler (scripted refusal)")
        if answer == 'e':
            raise ValueError('scripted error inside the destination handler')

    def _event(self, etype, data):
        self._scripted()

    def _event_pp(self, *, needed, **_data):
        self._scripted()

    def init_regular(self):
        self.set_output(None)


class Sender(edzed.SBlock):
    """a user block owning an Event (possibly with repeat=) and sending it on 'go'"""

    def __init__(self, *args, ev, **kwargs):
        self._ev = ev
        super().__init__(*args, **kwargs)

    def _event_go(self, **data):
        data.pop('source', None)
        self._ev.send(self, **data)

    def init_regular(self):
        self.set_output(None)


class LoggedRepeat(edzed.Repeat):
    """edzed.Repeat that notes its arrivals in the harness timeline (downstream block of a chain)"""
    _c18_timeline = None

    def _event(self, etype, data):
        self._c18_timeline.append(('arr2', asyncio.get_running_loop().now_us, etype, dict(data), None, 'o'))
        return super()._event(etype, data)


def hexs(s):
    return 's' + s.encode('utf-8').hex()


def _tuplify(d):
    return {k: (tuple(v) if isinstance(v, list) else v) for k, v in d.items()}


def received_data(src, seq, extra, sender_name):
    """the data items the first Repeat receives for an arrival"""
    data = _tuplify(extra)
    data['value'] = seq
    if src == 'ext':
        data['source'] = '_ext_'
    elif src == 'blk':
        data['source'] = sender_name
    return data


def run_ctor2(scn):
    """construct a Repeat block / an Event with repeat= and report what was stored or which exception was raised"""
    from fractions import Fraction
    edzed.reset_circuit()
    probe = TProbe('p', timeline=[], outs=lambda: [])
    kind = scn['ety'][0]
    ety = {'s': lambda: scn['ety'][1], 'C': lambda: edzed.EventCond('a', 'b'), 'T': lambda: edzed.Goto('x'),
           'O': lambda: 5}[kind]()
    ety_tok = hexs(scn['ety'][1]) if kind == 's' else kind
    iv = scn['iv']
    ivv = tuple(iv) if isinstance(iv, list) else iv
    iv_tok = '-' if iv == '-' else ('l[' + ','.join(enc_data({'x': x})[4:-1] for x in iv) + ']' if isinstance(iv, list)
                                    else enc_data({'x': iv})[4:-1])
    cnt = scn['cnt']
    line = f"repeat ctor {scn['via']} {ety_tok} {iv_tok} {'n' if cnt is None else cnt}"
    obs = {}
    try:
        if scn['via'] == 'R':
            blk = edzed.Repeat('r', dest=probe, etype=ety, interval=list(iv) if isinstance(iv, list) else iv, count=cnt)
            ev = None
        else:
            kw = {} if iv == '-' else {'repeat': list(iv) if isinstance(iv, list) else iv}
            ev = edzed.Event(probe, ety, count=cnt, **kw)
            blk = ev._dest if isinstance(ev._dest, edzed.Repeat) else None
        if blk is not None:
            f = Fraction(blk._interval)
            obs = {'interval': [f.numerator, f.denominator], 'count': blk._count,
                   'fwd_dest_ok': blk._repeated_event._dest is probe, 'fwd_etype_ok': blk._repeated_event._etype == ety,
                   'nofilters': blk._repeated_event._filters == ()}
            stored = f"{f.numerator}/{f.denominator} {'n' if blk._count is None else blk._count}"
        if ev is None:
            trace = 'ok ' + stored
        elif blk is None:
            obs['plain'] = ev._dest is probe
            trace = 'ok plain' if ev._dest is probe and ev._etype == ety else 'ok misdirected'
        else:
            good = obs['fwd_dest_ok'] and obs['fwd_etype_ok'] and ev._etype == ety
            trace = 'ok repeat ' + stored if good else 'ok misdirected'
        obs['ok'] = True
    except (ValueError, TypeError) as err:
        obs = {'ok': False, 'exc': type(err).__name__}
        trace = 'err ' + type(err).__name__
    return {'lines': [line], 'trace': [trace], 'tags': [f"ctor-{scn['via']}-{'ok' if obs.get('ok') else obs.get('exc')}"],
            'nontrivial': True, 'ctor2': obs}


def oracle_ctor2(scn, res):
    """the documented argument rules (docs/sblocks1.rst Repeat, docs/events.rst Event): which calls are refused,
    and that an accepted Event(..., repeat=) creates a Repeat that forwards to the original destination"""
    obs = res['ctor2']
    kind, iv, cnt, via = scn['ety'][0], scn['iv'], scn['cnt'], scn['via']
    secs = {'1m': 60, '2m30s': 150, '1.5s': 1.5, '0s': 0}
    reasons = set()
    if kind == 'C' and (via == 'R' or iv not in ('-', None)):
        reasons.add('ValueError')          # an EventCond cannot be repeated
    if kind == 's' and scn['ety'][1] == '':
        reasons.add('ValueError')          # an event name must be a non-empty string
    if kind == 'O':
        reasons.add('TypeError')           # neither a string nor an EventType
    if iv == '-':
        if cnt is not None:
            reasons.add('ValueError')      # count is valid only with repeat
        value = None
    else:
        if isinstance(iv, list):
            reasons.add('TypeError')
            value = None
        elif iv is None:
            if via == 'E':
                value = None               # repeat=None: no repetition requested
                if cnt is not None:
                    reasons.add('ValueError')
            else:
                reasons.add('ValueError')  # interval must be positive
                value = None
        else:
            value = secs.get(iv, iv)
            if value == 'bogus' or value <= 0:
                reasons.add('ValueError')
        if cnt is not None and cnt < 0 and not (via == 'E' and iv is None):
            reasons.add('ValueError')
    if reasons:
        if obs.get('ok') or obs.get('exc') not in reasons:
            return [{'clause': 'constructor_checks',
                     'what': f"{scn}: expected one of {sorted(reasons)}, got {obs}"}]
        return []
    if not obs.get('ok'):
        return [{'clause': 'constructor_checks', 'what': f"{scn}: refused with {obs.get('exc')}"}]
    if via == 'E' and (iv == '-' or iv is None):
        if not obs.get('plain'):
            return [{'clause': 'implicit_repeat_created_as_specified', 'what': f"{scn}: a plain event expected, got {obs}"}]
        return []
    from fractions import Fraction
    want = Fraction(value)
    if Fraction(*obs['interval']) != want or obs['count'] != cnt:
        return [{'clause': 'implicit_repeat_created_as_specified' if via == 'E' else 'constructor_checks',
                 'what': f"{scn}: interval/count stored {obs['interval']}, {obs['count']}; expected {want}, {cnt}"}]
    if not (obs['fwd_dest_ok'] and obs['fwd_etype_ok']):
        return [{'clause': 'implicit_repeat_created_as_specified',
                 'what': f"{scn}: the Repeat block does not forward to the original destination / type: {obs}"}]
    return []


def run_impl(scn):
    if scn.get('ctor2'):
        return run_ctor2(scn)
    iv, count, etype = scn['interval'], scn['count'], scn['etype']
    chain = bool(scn.get('chain'))
    lines, trace = [], []
    timeline = []        # ('probe'|'arr2', t, etype, data, outs)
    marks = []           # in ACTUAL order: (kind, op index or time, now, len(timeline), outs, ret, ready)
    errors = []
    info = {'names': [], 'arrivals': [], 'aborted': False, 'stop_t': None, 'post_t': []}
    blocks = {}

    def cnt_s(c):
        return 'n' if c is None else str(c)

    def outs():
        r = [blocks['r1'].output]
        if chain:
            r.append(blocks['r2'].output)
        return r

    def build():
        probe = TProbe('p', timeline=timeline, outs=outs, refuse={int(k): v for k, v in scn.get('refuse') or []})
        dest = probe
        if chain:
            r2 = LoggedRepeat('r2', dest=probe, etype=scn['etype2'], interval=scn['interval2'] / 1e6,
                              count=scn['count2'])
            r2._c18_timeline = timeline
            blocks['r2'] = dest = r2
        if scn['kind'] == 'explicit':
            r1 = edzed.Repeat('r1', dest=dest, etype=etype, interval=iv / 1e6, count=count)
            ev = edzed.Event(r1, etype)
        else:
            ev = edzed.Event(dest, etype, repeat=iv / 1e6, count=count)
            r1 = ev.dest
        blocks['r1'] = r1
        blocks['src'] = Sender('src', ev=ev)

    edzed.reset_circuit()
    circuit = edzed.get_circuit()
    try:
        build()
    except ValueError:
        if scn.get('ctor'):
            lines.append(f"repeat reset {hexs('r1')} {hexs(etype)} {iv} {cnt_s(count)}")
            trace.append('err ValueError')
            return {'lines': lines, 'trace': trace, 'ctor_error': True, 'tags': ['ctor-rejected'],
                    'nontrivial': False}
        raise
    r1 = blocks['r1']
    if not isinstance(r1, edzed.Repeat):
        raise RuntimeError('Event(..., repeat=) did not create a Repeat block')
    info['names'] = [r1.name] + (['r2'] if chain else [])
    reset = f"repeat reset {hexs(r1.name)} {hexs(etype)} {iv} {cnt_s(count)}"
    if chain:
        reset += f" {hexs('r2')} {hexs(scn['etype2'])} {scn['interval2']} {cnt_s(scn['count2'])}"
    lines.append(reset)
    trace.append('ok')
    ops = scn['ops']
    seqs = {}
    n = 0
    for i, op in enumerate(ops):
        if op[1] != 'adv':
            n += 1
            seqs[i] = n

    def do_send(src, ety, data):
        ety = etype if ety == 'M' else ety
        if src == 'ext':
            edzed.ExtEvent(r1, ety).send(**{k: v for k, v in data.items() if k != 'source'})
        elif src == 'blk':
            edzed.ExtEvent(blocks['src'], 'go').send(**{k: v for k, v in data.items() if k != 'source'})
        else:
            r1.event(ety, **data)

    def call(send):
        """what the sender gets back: ok | u (EdzedUnknownEvent) | e (another exception) | notready"""
        try:
            send()
        except edzed.EdzedInvalidState as exc:
            errors.append(exc)
            return 'notready'
        except edzed.EdzedUnknownEvent as exc:
            errors.append(exc)
            return 'u'
        except Exception as exc:
            errors.append(exc)
            return 'e'
        return 'ok'

    def make_stim(i):
        op = ops[i]

        def stim():
            loop = asyncio.get_running_loop()
            ret = call(lambda: do_send(op[2], op[3], received_data(op[2], seqs[i], op[4], 'src')))
            marks.append(('ev', i, loop.now_us, len(timeline), outs(), ret, circuit.is_ready()))
        return stim

    async def main(loop):
        nonlocal n
        simtask = asyncio.create_task(circuit.run_forever())
        await circuit.wait_init()
        now = lambda: loop.now_us
        last = 0
        for i, op in enumerate(ops):
            t, pl = op[0], op[1]
            last = max(last, t)
            if pl == 'adv':
                if t >= now():
                    await vtime.advance_to(loop, t)
                    marks.append(('adv', t, now(), len(timeline), outs(), None, circuit.is_ready()))
                continue
            if pl == 'A':
                await vtime.advance_to(loop, t)
                make_stim(i)()
            else:
                if now() < t:
                    await vtime.advance_to(loop, t - 1)
                if pl == 'B':
                    if now() < t:
                        loop.set_us(t)
                    make_stim(i)()
                else:
                    loop.call_at(t / 1e6, make_stim(i))
        t_end = last + scn['tail'] * iv + iv // 2
        await vtime.advance_to(loop, t_end)
        marks.append(('adv', t_end, now(), len(timeline), outs(), None, circuit.is_ready()))
        err = None
        try:
            await circuit.shutdown()
        except BaseException as exc:       # the simulation had been aborted
            err = exc
        await vtime.settle(loop)
        info['stop_t'] = now()
        marks.append(('stop', None, now(), len(timeline), None, err, False))
        for dt, ety, extra in scn.get('post') or []:
            await vtime.advance_to(loop, now() + dt)
            n += 1
            data = received_data('direct', n, extra, 'src')
            ret = call(lambda: r1.event(etype if ety == 'M' else ety, **data))
            info['post_t'].append([now(), ety, data, ret])
            marks.append(('post', (ety, data), now(), len(timeline), outs(), ret, circuit.is_ready()))
        t_fin = now() + 3 * max(iv, scn.get('interval2') or 0) + iv // 2
        await vtime.advance_to(loop, t_fin)
        marks.append(('adv', t_fin, now(), len(timeline), outs(), None, circuit.is_ready()))
        info['aborted'] = circuit.error is not None and not isinstance(circuit.error, asyncio.CancelledError)
        info['abort_seen_at_stop'] = err is not None
        info['error'] = repr(circuit.error)

    vtime.run(main, loop=GuardLoop())

    # ---- protocol lines in the actual order of delivery
    def render(entries):
        ev = [f"{e[1]}@{hexs(e[2])}@{enc_data(e[3])}{'' if e[5] == 'o' else '!' + e[5]}"
              for e in entries if e[0] == 'probe']
        return 'log ' + ('|'.join(ev) if ev else '-')

    def flags(entries, before):
        """one choice per repetition the upstream block sent: did the downstream timeout come first?"""
        fl = ''
        for k, e in enumerate(entries):
            if e[0] == 'arr2' and e[3].get('repeat', 0) != 0:
                prev = entries[k - 1] if k > 0 else before
                tie_first = (prev is not None and prev[0] == 'probe' and prev[1] == e[1]
                             and prev[3].get('repeat', 0) != 0 and prev[3].get('source') == 'r2')
                fl += 'a' if tie_first else 'b'
        return fl or '-'

    def answers(entries):
        """what the destination answered to the deliveries of the step ('-': it accepted all of them)"""
        an = ''.join(e[5] for e in entries if e[0] == 'probe')
        return an if an.strip('o') else '-'

    pos = 0
    for kind, arg, t, upto, o, ret, ready in marks:
        seg = timeline[pos:upto]
        before = timeline[pos - 1] if pos > 0 else None
        pos = upto
        if kind == 'ev':
            op = ops[arg]
            data = received_data(op[2], seqs[arg], op[4], 'src')
            ety = etype if op[3] == 'M' else op[3]
            lines.append(f"repeat event {t} {op[1]} {'d' if op[2] == 'direct' else 'x'} {hexs(ety)} "
                         f"{enc_data(data)} {flags(seg, before)} {answers(seg)}")
            info['arrivals'].append({'t': t, 'pl': op[1], 'match': op[3] == 'M', 'data': data, 'seq': seqs[arg],
                                     'src': op[2], 'etype': ety, 'ret': ret})
        elif kind == 'post':
            ety, data = arg
            lines.append(f"repeat event {t} A d {hexs(etype if ety == 'M' else ety)} {enc_data(data)} "
                         f"{flags(seg, before)} {answers(seg)}")
        elif kind == 'adv':
            lines.append(f"repeat advance {t} {flags(seg, before)} {answers(seg)}")
        else:
            lines.append('repeat stop')
            trace.append('ok' if not seg else 'err LateEvents')
            info.setdefault('obs', []).append({'kind': 'stop', 't': t, 'err': err_kind(ret) if ret else None})
            continue
        trace.append(f"{render(seg)} out {' '.join(str(x) for x in o)} {'run' if ready else 'end'}"
                     + (f" ret {ret}" if ret is not None else ''))
        info.setdefault('obs', []).append({'kind': kind, 't': t, 'outs': o, 'ret': ret, 'ready': ready,
                                           'nprobe': sum(1 for e in timeline[:upto] if e[0] == 'probe'),
                                           'narr': len(info['arrivals']) + len([1 for ob in info.get('obs', []) if ob['kind'] == 'post'])})
    probe_events = [{'t': e[1], 'etype': e[2], 'data': e[3], 'outs': e[4], 'resp': e[5]}
                    for e in timeline if e[0] == 'probe']
    info['errors'] = [repr(e)[:200] for e in errors[:3]]
    mid_events = [{'t': e[1], 'etype': e[2], 'data': e[3]} for e in timeline if e[0] == 'arr2']
    reps = sum(1 for e in probe_events if e['data'].get('repeat'))
    tags = [f"kind={scn['kind']}", f"chain={int(chain)}", f"count={count}",
            f"arrivals={sum(1 for o in ops if o[1] != 'adv')}"]
    tags += sorted({f"pl={o[1]}" for o in ops if o[1] != 'adv'})
    if any(len(o) > 3 and o[3] != 'M' for o in ops):
        tags.append('other-type')
    if scn.get('post'):
        tags.append('post-stop-events')
    for e in probe_events:
        if e['resp'] != 'o':
            tags.append(f"refused-{e['resp']}-{'forward' if not e['data'].get('repeat') else 'repetition'}")
    if info['aborted']:
        tags.append('aborted')
    if any(ln.startswith(('repeat event', 'repeat advance')) and ln.split()[-2] != '-' and 'a' in ln.split()[-2]
           for ln in lines):
        tags.append('tie-downstream-first')
    return {'lines': lines, 'trace': trace, 'tags': tags, 'nontrivial': reps > 0, 'info': info,
            'probe': probe_events, 'mid': mid_events}


# ---------------------------------------------------------------- oracle

def expected_sends(cfg, arrivals, limit):
    """
    The schedule the property text prescribes for ONE Repeat block.
    arrivals: [{'t','pl' in B/T/A/'?', 'etype', 'data', 'stopped'}] in order of delivery
    -> [{'t','rep','data','optional','arr'}]; the k-th repetition of an arrival at t0 is due at t0 + k*I
    while k <= count, strictly before the next matching arrival (at the same instant: only if the loop had
    settled before that arrival, placement A; unknown order '?' -> optional), never after `limit` (stop).
    """
    out = []
    matching = [a for a in arrivals if a['etype'] == cfg['etype']]
    for j, a in enumerate(matching):
        data = dict(a['data'])
        orig = data.get('source')
        data['orig_source'] = orig
        data['source'] = cfg['name']
        out.append({'t': a['t'], 'rep': 0, 'data': {**data, 'repeat': 0}, 'optional': False, 'arr': a})
        if a.get('stopped'):
            continue
        nxt = matching[j + 1] if j + 1 < len(matching) else None
        k = 1
        while cfg['count'] is None or k <= cfg['count']:
            tk = a['t'] + k * cfg['interval']
            if tk > limit:
                break
            optional = False
            if nxt is not None:
                if tk > nxt['t'] or (tk == nxt['t'] and nxt['pl'] in ('B', 'T')):
                    break
                if tk == nxt['t'] and nxt['pl'] == '?':
                    optional = True
            out.append({'t': tk, 'rep': k, 'data': {**data, 'repeat': k}, 'optional': optional, 'arr': a})
            if optional:
                break
            k += 1
    return out


def expected_single(cfg, arrivals, stop_t, answer):
    """
    Reference for ONE Repeat block whose destination may refuse deliveries (written from the property text
    and docs/sblocks1.rst + the documented error handling: an unknown event type is reported to the sender
    and is no reason to stop the simulation; an exception in a service task stops it).
    arrivals in order of delivery: {'t','pl','etype','data','ext','stopped'}; answer(index, etype, data) -> o/u/e
    -> (deliveries [{'t','rep','data','resp','arr'}], rets [ok/u/e/notready per arrival], aborted_at or None)
    """
    exp, rets = [], []
    state = {'cur': None, 'running': True, 'aborted': None, 'n': 0, 'last': None}

    def deliver(t, rep, arr, base):
        data = {**base, 'repeat': rep}
        resp = answer(state['n'], cfg['etype'], data)
        state['n'] += 1
        exp.append({'t': t, 'rep': rep, 'data': data, 'resp': resp, 'arr': arr, 'optional': False})
        return resp

    def abort(t):
        if state['running'] and state['aborted'] is None:
            state['aborted'] = t            # (after the stop there is nothing left to abort)
        state['running'] = False
        state['cur'] = None

    def repetitions(horizon):
        last = state['last']
        if last is not None and last['due'] <= horizon:
            # (seen on the real code) the simulation was aborted by a failed forward while a timeout of that
            # very loop iteration was on its way: the task resumes once more before the clean-up cancels it
            state['last'] = None
            deliver(last['due'], last['k'], last['arr'], last['base'])
        while state['cur'] is not None and state['running'] and state['cur']['due'] <= horizon:
            cur = state['cur']
            if deliver(cur['due'], cur['k'], cur['arr'], cur['base']) != 'o':
                abort(cur['due'])       # an exception inside the main task ends the simulation
                return
            cur['k'] += 1
            cur['due'] += cfg['interval']
            if cfg['count'] is not None and cur['k'] > cfg['count']:
                state['cur'] = None

    stopped = False
    for a in arrivals:
        if a.get('stopped') and not stopped:
            repetitions(stop_t)
            stopped = True
            state['running'] = False
            state['cur'] = None
        # timeouts strictly before the arrival; those of the same instant only if the loop had settled (A)
        repetitions(a['t'] if a['pl'] == 'A' else a['t'] - 1)
        if a.get('ext') and not state['running']:
            rets.append('notready')
            continue
        if a['etype'] != cfg['etype']:
            rets.append('ok')
            continue
        base = dict(a['data'])
        base['orig_source'] = base.get('source')
        base['source'] = cfg['name']
        resp = deliver(a['t'], 0, a, base)
        if resp == 'o':
            rets.append('ok')
            state['last'] = None        # queued: it supersedes a timeout that was still on its way
            if state['running']:
                # the newer event supersedes the older one and restarts the numbering
                state['cur'] = None if cfg['count'] == 0 else \
                    {'arr': a, 'base': base, 'k': 1, 'due': a['t'] + cfg['interval']}
        elif resp == 'u':
            rets.append('u')            # reported to the sender; never repeated; the older event goes on
        else:
            rets.append('e')
            cur = state['cur']
            if state['running'] and cur is not None and cur['due'] <= a['t']:
                state['last'] = cur
            abort(a['t'])
    if not stopped:
        repetitions(stop_t)
    repetitions(stop_t)
    return exp, rets, state['aborted']


def probe_answer(scn):
    refuse = {int(k): v for k, v in scn.get('refuse') or []}

    def answer(index, etype, data):
        if index in refuse:
            if not (etype == 'pp' and 'needed' not in data):
                return refuse[index]
        if etype == 'pp' and 'needed' not in data:
            return 'e'
        return 'o'
    return answer


def oracle_single(scn, res):
    info, probe = res['info'], res['probe']
    stop_t = info['stop_t']
    cfg = {'name': info['names'][0], 'etype': scn['etype'], 'interval': scn['interval'], 'count': scn['count']}
    arr = [{'t': a['t'], 'pl': a['pl'], 'etype': a['etype'], 'data': a['data'], 'seq': a['seq'], 'ord': k + 1,
            'ext': a['src'] != 'direct', 'ret': a['ret']} for k, a in enumerate(info['arrivals'])]
    for t, ety, data, ret in info['post_t']:
        arr.append({'t': t, 'pl': 'A', 'etype': scn['etype'] if ety == 'M' else ety, 'data': data,
                    'stopped': True, 'seq': data['value'], 'ord': len(arr) + 1, 'ext': False, 'ret': ret})
    exp, rets, aborted_at = expected_single(cfg, arr, stop_t, probe_answer(scn))
    refused = {e['arr']['seq'] for e in exp if e['rep'] == 0 and e['resp'] != 'o'}
    # a. what the destination received
    i = 0
    for i, (o, e) in enumerate(itertools.zip_longest(probe, exp)):
        same = (o is not None and e is not None and o['t'] == e['t'] and o['etype'] == cfg['etype']
                and o['data'] == e['data'] and o['resp'] == e['resp'])
        if same:
            continue
        if o is not None and o['data'].get('repeat') and o['data'].get('value') in refused:
            return [{'clause': 'refused_event_not_repeated',
                     'what': f"t={o['t']}: repeat={o['data'].get('repeat')} of the event value={o['data'].get('value')} "
                             f"whose original forwarding had been refused by the destination"}]
        refused_before = [q for q in probe[:i] if q['resp'] != 'o' and not q['data'].get('repeat')]
        if (e is not None and e['rep'] >= 1 and refused_before
                and refused_before[-1]['data'].get('value', -1) > e['arr']['seq']):
            return [{'clause': 'refused_event_not_repeated',
                     'what': f"the event value={e['arr']['seq']} was being repeated (next: repeat={e['rep']} at t={e['t']}); "
                             f"the refused event value={refused_before[-1]['data'].get('value')} must not replace it, "
                             f"but the destination got {None if o is None else (o['t'], o['data'].get('repeat'), o['data'].get('value'))}"}]
        if o is not None and aborted_at is not None and o['t'] > aborted_at and o['data'].get('repeat'):
            return [{'clause': 'nothing_after_stop', 'what': f"t={o['t']}: repetition after the abort at {aborted_at}"}]
        v = classify(o, e, probe[:i], exp, stop_t, False)
        if o is not None and e is not None and o['t'] == e['t'] and o['data'] == e['data'] and o['resp'] != e['resp']:
            v = {'clause': 'destination_answer', 'what': f"t={o['t']}: destination answered {o['resp']}, script says {e['resp']}"}
        return [v]
    # b. what the senders got back
    for a, want in zip(arr, rets):
        if a['ret'] != want:
            clause = 'event_handled' if want == 'ok' else 'refusal_reported_to_sender'
            return [{'clause': clause, 'what': f"event value={a['seq']} at t={a['t']}: sender got {a['ret']}, expected {want} "
                                                f"({info.get('errors')})"}]
    # c. the simulation keeps running unless a repetition was refused / a forward failed with an error
    if info['aborted'] and aborted_at is None:
        return [{'clause': 'simulation_keeps_running',
                 'what': f"simulation aborted ({info.get('error')}); refused original events: {sorted(refused)}"}]
    if aborted_at is not None and not info['aborted']:
        return [{'clause': 'error_in_main_task_stops_simulation', 'what': f"no abort although a delivery failed at {aborted_at}"}]
    for ob in info.get('obs', []):
        if ob['kind'] == 'stop':
            break
        want = aborted_at is None or ob['t'] < aborted_at
        if aborted_at is not None and ob['t'] == aborted_at:
            continue
        if ob.get('ready') != want:
            return [{'clause': 'simulation_keeps_running' if want else 'error_in_main_task_stops_simulation',
                     'what': f"t={ob['t']}: is_ready()={ob.get('ready')}, expected {want}"}]
    # d. outputs
    return check_outputs(scn, res, False, exp, rets)


def oracle(scn, res):
    if scn.get('ctor2'):
        return oracle_ctor2(scn, res)
    if scn.get('ctor'):
        if not res.get('ctor_error'):
            return [{'clause': 'constructor_checks', 'what': f"interval={scn['interval']} count={scn['count']} accepted"}]
        return []
    info, probe = res['info'], res['probe']
    chain = bool(scn.get('chain'))
    if not chain:
        return oracle_single(scn, res)
    name1 = info['names'][0]
    out = []
    stop_t = info['stop_t']
    # 0. (chains run with an accepting destination) every event must be handled; the simulation must not die
    for ob in info.get('obs', []):
        if ob.get('ret') not in (None, 'ok') and ob['kind'] != 'stop':
            out.append({'clause': 'chain_of_two',
                        'what': f"event at t={ob['t']}: sender got {ob['ret']} ({info.get('errors')}; {info.get('error')})"})
            return out
    if info['aborted']:
        out.append({'clause': 'chain_of_two', 'what': f"simulation aborted: {info.get('error')}"})
        return out
    # 1. expected schedule of the first block
    cfg1 = {'name': name1, 'etype': scn['etype'], 'interval': scn['interval'], 'count': scn['count']}
    arr = [{'t': a['t'], 'pl': a['pl'], 'etype': scn['etype'] if a['match'] else 'other', 'data': a['data'],
            'seq': a['seq'], 'ord': k + 1} for k, a in enumerate(info['arrivals'])]
    for t, ety, data, _ret in info['post_t']:
        arr.append({'t': t, 'pl': 'A', 'etype': scn['etype'] if ety == 'M' else ety, 'data': data,
                    'stopped': True, 'seq': data['value'], 'ord': len(arr) + 1})
    exp = exp1 = expected_sends(cfg1, arr, stop_t)
    if chain:
        cfg2 = {'name': 'r2', 'etype': scn['etype2'], 'interval': scn['interval2'], 'count': scn['count2']}
        arr2 = []
        for e in exp:
            a = e['arr']
            arr2.append({'t': e['t'], 'pl': a['pl'] if e['rep'] == 0 else '?', 'etype': scn['etype'],
                         'data': e['data'], 'stopped': a.get('stopped') or e['t'] > stop_t, 'seq': a['seq'],
                         'rep1': e['rep']})
        exp = expected_sends(cfg2, arr2, stop_t)
    # 2. match observed against expected (optional = either order of two tasks woken in one iteration)
    if chain:
        # what the first block delivered to the second one
        bad = match(res['mid'], exp1, scn['etype'], stop_t, chain)
        if bad:
            bad['what'] = 'first block of the chain: ' + bad['what']
            return [bad]
    bad = match(probe, exp, (cfg2 if chain else cfg1)['etype'], stop_t, chain)
    if bad:
        out.append(bad)
    # 3. the output equals the repeat number of the last event each block sent
    if not out:
        out.extend(check_outputs(scn, res, chain, exp1))
    return out


def match(observed, exp, etype, stop_t, chain):
    i = j = 0
    while i < len(observed) or j < len(exp):
        o = observed[i] if i < len(observed) else None
        e = exp[j] if j < len(exp) else None
        if o is not None and e is not None and o['t'] == e['t'] and o['etype'] == etype and o['data'] == e['data']:
            i += 1
            j += 1
            continue
        if e is not None and e['optional']:
            j += 1
            continue
        return classify(o, e, observed[:i], exp, stop_t, chain)
    return None


def classify(o, e, seen, exp, stop_t, chain):
    def d(x):
        return None if x is None else f"t={x['t']} repeat={x['data'].get('repeat')} value={x['data'].get('value')}"
    what = f"probe got {d(o)} where the schedule has {d(e)}"
    if o is None:
        clause = 'forward_immediately_repeat0' if e['rep'] == 0 else 'repetition_schedule'
        return {'clause': clause, 'what': 'missing: ' + what}
    rep = o['data'].get('repeat')
    val = o['data'].get('value')
    if o['t'] > stop_t and rep:
        return {'clause': 'nothing_after_stop', 'what': what}
    if e is not None and o['t'] == e['t'] and rep == e['data'].get('repeat') and val == e['data'].get('value'):
        diff = {k: (o['data'].get(k, '<absent>'), e['data'].get(k, '<absent>'))
                for k in set(o['data']) | set(e['data']) if o['data'].get(k, '<absent>') != e['data'].get(k, '<absent>')}
        return {'clause': 'data_preserved_source_rewritten', 'what': f"{what}: items (got, expected) {diff}"}
    if rep and seen and seen[-1]['t'] == o['t'] and seen[-1]['data'].get('repeat') == 0:
        return {'clause': 'newer_restarts_and_supersedes',
                'what': f"{what}: re-sent right after a newer event had been forwarded in the same instant"}
    if val not in {x['data'].get('value') for x in exp}:
        return {'clause': 'other_types_ignored', 'what': what}
    newer = [s for s in seen if s['data'].get('repeat') == 0 and s['data'].get('value', -1) > (val if val is not None else -1)]
    if rep and newer:
        return {'clause': 'newer_restarts_and_supersedes',
                'what': f"{what}: re-sent after the newer event value={newer[-1]['data'].get('value')} had arrived"}
    if rep:
        return {'clause': 'repetition_schedule', 'what': what}
    return {'clause': 'forward_immediately_repeat0', 'what': what}


def check_outputs(scn, res, chain, exp1, rets=None):
    """Repeat.output = repeat value of the last event that block sent (0 before the first)"""
    info, probe = res['info'], res['probe']
    last = info['names'][-1]
    # at the moment the probe receives an event of the last block, that block's output already shows the number
    for p in probe:
        if p['outs'][-1] != p['data'].get('repeat'):
            return [{'clause': 'output_is_repeat',
                     'what': f"at t={p['t']} {last} sent repeat={p['data'].get('repeat')} with output {p['outs'][-1]}"}]
    arrivals = iter(info['arrivals'])
    posts = iter(info['post_t'])
    rets = iter(rets) if rets is not None else itertools.repeat('ok')
    for ob in info.get('obs', []):
        if ob['kind'] == 'stop' or ob.get('outs') is None:
            if ob['kind'] == 'ev':
                next(arrivals)
                next(rets)
            elif ob['kind'] == 'post':
                next(posts)
                next(rets)
            continue
        if ob['kind'] == 'adv':
            # the loop has settled at ob['t']: (schedule of the first block was confirmed above for a single
            # block; in a chain it is the expected one) / what the probe saw for the last block
            delivered = ob['narr']
            if chain:
                sent1 = [e for e in exp1 if e['t'] <= ob['t'] and e['arr']['ord'] <= delivered]
                want = [sent1[-1]['rep'] if sent1 else 0]
            else:
                sofar = probe[:ob['nprobe']]        # (already confirmed to be the expected deliveries)
                want = [sofar[-1]['data'].get('repeat') if sofar else 0]
            if chain:
                sofar = probe[:ob['nprobe']]
                want.append(sofar[-1]['data'].get('repeat') if sofar else 0)
            if ob['outs'] != want:
                return [{'clause': 'output_is_repeat',
                         'what': f"t={ob['t']}: outputs {ob['outs']}, repeat numbers of the last events sent {want}"}]
        else:
            if ob['kind'] == 'post':
                matching = next(posts)[1] == 'M'
            else:
                matching = next(arrivals)['match']
            ret = next(rets)
            # sampled right after a matching event was handled: the original was just forwarded with repeat=0
            # (also when the destination refused it; not after an abort, not when the block was not reached)
            if matching and ret in ('ok', 'u') and ob['outs'][0] != 0:
                return [{'clause': 'output_is_repeat',
                         'what': f"t={ob['t']}: output {ob['outs'][0]} right after forwarding an event with repeat=0"}]
    return []
