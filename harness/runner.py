"""
Common driver of all checks:  ./check <ID> [--tier quick|thorough] [--replay file]

Verdict logic (DESIGN.md 2.4):
  1. regenerate Gen/Constants.lean from $EDZED_SRC, build driver + property theorems;
  2. audit axioms / forbidden tokens of the property's theorems;
  3. correspondence: corpus + generated scenarios through the implementation and the
     Lean model's executable definitions (line protocol), canonical traces diffed;
  4. the independent Python oracle of the property runs on every implementation trace
     (the search for a failing input);
  5. exit 0 / 1 (VIOLATION line) / 2 (infrastructure), evidence written.
"""
import argparse
import collections
import hashlib
import importlib
import json
import multiprocessing as mp
import os
import random
import sys
import time
import traceback

from . import leantie, vtime

VERIF = leantie.VERIF
EVIDENCE_DIR = os.path.join(VERIF, 'evidence')
REPLAY_DIR = os.path.join(VERIF, 'replay')
CORPUS_DIR = os.path.join(VERIF, 'corpus')
KNOWN = os.path.join(VERIF, 'known_findings.json')

TRUSTED_BASE = [
    "Lean 4.33.0 kernel (re-checked by leanchecker in the thorough tier)",
    "axioms reported by #print axioms, allowed: propext, Classical.choice, Quot.sound",
    "Lean compiler/runtime executing the model definitions in the line-protocol driver",
    "tools/extract.py (generated constants/tables) and harness/ (generators, canonicalisation, "
    "virtual-time loop, patched clocks)",
    "modelled, not verified: CPython semantics (==, truthiness, dict, datetime, re, float rounding), "
    "asyncio scheduling, user callbacks (represented by scripts)",
]


def load_known(prop_id):
    try:
        with open(KNOWN, encoding='utf-8') as f:
            entries = json.load(f)
    except FileNotFoundError:
        return []
    return [e for e in entries if e.get('property') == prop_id and e.get('status') == 'known']


def match_known(known, viol):
    """a violation is attributed to an entry only if every item of its signature matches"""
    sig = dict(viol.get('sig') or {})
    sig.setdefault('clause', viol.get('clause'))
    for e in known:
        want = e.get('signature') or {}
        if want and all(sig.get(k) == v for k, v in want.items()):
            return e
    return None


def scn_hash(obj):
    return hashlib.sha1(json.dumps(obj, sort_keys=True, default=str).encode()).hexdigest()[:12]


# ---------------------------------------------------------------- worker side

_MOD = None
_DRIVER_OK = True


def _init_worker(modname, driver_ok):
    global _MOD, _DRIVER_OK
    _MOD = importlib.import_module(modname)
    _DRIVER_OK = driver_ok
    import logging
    logging.disable(logging.CRITICAL)
    import warnings
    warnings.simplefilter('ignore')


_WATCHDOG_HITS = [0]     # per worker process


def eval_one(mod, scn, driver_ok=True, model_out=None):
    """Run one scenario through implementation, model and oracle."""
    rec = {'scn': scn, 'infra': None, 'div': None, 'viol': [], 'tags': [], 'nontrivial': True,
           'trace': None, 'model': None, 'lines': None}
    # watchdog for a busy loop of the code under test (an event loop that never goes idle): real time per
    # scenario is bounded; scenarios take milliseconds to a few seconds on the unchanged tree
    import signal
    limit = int(os.environ.get('VERIF_SCENARIO_LIMIT_S', '240'))
    if _WATCHDOG_HITS[0]:
        # a tree on which scenarios hang: do not spend the full limit on every one of them
        limit = min(limit, 5)

    def _busy(signum, frame):
        _WATCHDOG_HITS[0] += 1
        raise vtime.BusyLoop(f'the scenario did not finish within {limit} s of real time (busy loop?)')
    can_alarm = hasattr(signal, 'SIGALRM') and __import__('threading').current_thread() is __import__('threading').main_thread()
    if can_alarm:
        old_handler = signal.signal(signal.SIGALRM, _busy)
        # repeating: an exception raised while a destructor / weakref callback runs is swallowed by Python
        signal.setitimer(signal.ITIMER_REAL, limit, 2.0)
    try:
        res = mod.run_impl(scn)
    except (vtime.Deadlock, vtime.BusyLoop) as err:
        # the REAL code hangs on this scenario (it never does on the unchanged tree): whatever the property
        # promises about the outcome of this scenario is not delivered
        rec['viol'] = [{'clause': 'terminates', 'what': f'the implementation never finishes this scenario: {err}'}]
        rec['lines'], rec['trace'] = [], []
        return rec
    except Exception as err:
        # safety net: an exception that ORIGINATES in the code under test and that the property's scenario
        # runner does not expect on any path (it never happens on the unchanged tree) is a behaviour of the
        # implementation, not a fault of the machinery: report it instead of giving up with exit 2
        tb = traceback.extract_tb(err.__traceback__)
        src = os.path.realpath(leantie.EDZED_SRC) + os.sep
        if tb and os.path.realpath(tb[-1].filename).startswith(src):
            last = tb[-1]
            rec['viol'] = [{'clause': 'no_unexpected_exception',
                            'what': f'the implementation raised {type(err).__name__}: {str(err)[:200]} at '
                                    f'{os.path.relpath(last.filename, src)}:{last.lineno} ({last.name}); no path of '
                                    'this scenario raises it on the unchanged code'}]
            rec['lines'], rec['trace'] = [], []
            return rec
        rec['infra'] = 'run_impl: ' + traceback.format_exc()[-1500:]
        return rec
    finally:
        if can_alarm:
            signal.setitimer(signal.ITIMER_REAL, 0)
            signal.signal(signal.SIGALRM, old_handler)
    rec['lines'] = res['lines']
    rec['trace'] = res['trace']
    rec['tags'] = res.get('tags', [])
    rec['nontrivial'] = res.get('nontrivial', True)
    rec['res'] = res
    assert len(res['lines']) == len(res['trace']), (len(res['lines']), len(res['trace']), scn)
    try:
        rec['viol'] = list(mod.oracle(scn, res) or [])
    except Exception:
        rec['infra'] = 'oracle: ' + traceback.format_exc()[-1500:]
    return rec


def compare(rec, model_out):
    rec['model'] = model_out
    for i, (a, b) in enumerate(zip(rec['trace'], model_out)):
        if b == 'bad-op':
            rec['infra'] = f'driver answered bad-op to: {rec["lines"][i]}'
            return
        if b == 'unsupported':
            # the model declares the input outside its domain: not compared, counted in the distribution
            rec['unsupported'] = rec.get('unsupported', 0) + 1
            continue
        if a != b:
            rec['div'] = {'index': i, 'line': rec['lines'][i], 'impl': a, 'model': b}
            return


def process_chunk(chunk):
    mod = _MOD
    recs = []
    for scn in chunk:
        if _WATCHDOG_HITS[0] >= 3:
            # the tree hangs on scenario after scenario: three witnesses per worker are enough, the rest of
            # the chunk is skipped (the verdict is a violation anyway; the evidence counts what was run)
            break
        recs.append(eval_one(mod, scn))
    if _DRIVER_OK:
        lines = []
        for r in recs:
            if r['lines'] is not None:
                lines.extend(r['lines'])
        try:
            out = leantie.run_driver(lines)
        except Exception as err:
            for r in recs:
                r['infra'] = r['infra'] or f'driver: {err}'
            out = None
        if out is not None:
            pos = 0
            for r in recs:
                if r['lines'] is None:
                    continue
                n = len(r['lines'])
                compare(r, out[pos:pos + n])
                pos += n
    summary = []
    for r in recs:
        h = hashlib.sha1('\n'.join((r['lines'] or []) + (r['trace'] or [])).encode()).hexdigest()[:16]
        keep = r['infra'] or r['div'] or r['viol']
        summary.append({
            'hash': h, 'tags': r['tags'] + (['model-unsupported'] if r.get('unsupported') else []),
            'nontrivial': r['nontrivial'],
            'nlines': len(r['lines'] or []),
            'infra': r['infra'], 'div': r['div'], 'viol': r['viol'],
            'scn': r['scn'] if keep else None,
            'trace': r['trace'] if keep else None, 'model': r['model'] if keep else None,
            'lines': r['lines'] if keep else None,
        })
    return summary


def single(mod, scn, driver_ok):
    """evaluate one scenario in-process (replay, shrinking)"""
    r = eval_one(mod, scn)
    if driver_ok and r['lines'] is not None and not r['infra']:
        try:
            compare(r, leantie.run_driver(r['lines']))
        except Exception as err:
            r['infra'] = f'driver: {err}'
    return r


def failure_kind(r, known):
    """classification used to keep a shrink candidate: same kind of failure"""
    for v in r['viol']:
        if not match_known(known, v):
            return ('viol', v.get('clause'))
    if r['div'] and not r['viol']:
        # (a divergence on a scenario with a known finding is explained by it -- see the verdict below --
        # and must not be what a divergence is shrunk to)
        return ('div',)
    return None


def shrink(mod, scn, driver_ok, known, budget=150):
    if not hasattr(mod, 'shrink'):
        return scn
    base = single(mod, scn, driver_ok)
    kind = failure_kind(base, known)
    if kind is None:
        return scn
    best, spent, progress = scn, 0, True
    while progress and spent < budget:
        progress = False
        for cand in mod.shrink(best):
            spent += 1
            if spent > budget:
                break
            try:
                r = single(mod, cand, driver_ok)
            except Exception:
                continue
            if not r['infra'] and failure_kind(r, known) == kind:
                best, progress = cand, True
                break
    return best


def shrink_ops(scn, key='ops'):
    """generic candidates: drop one element / halves of scn[key]"""
    ops = scn.get(key) or []
    n = len(ops)
    if n > 3:
        yield {**scn, key: ops[:n // 2]}
        yield {**scn, key: ops[n // 2:]}
    for i in reversed(range(n)):
        yield {**scn, key: ops[:i] + ops[i + 1:]}


# ---------------------------------------------------------------- main

def write_replay(prop_id, payload):
    os.makedirs(REPLAY_DIR, exist_ok=True)
    path = os.path.join(REPLAY_DIR, f'{prop_id}-{scn_hash(payload)}.json')
    with open(path, 'w', encoding='utf-8') as f:
        json.dump(payload, f, indent=1, default=str)
    return path


def write_evidence(prop_id, ev):
    os.makedirs(EVIDENCE_DIR, exist_ok=True)
    path = os.path.join(EVIDENCE_DIR, f'{prop_id}.json')
    tmp = path + f'.{os.getpid()}.tmp'
    with open(tmp, 'w', encoding='utf-8') as f:
        json.dump(ev, f, indent=1, default=str)
    os.replace(tmp, path)


def load_corpus(prop_id):
    d = os.path.join(CORPUS_DIR, prop_id)
    out = []
    if os.path.isdir(d):
        for name in sorted(os.listdir(d)):
            if name.endswith('.json'):
                with open(os.path.join(d, name), encoding='utf-8') as f:
                    out.append(json.load(f))
    return out


def main(argv=None):
    ap = argparse.ArgumentParser()
    ap.add_argument('prop')
    ap.add_argument('--tier', default=os.environ.get('VERIF_TIER') or 'quick',
                    choices=['quick', 'thorough'])
    ap.add_argument('--replay')
    ap.add_argument('--jobs', type=int, default=int(os.environ.get('VERIF_JOBS', '0')) or min(16, os.cpu_count() or 4))
    ap.add_argument('--limit', type=int, default=0, help='cap the number of generated scenarios')
    args = ap.parse_args(argv)
    prop_id = args.prop.upper()
    tier = args.tier
    try:
        seed = int(os.environ.get('VERIF_SEED', '0') or 0)
    except ValueError:
        seed = 0
    t0 = time.time()
    sys.path.insert(0, leantie.EDZED_SRC)
    modname = f'harness.props.{prop_id.lower()}'
    try:
        mod = importlib.import_module(modname)
    except Exception:
        print(f'infrastructure error: cannot load {modname}\n{traceback.format_exc()}', file=sys.stderr)
        return 2
    import logging
    logging.disable(logging.CRITICAL)
    known = load_known(prop_id)

    # 1+2: the Lean side
    tie = leantie.prepare(prop_id)
    thms = leantie.theorems_of(prop_id)
    axioms, audit_problems = ({}, [])
    if tie['proofs_ok']:
        try:
            axioms, audit_problems = leantie.audit(prop_id)
        except Exception as err:
            print(f'infrastructure error: audit failed: {err}', file=sys.stderr)
            return 2
    discharged = [t for t in thms if t[0] in axioms and not any(p.startswith(t[0] + ':') for p in audit_problems)]
    broken = list(tie['broken']) + audit_problems
    checker_ok = None
    if tier == 'thorough' and tie['proofs_ok'] and os.environ.get('VERIF_NO_LEANCHECKER') != '1':
        try:
            checker_ok, checker_log = leantie.leanchecker(prop_id)
            if not checker_ok:
                broken.append('leanchecker: ' + checker_log[-300:])
        except Exception as err:
            print(f'infrastructure error: leanchecker: {err}', file=sys.stderr)
            return 2
    driver_ok = tie['driver_ok']

    # 3+4: scenarios
    if args.replay:
        with open(args.replay, encoding='utf-8') as f:
            rp = json.load(f)
        scns = [rp['scenario']] if rp.get('scenario') is not None else []
        corpus_n = 0
    else:
        rng = random.Random(seed * 1000003 + 17)
        corpus = load_corpus(prop_id)
        corpus_n = len(corpus)
        scns = corpus + list(mod.scenarios(rng, tier))
        if args.limit:
            scns = scns[:args.limit]
    exhaustive = bool(getattr(mod, 'EXHAUSTIVE', {}).get(tier, False)) and not args.replay and not args.limit

    jobs = max(1, args.jobs)
    nchunks = max(1, min(len(scns), jobs * 4))
    chunks = [scns[i::nchunks] for i in range(nchunks)]
    summaries = []
    if scns:
        if jobs == 1 or len(scns) < 8:
            _init_worker(modname, driver_ok)
            for c in chunks:
                summaries.extend(process_chunk(c))
        else:
            ctx = mp.get_context('fork')
            with ctx.Pool(jobs, initializer=_init_worker, initargs=(modname, driver_ok)) as pool:
                for s in pool.imap_unordered(process_chunk, chunks):
                    summaries.extend(s)

    infra = [s for s in summaries if s['infra']]
    if infra:
        print(f'infrastructure error in {len(infra)} scenario(s), first:\n{infra[0]["infra"]}\n'
              f'scenario: {json.dumps(infra[0]["scn"], default=str)[:2000]}', file=sys.stderr)
        rest = [s for s in summaries if not s['infra']]
        changed = bool(broken) or any(s['div'] or [v for v in s['viol'] if not match_known(known, v)] for s in rest)
        if not changed:
            return 2
        # The tree under test is not the one the machinery was calibrated on: a proof obligation, the correspondence
        # or the property itself is broken on OTHER evidence of this very run.  A harness that is not total on what
        # the changed code answers (rounds nine and ten: an oracle indexing an empty result list, abs(None)) is then a
        # consequence of the change and no reason to end with exit 2: the verdict is formed from the remaining
        # scenarios and the crash is named in the replay file.
        broken.append(f'harness not total on the changed code: {len(infra)} scenario(s) could not be judged, first: '
                      + infra[0]['infra'].strip().splitlines()[-1][:300])
        summaries = rest

    hashes = set()
    distinct_nontrivial = 0
    tagcount = collections.Counter()
    lines_compared = 0
    for s in summaries:
        lines_compared += s['nlines']
        for t in s['tags']:
            tagcount[t] += 1
        if s['hash'] not in hashes:
            hashes.add(s['hash'])
            if s['nontrivial']:
                distinct_nontrivial += 1

    # 5: verdict
    out_lines = []
    violations = 0
    known_printed = set()
    reported_clauses = set()
    failing_found = False
    for s in summaries:
        for v in s['viol']:
            e = match_known(known, v)
            if e is not None:
                if e['id'] not in known_printed:
                    known_printed.add(e['id'])
                    out_lines.append(f"KNOWN-FINDING: property={prop_id} {e['id']}: {e['what']}")
                continue
            failing_found = True
            clause = v.get('clause')
            if clause in reported_clauses:
                continue
            reported_clauses.add(clause)
            small = shrink(mod, s['scn'], driver_ok, known)
            r = single(mod, small, driver_ok)
            vv = [x for x in r['viol'] if x.get('clause') == clause] or [v]
            path = write_replay(prop_id, {
                'property': prop_id, 'kind': 'impl-violation', 'seed': seed, 'tier': tier,
                'scenario': small, 'lines': r['lines'], 'impl_trace': r['trace'],
                'model_trace': r['model'], 'oracle': vv[0], 'edzed_src': leantie.EDZED_SRC,
                'broken': broken})
            violations += 1
            out_lines.append(f'VIOLATION property={prop_id} replay={path}')
    divs = [s for s in summaries if s['div'] and not [v for v in s['viol'] if not match_known(known, v)]]
    # a divergence explained by a known finding on the same scenario is not reported again
    divs = [s for s in divs if not s['viol']]
    if divs and not failing_found:
        s = divs[0]
        small = shrink(mod, s['scn'], driver_ok, known)
        r = single(mod, small, driver_ok)
        path = write_replay(prop_id, {
            'property': prop_id, 'kind': 'divergence', 'seed': seed, 'tier': tier,
            'scenario': small, 'lines': r['lines'], 'impl_trace': r['trace'], 'model_trace': r['model'],
            'divergence': r['div'] or s['div'],
            'broken': ['correspondence model <-> implementation (' + modname + ')'] + broken,
            'divergent_scenarios': len(divs), 'edzed_src': leantie.EDZED_SRC})
        violations += 1
        out_lines.append(f'VIOLATION property={prop_id} replay={path} no-failing-input-found')
    elif broken and not failing_found:
        path = write_replay(prop_id, {
            'property': prop_id, 'kind': 'proof-broken', 'seed': seed, 'tier': tier,
            'scenario': None, 'broken': broken, 'log': tie['log'][-4000:],
            'edzed_src': leantie.EDZED_SRC})
        violations += 1
        out_lines.append(f'VIOLATION property={prop_id} replay={path} no-failing-input-found')

    wall = time.time() - t0
    samples = []
    for s_scn in scns[corpus_n:corpus_n + 2] + scns[-1:]:
        samples.append(s_scn)
    ev = {
        'property_id': prop_id, 'tier': tier, 'seed': seed, 'level': 'proof',
        'coverage': {
            'obligations': len(thms),
            'discharged': len(discharged),
            'checker_cmd': f'cd lean && lake build EdzedProps.{prop_id} && lake env lean <#print axioms of each theorem>'
                           + (' && lake env leanchecker EdzedProps.' + prop_id if tier == 'thorough' else ''),
            'trusted_base': TRUSTED_BASE,
            'theorems': [{'name': t[0], 'tag': t[3], 'axioms': axioms.get(t[0])} for t in thms],
            'partial_theorems': [t[0] for t in thms if t[3] == 'partial'],
            'broken': broken,
            'leanchecker_ok': checker_ok,
            'evaluations': len(summaries),
            'distinct_nontrivial': distinct_nontrivial,
            'rule': getattr(mod, 'RULE', ''),
            'samples': samples[:3],
            'exhaustive': exhaustive,
            'correspondence': {
                'scenarios': len(summaries), 'corpus': corpus_n, 'lines_compared': lines_compared,
                'divergent': len([s for s in summaries if s['div']]),
                'driver': 'compiled lean_exe edzed_model' if driver_ok else 'NOT BUILT',
            },
            'oracle_violations': sum(len(s['viol']) for s in summaries),
            'known_findings_seen': sorted(known_printed),
            'distribution': dict(sorted(tagcount.items())),
            'edzed_src': leantie.EDZED_SRC,
        },
        'assumptions': list(getattr(mod, 'ASSUMPTIONS', [])),
        'wall_s': round(wall, 2),
        'violations': violations,
    }
    write_evidence(prop_id, ev)
    for line in out_lines:
        print(line)
    print(f'{prop_id} {tier}: theorems {len(discharged)}/{len(thms)} discharged, '
          f'{len(summaries)} scenarios ({distinct_nontrivial} distinct non-trivial), '
          f'{lines_compared} lines compared, violations={violations}, {wall:.1f}s')
    return 1 if violations else 0


if __name__ == '__main__':
    sys.exit(main())
