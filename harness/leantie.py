"""
Tie between the Lean project and the current source tree:
  * regenerate Gen/Constants.lean (tools/extract.py) and `lake build` under a lock;
  * discover the property theorems of EdzedProps/<id>.lean and audit their axioms;
  * run the compiled line-protocol driver.
"""
import fcntl
import hashlib
import json
import os
import re
import subprocess
import sys
import time

VERIF = os.path.dirname(os.path.dirname(os.path.abspath(__file__)))
LEAN_DIR = os.path.join(VERIF, 'lean')
DRIVER = os.path.join(LEAN_DIR, '.lake', 'build', 'bin', 'edzed_model')
GEN = os.path.join(LEAN_DIR, 'EdzedModel', 'Gen', 'Constants.lean')
ALLOWED_AXIOMS = {'propext', 'Classical.choice', 'Quot.sound'}
FORBIDDEN = re.compile(
    r'\b(sorry|admit|native_decide|bv_decide|implemented_by)\b|^\s*axiom\s|\bunsafe\s|maxHeartbeats\s+0\b',
    re.M)
EDZED_SRC = os.environ.get('EDZED_SRC', '/repo')
PY = sys.executable


class Lock:
    def __enter__(self):
        self.f = open(os.path.join(LEAN_DIR, '.build.lock'), 'w')
        fcntl.flock(self.f, fcntl.LOCK_EX)
        return self

    def __exit__(self, *exc):
        fcntl.flock(self.f, fcntl.LOCK_UN)
        self.f.close()


def strip_comments(text):
    """remove /- ... -/ (nested) and -- comments"""
    out, i, depth, n = [], 0, 0, len(text)
    while i < n:
        if text.startswith('/-', i):
            depth += 1
            i += 2
        elif depth and text.startswith('-/', i):
            depth -= 1
            i += 2
        elif depth:
            if text[i] == '\n':
                out.append('\n')
            i += 1
        elif text.startswith('--', i):
            while i < n and text[i] != '\n':
                i += 1
        else:
            out.append(text[i])
            i += 1
    return ''.join(out)


def theorems_of(prop_id):
    """[(full name, short name, line, tag)] of the property file EdzedProps/<id>.lean"""
    path = os.path.join(LEAN_DIR, 'EdzedProps', f'{prop_id}.lean')
    res, ns = [], []
    with open(path, encoding='utf-8') as f:
        text = strip_comments(f.read())
    for lineno, line in enumerate(text.split('\n'), start=1):
        m = re.match(r'\s*namespace\s+(\S+)', line)
        if m:
            ns.append(m.group(1))
            continue
        m = re.match(r'\s*end\s+(\S+)', line)
        if m and ns and ns[-1] == m.group(1):
            ns.pop()
            continue
        m = re.match(r'\s*(?:@\[[^\]]*\]\s*)?(?:private\s+|protected\s+)?theorem\s+(\S+)', line)
        if m:
            short = m.group(1)
            full = '.'.join(ns + [short])
            res.append((full, short, lineno, 'partial' if short.endswith('_partial') else 'full'))
    return res


def imports_closure(prop_id):
    """source files (relative to LEAN_DIR) the property file depends on, transitively"""
    seen, todo = [], [f'EdzedProps/{prop_id}.lean']
    while todo:
        rel = todo.pop()
        if rel in seen or not os.path.exists(os.path.join(LEAN_DIR, rel)):
            continue
        seen.append(rel)
        with open(os.path.join(LEAN_DIR, rel), encoding='utf-8') as f:
            for line in f:
                m = re.match(r'\s*import\s+(Edzed\S+)', line)
                if m:
                    todo.append(m.group(1).replace('.', '/') + '.lean')
    return seen


def forbidden_tokens(prop_id):
    hits = []
    for rel in imports_closure(prop_id):
        with open(os.path.join(LEAN_DIR, rel), encoding='utf-8') as f:
            text = strip_comments(f.read())
        for m in FORBIDDEN.finditer(text):
            hits.append(f'{rel}: {m.group(0).strip()}')
    return hits


GEN_TR = os.path.join(LEAN_DIR, 'EdzedModel', 'Gen', 'Translated.lean')


def run_extractor():
    """both generated parts of the tie: constants/tables (extract.py) and the translated functions (py2lean.py)"""
    env = dict(os.environ, EDZED_SRC=EDZED_SRC)
    ok, log = True, ''
    for tool, out in (('extract.py', GEN), ('py2lean.py', GEN_TR)):
        p = subprocess.run(
            [PY, os.path.join(VERIF, 'tools', tool), out],
            capture_output=True, text=True, env=env, timeout=120)
        ok = ok and p.returncode == 0
        log += (p.stdout + p.stderr)[-4000:]
    return ok, log


def lake(*args, timeout=1500):
    p = subprocess.run(['lake', *args], cwd=LEAN_DIR, capture_output=True, text=True, timeout=timeout)
    return p.returncode, p.stdout + p.stderr


def prepare(prop_id, clean=False):
    """
    Regenerate constants, build the driver and the property module.
    Returns dict: extractor_ok, driver_ok, proofs_ok, broken (list of names), log
    """
    res = {'extractor_ok': True, 'driver_ok': True, 'proofs_ok': True, 'broken': [], 'log': ''}
    with Lock():
        ok, log = run_extractor()
        if not ok:
            res['extractor_ok'] = False
            res['broken'].append('translator tools/extract.py / tools/py2lean.py')
            res['log'] += log
        elif 'UNTRANSLATABLE' in log:
            # a function outside the translator's subset: its definition is omitted and the theorems that
            # mention it will not compile (reported below as broken obligations of their property)
            res['log'] += '\n'.join(l for l in log.split('\n') if l.startswith('UNTRANSLATABLE')) + '\n'
        if clean:
            lake('clean')
        rc, out = lake('build', 'edzed_model')
        if rc != 0:
            res['driver_ok'] = False
            res['broken'].append('model build (edzed_model driver)')
            res['log'] += out[-6000:]
        rc, out = lake('build', f'EdzedProps.{prop_id}')
        if rc != 0:
            res['proofs_ok'] = False
            res['log'] += out[-6000:]
            thms = theorems_of(prop_id)
            named = set()
            for m in re.finditer(r'error: (\S+?\.lean):(\d+):\d+', out):
                rel, line = m.group(1), int(m.group(2))
                if rel.endswith(f'EdzedProps/{prop_id}.lean'):
                    cand = [t for t in thms if t[2] <= line]
                    if cand:
                        named.add(cand[-1][0])
                else:
                    named.add(f'{rel}:{line}')
            res['broken'].extend(sorted(named) or [f'EdzedProps.{prop_id} (build failed)'])
    return res


def audit(prop_id):
    """#print axioms for every theorem of the property. Returns (axioms: {thm: [axioms]}, problems)"""
    thms = theorems_of(prop_id)
    src = f'import EdzedProps.{prop_id}\n' + ''.join(f'#print axioms {t[0]}\n' for t in thms)
    tmp = os.path.join(LEAN_DIR, f'.audit_{prop_id}_{os.getpid()}.lean')
    with open(tmp, 'w') as f:
        f.write(src)
    try:
        p = subprocess.run(['lake', 'env', 'lean', tmp], cwd=LEAN_DIR, capture_output=True,
                           text=True, timeout=600)
    finally:
        os.unlink(tmp)
    out = p.stdout + p.stderr
    axioms, problems = {}, []
    # "'X' depends on axioms: [a, b]"  or  "'X' does not depend on any axioms"
    for m in re.finditer(r"'([^']+)' depends on axioms: \[([^\]]*)\]", out, re.S):
        axioms[m.group(1)] = [a.strip() for a in m.group(2).replace('\n', ' ').split(',') if a.strip()]
    for m in re.finditer(r"'([^']+)' does not depend on any axioms", out):
        axioms[m.group(1)] = []
    for full, _short, _line, _tag in thms:
        if full not in axioms:
            problems.append(f'{full}: not checked ({out.strip()[-300:]})')
        else:
            bad = [a for a in axioms[full] if a not in ALLOWED_AXIOMS]
            if bad:
                problems.append(f'{full}: forbidden axioms {bad}')
    for hit in forbidden_tokens(prop_id):
        problems.append(f'forbidden token: {hit}')
    return axioms, problems


def run_driver(lines, timeout=600):
    """Feed lines to the compiled driver; return the list of reply lines."""
    if not lines:
        return []
    data = '\n'.join(lines) + '\n'
    p = subprocess.run([DRIVER], input=data, capture_output=True, text=True, timeout=timeout)
    if p.returncode != 0:
        raise RuntimeError(f'driver failed rc={p.returncode}: {p.stderr[-2000:]}')
    out = p.stdout.split('\n')
    if out and out[-1] == '':
        out.pop()
    if len(out) != len(lines):
        raise RuntimeError(f'driver returned {len(out)} lines for {len(lines)} requests')
    return out


def leanchecker(prop_id, timeout=1500):
    p = subprocess.run(['lake', 'env', 'leanchecker', f'EdzedProps.{prop_id}'], cwd=LEAN_DIR,
                       capture_output=True, text=True, timeout=timeout)
    return p.returncode == 0, (p.stdout + p.stderr)[-2000:]
