"""
Virtual time for the correspondence harness.

VLoop  -- asyncio loop with an INTEGER microsecond clock; select() never blocks; when
          nothing is ready the clock jumps to the earliest non-cancelled timer.
World  -- virtual wall clock (time.time(), datetime.now()) tied to the loop clock by an
          offset; survives several consecutive loops (restarts); jump() changes the offset;
          every read advances the clock by `read_latency_us` (a float clock or a zero
          latency livelocks cron's sleep loop, see DESIGN.md 2.3).
install(world) patches the module attributes edzed reads its clocks from -- in THIS process
only; nothing in /repo is modified.
"""
import asyncio
import copy
import datetime as _dt
import heapq
import math
import time as _time

EPOCH = _dt.datetime(1970, 1, 1)
_real_monotonic = _time.monotonic
_real_sleep = _time.sleep


class Deadlock(RuntimeError):
    """the loop has nothing ready and no timer, and stayed like that for IDLE_LIMIT_S of real time
    (threads of an executor answer within milliseconds): whatever is awaited will never finish"""


class BusyLoop(KeyboardInterrupt):
    """raised by the runner's real-time watchdog inside whatever code is running; derived from
    KeyboardInterrupt so that neither `except Exception` in the code under test nor asyncio's task
    machinery swallows it (asyncio re-raises KeyboardInterrupt out of the running loop)"""


IDLE_LIMIT_S = 10.0


class VLoop(asyncio.SelectorEventLoop):
    def __init__(self):
        super().__init__()
        self._vus = 0
        self.iter_latency_us = 0
        self.iterations = 0
        self._idle_since = None

    def time(self):
        return self._vus / 1e6

    @property
    def now_us(self):
        return self._vus

    def set_us(self, us):
        assert us >= self._vus, (us, self._vus)
        self._vus = int(us)

    def next_timer_us(self):
        """µs of the earliest non-cancelled scheduled handle, or None"""
        while self._scheduled and self._scheduled[0]._cancelled:
            h = heapq.heappop(self._scheduled)
            h._scheduled = False
        if not self._scheduled:
            return None
        return math.ceil(self._scheduled[0]._when * 1e6 - 1e-3)

    def pending_handles(self):
        return [h for h in self._scheduled if not h._cancelled]

    def _run_once(self):
        self.iterations += 1
        nxt = self.next_timer_us()
        if not self._ready and nxt is None:
            now = _real_monotonic()
            if self._idle_since is None:
                self._idle_since = now
            elif now - self._idle_since > IDLE_LIMIT_S:
                self._idle_since = None
                raise Deadlock('event loop idle forever: nothing ready, no timer scheduled')
            _real_sleep(0.0005)         # do not burn a core while waiting for an executor thread
        else:
            self._idle_since = None
        if not self._ready and nxt is not None and nxt > self._vus and not getattr(self, 'hold', False):
            self._vus = nxt
        self._vus += self.iter_latency_us
        orig = self._selector.select
        self._selector.select = lambda timeout=None: orig(0)
        try:
            super()._run_once()
        finally:
            self._selector.select = orig


class World:
    """virtual wall clock shared by consecutive loops"""

    def __init__(self, wall0=_dt.datetime(2001, 1, 1, 12, 0, 0)):
        self.wall_us = (wall0 - EPOCH) // _dt.timedelta(microseconds=1)
        self.loop = None
        self.loop_base = 0
        self.read_latency_us = 0
        self.reads = 0

    def attach(self, loop):
        self.wall_us = self.now_us()
        self.loop = loop
        self.loop_base = loop._vus

    def detach(self):
        self.wall_us = self.now_us()
        self.loop = None

    def now_us(self):
        if self.loop is None:
            return self.wall_us
        return self.wall_us + (self.loop._vus - self.loop_base)

    def read(self):
        self.reads += 1
        if self.loop is not None and self.read_latency_us:
            self.loop._vus += self.read_latency_us
        return self.now_us()

    def jump(self, us):
        self.wall_us += int(us)

    def now(self):
        return EPOCH + _dt.timedelta(microseconds=self.read())

    def peek(self):
        return EPOCH + _dt.timedelta(microseconds=self.now_us())


_installed = []


def install(world):
    """Route edzed's clock reads to the virtual world (process-local monkeypatch)."""
    import edzed.blocklib.cron as cron
    import edzed.fsm as fsm
    import edzed.addons as addons
    import edzed.simulator as simulator
    import edzed.utils.looptimes as looptimes

    class VDT(_dt.datetime):
        @classmethod
        def now(cls, tz=None):
            n = world.now()
            return n.replace(tzinfo=tz) if tz is not None else n

    class FakeDT:
        def __getattr__(self, name):
            return getattr(_dt, name)
    fdt = FakeDT()
    fdt.datetime = VDT

    class FakeTime:
        def __getattr__(self, name):
            return getattr(_time, name)

        def sleep(self, s):
            if world.loop is not None:
                world.loop._vus += max(0, math.ceil(s * 1e6 - 1e-3))

        def time(self):
            return world.read() / 1e6
    ft = FakeTime()
    uninstall()
    _installed.append((cron, 'dt', cron.dt))
    cron.dt = fdt
    for mod in (cron, fsm, addons, simulator, looptimes):
        _installed.append((mod, 'time', mod.time))
        mod.time = ft


def uninstall():
    while _installed:
        mod, attr, orig = _installed.pop()
        setattr(mod, attr, orig)


class Storage(dict):
    """persistent storage with value semantics (like shelve): deep copy on write"""

    def __setitem__(self, key, value):
        super().__setitem__(key, copy.deepcopy(value))


def run(coro_fn, world=None, loop=None):
    """Run `await coro_fn(loop)` on a fresh virtual loop; close the loop afterwards."""
    loop = loop or VLoop()
    asyncio.set_event_loop(loop)
    if world is not None:
        world.attach(loop)
    try:
        return loop.run_until_complete(coro_fn(loop))
    finally:
        if world is not None:
            world.detach()
        try:
            # cancel leftovers quietly
            for t in asyncio.all_tasks(loop):
                t.cancel()
            loop.run_until_complete(asyncio.sleep(0))
        except Exception:
            pass
        asyncio.set_event_loop(None)
        loop.close()


async def settle(loop, max_iter=10000):
    """Yield until the loop is quiescent at the current instant: no ready handles besides us,
    no timer due now."""
    loop.hold = True
    try:
        for _ in range(max_iter):
            await asyncio.sleep(0)
            nxt = loop.next_timer_us()
            # after sleep(0) we are the only runnable thing iff _ready is empty now
            if not loop._ready and (nxt is None or nxt > loop._vus):
                return
        raise RuntimeError('settle: loop does not become quiescent')
    finally:
        loop.hold = False


async def advance_to(loop, t_us):
    """Let the loop run until virtual time t_us (timers due at or before t_us have fired and
    their consequences settled)."""
    while True:
        await settle(loop)
        nxt = loop.next_timer_us()
        if nxt is None or nxt > t_us:
            break
        loop.set_us(max(nxt, loop._vus))
    if t_us > loop._vus:
        loop.set_us(t_us)
    await settle(loop)
