"""Wire encoding of Python values for the Lean driver (see lean/EdzedModel/Basic/Val.lean)."""
from fractions import Fraction
import math

import edzed


def enc_atom(v):
    if v is None:
        return 'n'
    if v is True:
        return 'b1'
    if v is False:
        return 'b0'
    if isinstance(v, int):
        return f'i{v}'
    if isinstance(v, float):
        if math.isinf(v) or math.isnan(v):
            raise ValueError(f'not encodable: {v!r}')
        f = Fraction(v)
        return f'f{f.numerator}/{f.denominator}'
    if isinstance(v, Fraction):
        return f'f{v.numerator}/{v.denominator}'
    if isinstance(v, str):
        return 's' + v.encode('utf-8').hex()
    raise ValueError(f'not an atom: {v!r}')


def enc(v):
    if v is edzed.UNDEF:
        return 'u'
    if isinstance(v, tuple):
        return 't[' + ','.join(enc_atom(x) for x in v) + ']'
    if isinstance(v, list):
        return 'l[' + ','.join(enc_atom(x) for x in v) + ']'
    return enc_atom(v)


def enc_data(d):
    return 'd{' + ';'.join(f'{k}={enc(d[k])}' for k in sorted(d)) + '}'


def enc_opt(v, absent='-'):
    return absent if v is None else enc(v)


ERR_KINDS = (
    (edzed.EdzedInvalidState, 'InvalidState'),
    (edzed.EdzedUnknownEvent, 'UnknownEvent'),
    (edzed.EdzedCircuitError, 'CircuitError'),
)


def err_kind(exc, param_error_hint=False):
    """Map an exception to the small enum used in traces."""
    for cls, name in ERR_KINDS:
        if isinstance(exc, cls):
            return name
    if isinstance(exc, TypeError):
        return 'TypeError'
    if isinstance(exc, ValueError):
        return 'ValueError'
    if isinstance(exc, KeyError):
        return 'KeyError'
    if isinstance(exc, AssertionError):
        return 'AssertionError'
    import asyncio
    if isinstance(exc, asyncio.CancelledError):
        return 'Cancelled'
    return 'Other'
