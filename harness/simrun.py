"""Helpers to run a real edzed circuit on the virtual-time loop."""
import asyncio

import edzed

from . import vtime
from .enc import enc, enc_data, err_kind


class Probe(edzed.SBlock):
    """Destination block recording every event it receives (type + data)."""

    def __init__(self, *args, log=None, ret=None, **kwargs):
        self.log = [] if log is None else log
        self._ret = ret
        super().__init__(*args, **kwargs)

    def _event(self, etype, data):
        self.log.append((self.name, etype, dict(data)))
        return self._ret

    def init_regular(self):
        self.set_output(None)


class Sim:
    """One simulation run: start, wait_init, drive, shutdown -- all on a VLoop."""

    def __init__(self, world=None):
        self.world = world
        self.circuit = None
        self.simtask = None
        self.init_error = None
        self.final_error = None

    def run(self, build, drive, wait_init=True):
        edzed.reset_circuit()
        self.circuit = edzed.get_circuit()
        ctx = build(self.circuit)

        async def main(loop):
            self.loop = loop
            self.simtask = asyncio.create_task(self.circuit.run_forever())
            if wait_init:
                try:
                    await self.circuit.wait_init()
                except Exception as err:    # start-up failed
                    self.init_error = err
            result = None
            if self.init_error is None:
                result = await drive(self, ctx)
            try:
                await self.circuit.shutdown()
            except BaseException as err:
                self.final_error = err
            return result

        return vtime.run(main, world=self.world)

    def send(self, blk, etype, /, **data):
        """external event -> ('ret', value) | ('err', kind)"""
        try:
            return ('ret', edzed.ExtEvent(blk, etype).send(**data))
        except Exception as err:
            return ('err', err)

    def aborted(self):
        return self.circuit.error is not None
