"""
Translator module for `Circuit._validate_blk` (edzed/simulator.py), called from tools/py2lean.py: main().

Regenerates lean/EdzedModel/Gen/TranslatedVblk.lean: the DECISION TREE of the resolver -- which tests
are made in which order and which action each path ends in -- from the CURRENT AST.  Declared is only
the mapping "this test expression = this field of the classification of the argument" and "this
return / raise statement = this action"; the structure (statement order, nesting, fall-through after
an `if` without `else`, and / or / not) comes from the AST.

    tests      isinstance(blk, block.Const)      a.isConst
               isinstance(blk, str)              a.isStr
               isinstance(blk, block.Block)      a.isBlockObj
               blk.startswith('_')               a.startsUnderscore
               blk.startswith('_not_')           a.startsNot
               blk[5:6] != '_'  /  == '_'        !a.sixthUnderscore / a.sixthUnderscore
               blk == '_ctrl'                    a.isCtrl
               blk [not] in self._blocks         [!]a.nameKnown          (lookup by NAME)
               blk [not] in self.getblocks()     [!]a.member             (membership of the OBJECT)
    actions    return blk                                                   retSelf
               return sblocks1.ControlBlock(blk, …, _reserved=True)        mkCtrl
               return cblocks.Not(blk, …, _reserved=True).connect(blk.removeprefix('_not_'))   mkNot
               return self.findblock(blk)                                   findblock
               return block.Const(blk)                                      mkConst
               raise ValueError(…)                                          raiseValueError

Anything else (an assignment, another lookup, another argument of `connect`, …): UNTRANSLATABLE, the
definition is omitted and `TrTie.translated_validate_blk_is_model` (EdzedProps/C15.lean) stops compiling.
"""
import ast
import inspect
import os
import textwrap


class Untranslatable(Exception):
    pass


ARG = 'blk'

TESTS = {
    "isinstance(blk, block.Const)": 'a.isConst',
    "isinstance(blk, str)": 'a.isStr',
    "isinstance(blk, block.Block)": 'a.isBlockObj',
    "blk.startswith('_')": 'a.startsUnderscore',
    "blk.startswith('_not_')": 'a.startsNot',
    "blk[5:6] != '_'": '!a.sixthUnderscore',
    "blk[5:6] == '_'": 'a.sixthUnderscore',
    "blk == '_ctrl'": 'a.isCtrl',
    "blk not in self._blocks": '!a.nameKnown',
    "blk in self._blocks": 'a.nameKnown',
    "blk not in self.getblocks()": '!a.member',
    "blk in self.getblocks()": 'a.member',
}

PRELUDE = '''/-- what the resolver can find out about its argument -/
structure VArg where
  isConst : Bool := false            -- a `Const` object
  isStr : Bool := false              -- a string
  isBlockObj : Bool := false         -- a `Block` object
  startsUnderscore : Bool := false   -- (string) begins with '_'
  startsNot : Bool := false          -- (string) begins with '_not_'
  sixthUnderscore : Bool := false    -- (string) the character after the first five is '_'
  isCtrl : Bool := false             -- (string) equals '_ctrl'
  nameKnown : Bool := false          -- (string) a block of that name is in `Circuit._blocks`
  member : Bool := false             -- (Block object) the object is one of `Circuit.getblocks()`
  deriving DecidableEq, Repr, Inhabited

/-- how a path through the resolver ends -/
inductive VAct where
  | retSelf            -- `return blk`
  | mkCtrl             -- create the ControlBlock named `blk`, return it
  | mkNot              -- create `Not(blk)` connected to `blk.removeprefix('_not_')`, return it
  | findblock          -- `return self.findblock(blk)`
  | mkConst            -- `return Const(blk)`
  | raiseValueError
  deriving DecidableEq, Repr, Inhabited
'''


def is_name(node, name):
    return isinstance(node, ast.Name) and node.id == name


def kw_true(call, name):
    return any(k.arg == name and isinstance(k.value, ast.Constant) and k.value.value is True
               for k in call.keywords)


def action(stmt):
    if isinstance(stmt, ast.Raise):
        e = stmt.exc
        if isinstance(e, ast.Call) and is_name(e.func, 'ValueError') and stmt.cause is None:
            return '.raiseValueError'
        raise Untranslatable('raise ' + ast.unparse(stmt)[:80])
    v = stmt.value
    if is_name(v, ARG):
        return '.retSelf'
    if isinstance(v, ast.Call):
        src = ast.unparse(v.func)
        if src == 'self.findblock' and len(v.args) == 1 and is_name(v.args[0], ARG) and not v.keywords:
            return '.findblock'
        if src == 'block.Const' and len(v.args) == 1 and is_name(v.args[0], ARG) and not v.keywords:
            return '.mkConst'
        if src == 'sblocks1.ControlBlock' and len(v.args) == 1 and is_name(v.args[0], ARG) \
                and kw_true(v, '_reserved'):
            return '.mkCtrl'
        if isinstance(v.func, ast.Attribute) and v.func.attr == 'connect' and isinstance(v.func.value, ast.Call):
            inner = v.func.value
            if ast.unparse(inner.func) == 'cblocks.Not' and len(inner.args) == 1 and is_name(inner.args[0], ARG) \
                    and kw_true(inner, '_reserved') and not v.keywords and len(v.args) == 1 \
                    and ast.unparse(v.args[0]) == "blk.removeprefix('_not_')":
                return '.mkNot'
    raise Untranslatable('return ' + ast.unparse(v)[:100])


def test(node):
    if isinstance(node, ast.UnaryOp) and isinstance(node.op, ast.Not):
        return f'!({test(node.operand)})'
    if isinstance(node, ast.BoolOp):
        op = ' && ' if isinstance(node.op, ast.And) else ' || '
        return '(' + op.join(test(v) for v in node.values) + ')'
    src = ast.unparse(node)
    if src in TESTS:
        return TESTS[src]
    raise Untranslatable('test ' + src[:100])


def block(stmts, ind):
    pad = '  ' * ind
    if not stmts:
        raise Untranslatable('a path that falls off the end of the function')
    s, rest = stmts[0], stmts[1:]
    if isinstance(s, ast.Expr) and isinstance(s.value, ast.Constant) and isinstance(s.value.value, str):
        return block(rest, ind)
    if isinstance(s, (ast.Return, ast.Raise)):
        return pad + action(s)
    if isinstance(s, ast.If):
        return (f'{pad}if {test(s.test)} then\n{block(list(s.body) + rest, ind + 1)}\n'
                f'{pad}else\n{block(list(s.orelse) + rest, ind + 1)}')
    raise Untranslatable('statement ' + ast.unparse(s)[:100])


def translate():
    from edzed import simulator
    tree = ast.parse(textwrap.dedent(inspect.getsource(simulator.Circuit._validate_blk)))
    fn = tree.body[0]
    args = [a.arg for a in fn.args.args]
    if args != ['self', ARG]:
        raise Untranslatable(f'signature {args}')
    return 'def validateBlkTree (a : VArg) : VAct :=\n' + block(fn.body, 1)


def main_vblk(outfile, write_if_changed):
    L = ['/- GENERATED by tools/py2lean_vblk.py (via tools/py2lean.py) from the Python source of edzed -- do not edit -/',
         '', 'namespace Edzed.Gen.Tr', '', PRELUDE]
    doc = 'Circuit._validate_blk'
    try:
        text = translate()
        L.append(f'/-- translated from `{doc}`: the decision tree of the resolver -/')
        L.append(text)
    except Exception as err:
        L.append(f"-- UNTRANSLATABLE `{doc}`: definition `validateBlkTree` omitted ({' '.join(str(err).split())[:200]})")
        print(f'UNTRANSLATABLE validateBlkTree ({doc}): {err}')
    L += ['', 'end Edzed.Gen.Tr']
    write_if_changed(outfile, '\n'.join(L) + '\n')
