#!/usr/bin/env python3
"""
Systematic mutation sweep (development tool, not a registered check): what do the CHECKS see of the statements
the translators do not see?

Input: tie_coverage.json (tools/tie_coverage.py) — the same point mutations (simple statement → `pass`, `if`/`while`
test → negated).  For every selected point (default: the points NOT tied by translation):

  0. statements that only log / assert are classified `logging` without running anything;
  1. the repository's test suite runs on the mutated scratch worktree of /repo: `killed-by-tests` ends the point
     (failing tests are re-run alone to tell load-sensitive timing tests from real failures);
  2. the quick checks of the properties anchored in the mutated file run with EDZED_SRC=<scratch>:
     `caught` (some check exits 1; which ones, with the first violation clause) or `survived`.

Survivors are NOT violations: most are equivalent mutants (debugging aids, redundant guards, messages).  The list
is read by hand; a survivor which breaks a property is a gap of that property's check and goes to its builder.

Runs N workers; each has its own worktree of /verif under /tmp/vw/sweep<i> (own lean/.lake, own build lock) and
its own scratch worktree of /repo under /tmp/sweepsrc/w<i>; all are removed at the end.  Results are appended to
--out (JSON lines) as they arrive, so an interrupted sweep can be resumed (points already in the file are skipped).

usage: tools/sweep.py [-j 4] [--select untied|tied|all] [--only FILE_SUBSTRING] [--limit N] [--sample N --seed S]
                      [--out sweep.jsonl]
"""
import argparse
import ast
import concurrent.futures as cf
import json
import os
import re
import shutil
import subprocess
import sys

VERIF = os.path.dirname(os.path.dirname(os.path.abspath(__file__)))
sys.path.insert(0, os.path.join(VERIF, 'tools'))
import tie_coverage  # noqa: E402

FLAKY = {'test_executor', 'test_executor_args'}
LOGGING = re.compile(r'^\s*(self\.|blk\.|block\.|_logger\.|logger\.|logging\.)?(log_\w+|debug|info|warning|error|critical|log)\(')


def sh(cmd, **kw):
    return subprocess.run(cmd, shell=isinstance(cmd, str), capture_output=True, text=True, **kw)


def anchors():
    m = {}
    for line in open(os.path.join(VERIF, 'properties.jsonl')):
        p = json.loads(line)
        for f in p['anchors'].get('files', []):
            m.setdefault(f, []).append(p['id'])
    return m


def classify_static(src_lines, pt):
    line = src_lines[pt['line'] - 1]
    if pt['kind'] == 'stmt' and (LOGGING.match(line) or line.strip().startswith('assert ')):
        return 'logging'
    return None


def worker(args):
    wid, pts, src, out, anch = args
    vw = f'/tmp/vw/sweep{wid}'
    sw = f'/tmp/sweepsrc/w{wid}'
    os.makedirs('/tmp/sweepsrc', exist_ok=True)
    sh(f'git -C {VERIF} worktree remove --force {vw}')
    r = sh(f'git -C {VERIF} worktree add --detach {vw} HEAD')
    assert r.returncode == 0, r.stderr
    shutil.copytree(os.path.join(VERIF, 'lean', '.lake'), os.path.join(vw, 'lean', '.lake'), dirs_exist_ok=True)
    sh(f'git -C {src} worktree remove --force {sw}')
    r = sh(f'git -C {src} worktree add --detach {sw} HEAD')
    assert r.returncode == 0, r.stderr
    try:
        for pt in pts:
            target = os.path.join(sw, pt['file'])
            orig = open(target).read()
            res = dict(pt)
            try:
                with open(target, 'w') as f:
                    f.write(tie_coverage.apply_edit(orig, tuple(pt['edit'])))
                res['source_line'] = orig.split('\n')[pt['line'] - 1].strip()[:160]
                env = dict(os.environ, PYTHONPATH=sw, PYTHONDONTWRITEBYTECODE='1')
                t = sh(['/venv/bin/python', '-m', 'pytest', '-q', '-p', 'no:cacheprovider', '--timeout=300',
                        'tests'], env=env, cwd=sw, timeout=1800)
                ids = re.findall(r'(?:FAILED|ERROR) (tests/\S+)', t.stdout or '')
                still = []
                if t.returncode != 0 and not ids:
                    still = ['(collection or import error)']
                for tid in ids:
                    if tid.split('::')[-1] in FLAKY:
                        continue
                    for _ in range(2):
                        rr = sh(['/venv/bin/python', '-m', 'pytest', '-q', '-p', 'no:cacheprovider', '--timeout=300',
                                 tid], env=env, cwd=sw, timeout=900)
                        if rr.returncode == 0:
                            break
                    else:
                        still.append(tid)
                if still:
                    res.update(verdict='killed-by-tests', tests=still[:3])
                else:
                    caught = {}
                    for chk in anch.get(pt['file'], []):
                        p = sh([os.path.join(vw, 'check'), chk, '--tier', 'quick'],
                               env=dict(os.environ, EDZED_SRC=sw), cwd=vw, timeout=1500)
                        if p.returncode == 1:
                            viol = [l for l in p.stdout.split('\n') if l.startswith('VIOLATION')]
                            detail = ''
                            if viol:
                                try:
                                    rj = json.load(open(viol[0].split('replay=')[1].split()[0]))
                                    detail = ((rj.get('oracle') or {}).get('clause') or rj.get('kind') or '')
                                except Exception:
                                    pass
                            caught[chk] = detail
                        elif p.returncode != 0:
                            caught[chk] = f'exit {p.returncode}'
                    res.update(verdict='caught' if caught else 'survived', caught_by=caught)
            except subprocess.TimeoutExpired:
                res.update(verdict='timeout')
            finally:
                with open(target, 'w') as f:
                    f.write(orig)
            with open(out, 'a') as f:
                f.write(json.dumps({k: v for k, v in res.items() if k != 'edit'}) + '\n')
    finally:
        sh(f'git -C {src} worktree remove --force {sw}')
        sh(f'git -C {VERIF} worktree remove --force {vw}')
    return len(pts)


def main():
    ap = argparse.ArgumentParser()
    ap.add_argument('-j', type=int, default=4)
    ap.add_argument('--select', default='untied')
    ap.add_argument('--only', default='')
    ap.add_argument('--limit', type=int, default=0)
    ap.add_argument('--sample', type=int, default=0, help='random sample of this many points')
    ap.add_argument('--seed', type=int, default=1)
    ap.add_argument('--src', default='/repo')
    ap.add_argument('--out', default=os.path.join(VERIF, 'sweep.jsonl'))
    a = ap.parse_args()
    cov = {(p['file'], p['line'], p['kind']): p for p in json.load(open(os.path.join(VERIF, 'tie_coverage.json')))['points']}
    done = set()
    if os.path.exists(a.out):
        for line in open(a.out):
            r = json.loads(line)
            done.add((r['file'], r['line'], r['kind']))
    anch = anchors()
    pts = []
    for d, _, fs in os.walk(os.path.join(a.src, 'edzed')):
        for fn in sorted(fs):
            if fn.endswith('.py') and a.only in fn and fn != 'demo.py':
                p = os.path.join(d, fn)
                rel = os.path.relpath(p, a.src)
                lines = open(p).read().split('\n')
                for pt in tie_coverage.points(p, rel):
                    key = (pt['file'], pt['line'], pt['kind'])
                    c = cov.get(key)
                    if c is None or c['result'] == 'skipped' or key in done:
                        continue
                    tied = c['result'] in ('changed', 'generator-fails')
                    if (a.select == 'untied' and tied) or (a.select == 'tied' and not tied):
                        continue
                    pt['tied'] = tied
                    st = classify_static(lines, pt)
                    if st:
                        with open(a.out, 'a') as f:
                            f.write(json.dumps({k: v for k, v in dict(pt, verdict=st, source_line=lines[pt['line'] - 1].strip()[:160]).items()
                                                if k != 'edit'}) + '\n')
                        continue
                    try:
                        ast.parse(tie_coverage.apply_edit(open(p).read(), pt['edit']))
                    except SyntaxError:
                        continue
                    pts.append(pt)
    if a.limit:
        pts = pts[:a.limit]
    if a.sample and a.sample < len(pts):
        import random
        pts = random.Random(a.seed).sample(pts, a.sample)
    print(f'{len(pts)} points to run, {len(done)} already done', flush=True)
    chunks = [pts[i::a.j] for i in range(a.j)]
    with cf.ProcessPoolExecutor(a.j) as ex:
        list(ex.map(worker, [(i, c, a.src, a.out, anch) for i, c in enumerate(chunks) if c]))
    summary(a.out)


def summary(out):
    rows = [json.loads(l) for l in open(out)]
    by = {}
    for r in rows:
        by.setdefault(r['verdict'], []).append(r)
    print({k: len(v) for k, v in by.items()})
    for r in sorted(by.get('survived', []), key=lambda r: (r['file'], r['line'])):
        print(f"SURVIVED {r['file']}:{r['line']}{'?' if r['kind'] == 'test' else ''} {r['func']}: {r.get('source_line', '')}")


if __name__ == '__main__':
    if len(sys.argv) > 1 and sys.argv[1] == 'summary':
        summary(sys.argv[2] if len(sys.argv) > 2 else os.path.join(VERIF, 'sweep.jsonl'))
    else:
        main()
