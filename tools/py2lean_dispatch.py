"""
Translator, scheme TrProg: the CONTROL FLOW of `SBlock.event` and `Event.send` (edzed/block.py) as Lean
programs in a state + exception + early-return monad (`Edzed.Gen.TrD.M`), regenerated from the CURRENT
Python AST into lean/EdzedModel/Gen/TranslatedDispatch.lean (called from py2lean.main).

What comes from the AST: the order of the statements, the nesting of if / elif / else, while, for, try /
except / finally, with, which exception classes are caught and re-raised, where `return` and `raise` are,
every condition (negations, `is None`, comparison chains, and / or, conditional expressions), which
variable is passed where.  What is declared here: the meaning of the leaves only -- "this access path /
call / test is this primitive" (`self._event_active`, `self.circuit.abort(x)`, `isinstance(etype, str)`,
`handler(self, **data)`, `efilter(data)`, ...).  The primitives are the fields of the structures
`EventPrims` / `SendPrims` of the generated file; property C11 instantiates them with the operations of the
model EdzedModel/Dispatch.lean and proves that the translated programs ARE the model's dispatch steps.

Supported subset (anything else: Untranslatable -> the definition is omitted, the theorems break):
  statements   docstrings, assert (ignored), logging calls (ignored), NAME = <expr>, NAME = <effect>,
               <effect>, self._event_active = True/False, data['source'] = <expr>, x.__cause__ = y (ignored),
               raise Exc(...), raise, return [<expr>], if/elif/else, `if NAME is [not] None` (narrowing),
               while <test> (fuelled recursion, loop-carried variables found by the translator),
               for x in <declared list> (structural recursion), for key in <mapping>: if not isinstance(key,
               str): raise ..., try/except/finally, with <declared context manager>
  expressions  names, declared paths and calls, True/False/None/int/str constants, not, and, or,
               `a is [not] None`, chains of < <= over integers, conditional expressions
"""
import ast


class Ctx:
    """what py2lean provides"""
    Untranslatable = None
    node_path = None


def path_or_none(node):
    try:
        return Ctx.node_path(node)
    except Exception:       # pylint: disable=broad-except
        return None


def names_used(stmts):
    out = set()
    for s in stmts:
        for n in ast.walk(s):
            if isinstance(n, ast.Name) and isinstance(n.ctx, ast.Load):
                out.add(n.id)
    return out


def names_assigned(stmts):
    out = []
    for s in stmts:
        for n in ast.walk(s):
            if isinstance(n, ast.Name) and isinstance(n.ctx, ast.Store) and n.id not in out:
                out.append(n.id)
            if isinstance(n, ast.ExceptHandler) and n.name and n.name not in out:
                out.append(n.name)
    return out


LEAN_TY = {'etype': 'τ', 'optetype': 'Option τ', 'data': 'δ', 'exc': 'ε', 'handler': 'η',
           'opthandler': 'Option η', 'retval': 'ρ', 'filter': 'φ', 'fres': 'ψ', 'bool': 'Bool',
           'dataval': 'ν', 'unit': 'Unit'}


class TrProg:
    def __init__(self, target):
        self.t = target
        self.P = target['P']
        self.aux = []           # generated loop functions (text), emitted before the main definition
        self.needs_fuel = False
        self.nloops = 0

    def U(self, msg):
        return Ctx.Untranslatable(msg)

    def always_true_opts(self):
        """optional types whose non-None values are always true in Python, so that `if x` == `if x is not None`"""
        return self.t.get('always_true_opts', ('opthandler',))

    # ------------------------------------------------------------------ expressions
    def truthy(self, text, ty):
        P = self.P
        if ty == 'bool':
            return text
        if ty in self.always_true_opts():
            # None | an object that is always true (e.g. a function): true iff present
            return f'({text}).isSome'
        if ty == 'optetype':
            # None | str | EventType: an empty string is false, too -- NOT the same test as `is not None`
            return f'(match {text} with | some x_ => {P}.etypeTruthy x_ | none => false)'
        if ty == 'etype':
            return f'{P}.etypeTruthy ({text})'
        if ty == 'dataval':
            return f'{P}.valTruthy ({text})'
        if ty == 'fres':
            return f'{P}.resTruthy ({text})'
        raise self.U(f'truthiness of a value of type {ty}')

    def expr(self, node, env):
        """-> (lean text, type tag); sets self.reads_state when the expression reads the block's state"""
        P = self.P
        txt = ast.unparse(node)
        if txt in self.t.get('atoms', {}):
            return self.t['atoms'][txt]
        if isinstance(node, ast.Name):
            if node.id in env:
                return env[node.id]
            raise self.U(f'unknown name {node.id}')
        if isinstance(node, ast.Constant):
            v = node.value
            if v is True:
                return ('true', 'bool')
            if v is False:
                return ('false', 'bool')
            if v is None:
                return ('none', 'none')
            if isinstance(v, int):
                return (f'({v} : Int)', 'int')
            if isinstance(v, str):
                return ('"' + v.replace('\\', '\\\\').replace('"', '\\"') + '"', 'str')
            raise self.U(f'constant {v!r}')
        if isinstance(node, (ast.Attribute, ast.Subscript)):
            p = path_or_none(node)
            if p in self.t.get('state', {}):
                self.reads_state = True
                return self.t['state'][p]
            if isinstance(node, ast.Attribute):
                base = path_or_none(node.value)
                if base in env:
                    key = (env[base][1], node.attr)
                    if key in self.t.get('attrs', {}):
                        lean, ty = self.t['attrs'][key]
                        return (lean.format(P=P, x=env[base][0]), ty)
            raise self.U(f'unknown access path {p or txt}')
        if isinstance(node, ast.UnaryOp) and isinstance(node.op, ast.Not):
            t, ty = self.in_truth_position(node.operand, env)
            return (f'(!{self.truthy(t, ty)})', 'bool')
        if isinstance(node, ast.BoolOp):
            parts = [self.expr(v, env) for v in node.values]
            if not getattr(self, 'in_test', False) and not all(ty == 'bool' for _, ty in parts):
                # `a or b` as a VALUE is one of its operands, not a truth value
                raise self.U('and/or over non-bool operands used as a value: ' + txt[:60])
            op = ' && ' if isinstance(node.op, ast.And) else ' || '
            return ('(' + op.join(self.truthy(t, ty) for t, ty in parts) + ')', 'bool')
        if isinstance(node, ast.IfExp):
            c, cty = self.in_truth_position(node.test, env)
            a, aty = self.expr(node.body, env)
            b, bty = self.expr(node.orelse, env)
            if aty != bty:
                raise self.U(f'conditional expression of types {aty}/{bty}')
            return (f'(if {self.truthy(c, cty)} then {a} else {b})', aty)
        if isinstance(node, ast.Compare):
            return self.compare(node, env)
        if isinstance(node, ast.Call):
            return self.call(node, env)
        raise self.U('expression ' + txt[:80])

    def in_truth_position(self, node, env):
        """an operand of which only the truth value is used (`not x`, the test of `a if x else b`)"""
        old = getattr(self, 'in_test', False)
        self.in_test = True
        try:
            return self.expr(node, env)
        finally:
            self.in_test = old

    def compare(self, node, env):
        P = self.P
        ops, rights = node.ops, node.comparators
        if (len(ops) == 1 and isinstance(ops[0], (ast.Is, ast.IsNot))
                and isinstance(rights[0], ast.Constant) and rights[0].value is None):
            neg = isinstance(ops[0], ast.IsNot)
            # err.__traceback__.tb_next is [not] None
            p = path_or_none(node.left)
            if p and p.endswith('.__traceback__.tb_next'):
                base = p[:-len('.__traceback__.tb_next')]
                if base in env and env[base][1] == 'exc':
                    t = f'{P}.tbDeep {env[base][0]}'
                    return (t if neg else f'(!{t})', 'bool')
            t, ty = self.expr(node.left, env)
            if ty in ('optetype', 'opthandler'):
                return (f'({t}).isSome' if neg else f'({t}).isNone', 'bool')
            if ty == 'fres':
                t2 = f'{P}.resIsNone {t}'
                return (f'(!{t2})' if neg else t2, 'bool')
            raise self.U(f'`is None` on a value of type {ty}')
        # chains of <= / < over integers
        terms = [self.expr(node.left, env)] + [self.expr(r, env) for r in rights]
        if not all(ty == 'int' for _, ty in terms):
            raise self.U('comparison ' + ast.unparse(node)[:80])
        parts = []
        for (a, _), op, (b, _) in zip(terms, ops, terms[1:]):
            sym = {ast.LtE: '≤', ast.Lt: '<', ast.GtE: '≥', ast.Gt: '>'}.get(type(op))
            if sym is None:
                raise self.U('comparison operator in ' + ast.unparse(node)[:80])
            parts.append(f'decide ({a} {sym} {b})')
        return ('(' + ' && '.join(parts) + ')', 'bool')

    def match_args(self, node, pats, env):
        """positional / keyword patterns of a declared call -> list of lean argument texts or None"""
        if len(node.args) != sum(1 for p in pats if p[0] in ('self', 'ty', 'path')):
            return None
        out, i = [], 0
        kws = {k.arg: k.value for k in node.keywords}
        used_kw = set()
        for p in pats:
            if p[0] == 'self':
                if path_or_none(node.args[i]) != 'self':
                    return None
                i += 1
            elif p[0] == 'path':
                if path_or_none(node.args[i]) != p[1]:
                    return None
                i += 1
            elif p[0] == 'ty':
                try:
                    t, ty = self.expr(node.args[i], env)
                except Ctx.Untranslatable:
                    return None
                if ty != p[1]:
                    return None
                out.append(t)
                i += 1
            elif p[0] == 'kw':
                v = kws.get(p[1])
                if not (isinstance(v, ast.Constant) and v.value is p[2]):
                    return None
                used_kw.add(p[1])
            elif p[0] == 'starstar':
                v = kws.get(None)
                if v is None:
                    return None
                t, ty = self.expr(v, env)
                if ty != p[1]:
                    return None
                out.append(t)
                used_kw.add(None)
        if set(kws) != used_kw:
            return None
        return out

    def call(self, node, env):
        P = self.P
        f = node.func
        # isinstance(x, Class)
        if isinstance(f, ast.Name) and f.id == 'isinstance' and len(node.args) == 2 and not node.keywords:
            t, ty = self.expr(node.args[0], env)
            cls = ast.unparse(node.args[1])
            key = (ty, cls)
            if key in self.t.get('isinstance', {}):
                return (self.t['isinstance'][key].format(P=P, x=t), 'bool')
            raise self.U(f'isinstance(<{ty}>, {cls})')
        # exception constructors: the class and the literal parts of the message
        if isinstance(f, ast.Name) and f.id in self.t.get('exceptions', ()):
            msg = ''
            if len(node.args) == 1 and not node.keywords:
                msg = self.message(node.args[0])
            elif node.args or node.keywords:
                raise self.U('exception constructor ' + ast.unparse(node)[:60])
            # of the message only a declared marker is kept (a reworded message is a harmless edit)
            tag = ''
            for marker, name in self.t.get('message_markers', {}).items():
                if marker in msg:
                    tag = name
            return (f'{P}.mkExc "{f.id}" "{tag}"', 'exc')
        # a call of a local variable
        if isinstance(f, ast.Name) and f.id in env:
            fty = env[f.id][1]
            for (vty, pats, lean, rty) in self.t.get('var_calls', ()):
                if vty == fty and not self.is_effect_decl(lean):
                    args = self.match_args(node, pats, env)
                    if args is not None:
                        return (lean.format(P=P, f=env[f.id][0], a=args), rty)
        # declared pure calls by path
        p = path_or_none(f) or ast.unparse(f)
        for (cp, pats, lean, rty) in self.t.get('calls', ()):
            if cp == p:
                args = self.match_args(node, pats, env)
                if args is not None:
                    return (lean.format(P=P, a=args), rty)
        # method of a typed local: data.get('value')
        if isinstance(f, ast.Attribute):
            base = path_or_none(f.value)
            if base in env:
                for (vty, meth, pats, lean, rty) in self.t.get('methods', ()):
                    if vty == env[base][1] and meth == f.attr:
                        args = self.match_consts(node, pats)
                        if args:
                            return (lean.format(P=P, x=env[base][0]), rty)
        raise self.U('call ' + ast.unparse(node)[:80])

    def message(self, node):
        """the constant fragments of a message: 'text', f'..{x}..', and + of those ({} marks a hole)"""
        if isinstance(node, ast.Constant) and isinstance(node.value, str):
            return node.value
        if isinstance(node, ast.JoinedStr):
            return ''.join(v.value if isinstance(v, ast.Constant) else '{}' for v in node.values)
        if isinstance(node, ast.BinOp) and isinstance(node.op, ast.Add):
            return self.message(node.left) + self.message(node.right)
        raise self.U('message ' + ast.unparse(node)[:60])

    @staticmethod
    def is_effect_decl(lean):
        return lean.startswith('!')

    @staticmethod
    def match_consts(node, consts):
        return (not node.keywords and len(node.args) == len(consts)
                and all(isinstance(a, ast.Constant) and a.value == c for a, c in zip(node.args, consts)))

    # ------------------------------------------------------------------ effects
    def effect(self, node, env):
        """a call with an effect on the state (may raise) -> (lean text of type M _, result type) or None"""
        P = self.P
        if not isinstance(node, ast.Call):
            return None
        f = node.func
        if isinstance(f, ast.Name) and f.id in env:
            fty = env[f.id][1]
            for (vty, pats, lean, rty) in self.t.get('var_calls', ()):
                if vty == fty and self.is_effect_decl(lean):
                    args = self.match_args(node, pats, env)
                    if args is not None:
                        return (lean[1:].format(P=P, f=env[f.id][0], a=args), rty)
        p = path_or_none(f)
        for (cp, pats, lean, rty) in self.t.get('effects', ()):
            if cp == p:
                args = self.match_args(node, pats, env)
                if args is not None:
                    return (lean.format(P=P, a=args), rty)
        if isinstance(f, ast.Attribute):
            base = path_or_none(f.value)
            if base in env:
                for (vty, meth, pats, lean, rty) in self.t.get('method_effects', ()):
                    if vty == env[base][1] and meth == f.attr:
                        args = self.match_args(node, pats, env)
                        if args is not None:
                            return (lean.format(P=P, x=env[base][0], a=args), rty)
        return None

    def check_inert(self, node, what):
        """an expression inside an ignored construct must not be able to do anything: names, attribute paths,
        constants, f-strings over those, `isinstance(...)`, `is [not] None`, not/and/or, tuples; no other
        calls (eager `%` formatting or `.format` can raise, a call can have any effect), no walrus"""
        for n in ast.walk(node):
            if isinstance(n, (ast.Name, ast.Attribute, ast.Constant, ast.JoinedStr, ast.FormattedValue, ast.Load,
                              ast.Tuple, ast.UnaryOp, ast.Not, ast.BoolOp, ast.And, ast.Or, ast.Is, ast.IsNot,
                              ast.Compare)):
                continue
            if isinstance(n, ast.Call) and isinstance(n.func, ast.Name) and n.func.id == 'isinstance' and not n.keywords:
                continue
            if (isinstance(n, ast.Call) and not n.keywords
                    and (path_or_none(n.func) or '') in self.t.get('inert_calls', ())):
                continue        # a helper declared to be a pure formatter (it still evaluates eagerly)
            raise self.U(f'{what}: `{ast.unparse(node)[:60]}` is not an inert expression')

    def ignorable_call(self, node):
        if not isinstance(node, ast.Call):
            return False
        p = path_or_none(node.func) or ''
        return any(p == q or (q.endswith('*') and p.startswith(q[:-1])) for q in self.t.get('ignore', ()))

    # ------------------------------------------------------------------ statements
    def ends(self, stmts):
        for s in stmts:
            if isinstance(s, (ast.Return, ast.Raise)):
                return True
            if isinstance(s, ast.If) and s.orelse and self.ends(s.body) and self.ends(s.orelse):
                return True
            if isinstance(s, ast.Try) and not s.finalbody and self.ends(s.body) and all(self.ends(h.body) for h in s.handlers):
                return True
            if isinstance(s, ast.Try) and s.finalbody and self.ends(s.finalbody):
                return True
        return False

    def cond(self, test, env):
        """-> (lean Bool text, reads_state)"""
        self.reads_state = False
        self.in_test = True
        try:
            t, ty = self.expr(test, env)
        finally:
            self.in_test = False
        return self.truthy(t, ty), self.reads_state

    def with_state(self, reads, inner, pad):
        if reads:
            return f'{pad}M.bind M.get fun st =>\n{inner}'
        return inner

    def join(self, parts, rest, env, live):
        """variables assigned in `parts` (lists of statements) that are needed afterwards"""
        need = names_used(rest) | set(live)
        J = [v for v in names_assigned([s for p in parts for s in p]) if v in need]
        types = {}

        def jfall(env2):
            vals = []
            for v in J:
                if v not in env2:
                    raise self.U(f'`{v}` may be unbound after a branch')
                ty = env2[v][1]
                old = types.get(v)
                if old is None or (old == 'optnone' and ty.startswith('opt')):
                    types[v] = ty
                elif not (ty == old or (ty == 'optnone' and old.startswith('opt'))):
                    raise self.U(f'`{v}` has different types after the branches')
                vals.append(env2[v][0])
            return 'M.pure (' + ', '.join(vals) + ')'

        def after(env_):
            env3 = dict(env_)
            for v in J:
                if types.get(v) in (None, 'optnone'):
                    raise self.U(f'the type of `{v}` after the branches is unknown')
                env3[v] = (v, types[v])
            return env3
        binder = 'fun (_ : Unit) =>' if not J else ('fun ' + J[0] + ' =>' if len(J) == 1 else 'fun (' + ', '.join(J) + ') =>')
        return J, jfall, after, binder

    def block(self, stmts, env, fall, ind, live=()):
        P = self.P
        pad = '  ' * ind
        if not stmts:
            return pad + fall(env)
        s, rest = stmts[0], list(stmts[1:])
        # ---- ignored statements
        if isinstance(s, ast.Expr) and isinstance(s.value, ast.Constant) and isinstance(s.value.value, str):
            return self.block(rest, env, fall, ind, live)
        if isinstance(s, ast.Assert):
            self.check_inert(s.test, 'assert')
            if s.msg is not None:
                self.check_inert(s.msg, 'assert message')
            return self.block(rest, env, fall, ind, live)
        if isinstance(s, ast.Expr) and self.ignorable_call(s.value):
            # the call is ignored, but its arguments are evaluated: they must be inert
            for a in list(s.value.args) + [k.value for k in s.value.keywords]:
                self.check_inert(a, 'argument of the ignored call ' + (path_or_none(s.value.func) or ''))
            return self.block(rest, env, fall, ind, live)
        # ---- raise / return
        if isinstance(s, ast.Raise):
            if s.exc is None:
                if '$exc' not in env:
                    raise self.U('bare raise outside of an except clause')
                return f"{pad}M.raise {env['$exc'][0]}"
            if s.cause is not None and not (isinstance(s.cause, ast.Constant) and s.cause.value is None):
                raise self.U('raise ... from <exception>')
            t, ty = self.expr(s.exc, env)
            if ty != 'exc':
                raise self.U('raise of a non-exception')
            return f'{pad}M.raise ({t})'
        if isinstance(s, ast.Return):
            if s.value is None or (isinstance(s.value, ast.Constant) and s.value.value is None):
                if 'ret_none' not in self.t:
                    raise self.U('return None')
                return f"{pad}M.ret ({self.t['ret_none'].format(P=P)})"
            self.reads_state = False
            t, ty = self.expr(s.value, env)
            if ty != self.t['ret_type']:
                raise self.U(f'return of a value of type {ty}')
            return self.with_state(self.reads_state, f'{pad}M.ret ({t})', pad)
        # ---- expression statements with an effect
        if isinstance(s, ast.Expr):
            eff = self.effect(s.value, env)
            if eff is None:
                raise self.U('statement ' + ast.unparse(s)[:80])
            return f'{pad}M.bind ({eff[0]}) fun _ =>\n' + self.block(rest, env, fall, ind, live)
        # ---- assignments
        if isinstance(s, ast.Assign) and len(s.targets) == 1:
            tgt = s.targets[0]
            tp = path_or_none(tgt)
            if isinstance(tgt, ast.Name):
                eff = self.effect(s.value, env)
                env2 = dict(env)
                if eff is not None:
                    env2[tgt.id] = (tgt.id, eff[1])
                    return (f'{pad}M.bind ({eff[0]}) fun {tgt.id} =>\n'
                            + self.block(rest, env2, fall, ind, live))
                self.reads_state = False
                t, ty = self.expr(s.value, env)
                reads = self.reads_state
                if ty == 'none':
                    if tgt.id in names_used(rest) or tgt.id in live:
                        # an Optional that is None on this path
                        env2[tgt.id] = ('none', 'optnone')
                        return self.block(rest, env2, fall, ind, live)
                    # a dead store (e.g. breaking a reference cycle)
                    env2.pop(tgt.id, None)
                    return self.block(rest, env2, fall, ind, live)
                if tgt.id in env and env[tgt.id][1] != ty:
                    # a declared conversion, e.g. data = retval (a mapping returned by a filter)
                    conv = self.t.get('convert', {}).get((ty, env[tgt.id][1]))
                    if conv is None:
                        raise self.U(f'{tgt.id}: {env[tgt.id][1]} = <{ty}>')
                    t, ty = conv.format(P=P, x=t), env[tgt.id][1]
                env2[tgt.id] = (tgt.id, ty)
                # a value that reads the block's state reads it NOW (not what an enclosing test has read)
                return self.with_state(reads, f'{pad}let {tgt.id} := {t}\n' + self.block(rest, env2, fall, ind, live), pad)
            if tp in self.t.get('assign', {}):
                t, ty = self.expr(s.value, env)
                want, lean = self.t['assign'][tp]
                if ty != want:
                    raise self.U(f'{tp} = <{ty}>')
                return f'{pad}M.bind ({lean.format(P=P, x=t)}) fun _ =>\n' + self.block(rest, env, fall, ind, live)
            if isinstance(tgt, ast.Subscript) and isinstance(tgt.slice, ast.Constant) and isinstance(tgt.slice.value, str):
                base = path_or_none(tgt.value)
                if base in env and env[base][1] == 'data':
                    t, ty = self.expr(s.value, env)
                    key = (tgt.slice.value, ty)
                    if key not in self.t.get('setitem', {}):
                        raise self.U(f"{base}[{tgt.slice.value!r}] = <{ty}>")
                    env2 = dict(env)
                    env2[base] = (base, 'data')
                    return (f"{pad}let {base} := {self.t['setitem'][key].format(P=P, d=env[base][0], x=t)}\n"
                            + self.block(rest, env2, fall, ind, live))
            if (isinstance(tgt, ast.Attribute) and tgt.attr in self.t.get('ignore_attrs', ())
                    and path_or_none(tgt.value) in env and isinstance(s.value, ast.Name)):
                return self.block(rest, env, fall, ind, live)
            raise self.U('assignment ' + ast.unparse(s)[:80])
        # ---- if
        if isinstance(s, ast.If):
            return self.if_(s, rest, env, fall, ind, live)
        if isinstance(s, ast.While):
            return self.while_(s, rest, env, fall, ind, live)
        if isinstance(s, ast.For):
            return self.for_(s, rest, env, fall, ind, live)
        if isinstance(s, ast.Try):
            return self.try_(s, rest, env, fall, ind, live)
        if isinstance(s, ast.With):
            return self.with_(s, rest, env, fall, ind, live)
        raise self.U('statement ' + ast.unparse(s)[:80])

    def narrowing(self, test, env):
        """`NAME is None` / `NAME is not None` on an optional local -> (name, inner type, none_first)"""
        if (isinstance(test, ast.Compare) and len(test.ops) == 1 and isinstance(test.ops[0], (ast.Is, ast.IsNot))
                and isinstance(test.comparators[0], ast.Constant) and test.comparators[0].value is None
                and isinstance(test.left, ast.Name) and test.left.id in env
                and env[test.left.id][1] in ('optetype', 'opthandler')):
            return test.left.id, env[test.left.id][1][3:], isinstance(test.ops[0], ast.Is)
        # `if handler:` / `if not handler:` narrow only when truthiness and `is not None` coincide for the type
        if isinstance(test, ast.Name) and test.id in env and env[test.id][1] in self.always_true_opts():
            return test.id, env[test.id][1][3:], False
        if (isinstance(test, ast.UnaryOp) and isinstance(test.op, ast.Not) and isinstance(test.operand, ast.Name)
                and test.operand.id in env and env[test.operand.id][1] in self.always_true_opts()):
            return test.operand.id, env[test.operand.id][1][3:], True
        return None

    def if_(self, s, rest, env, fall, ind, live):
        pad = '  ' * ind
        body, orelse = list(s.body), list(s.orelse)
        b_ends, e_ends = self.ends(body), self.ends(orelse)
        nar = self.narrowing(s.test, env)
        if not rest or b_ends or e_ends:
            b_stmts = body + ([] if b_ends else rest)
            e_stmts = orelse + ([] if e_ends else rest)
            head, tail, fall_b, fall_e, env_after = '', '', fall, fall, None
        else:
            J, jfall, after, binder = self.join([body, orelse], rest, env, live)
            b_stmts, e_stmts = body, orelse
            fall_b = fall_e = jfall
            head = f'{pad}M.bind (\n'
            tail = None
        if nar is not None:
            name, inner, none_first = nar
            env_some = dict(env)
            env_some[name] = (name, inner)
            some_stmts, none_stmts = (e_stmts, b_stmts) if none_first else (b_stmts, e_stmts)
            i2 = ind + (2 if head else 1)
            txt = (f"{'  ' * (i2 - 1)}match {env[name][0]} with\n{'  ' * (i2 - 1)}| none =>\n"
                   + self.block(none_stmts, env, fall_b, i2, live if not head else set(live) | names_used(rest))
                   + f"\n{'  ' * (i2 - 1)}| some {name} =>\n"
                   + self.block(some_stmts, env_some, fall_b, i2, live if not head else set(live) | names_used(rest)))
        else:
            c, reads = self.cond(s.test, env)
            i2 = ind + (2 if head else 1)
            lv = live if not head else set(live) | names_used(rest)
            txt = (f"{'  ' * (i2 - 1)}if {c} then\n" + self.block(b_stmts, env, fall_b, i2, lv)
                   + f"\n{'  ' * (i2 - 1)}else\n" + self.block(e_stmts, env, fall_e, i2, lv))
            txt = self.with_state(reads, txt, '  ' * (i2 - 1))
        if not head:
            return txt
        return head + txt + f'\n{pad}) {binder}\n' + self.block(rest, after(env), fall, ind, live)

    def free_params(self, stmts_nodes, env, exclude):
        used = set()
        for n in stmts_nodes:
            for m in ast.walk(n):
                if isinstance(m, ast.Name):
                    used.add(m.id)
        return [v for v in env if not v.startswith('$') and v in used and v not in exclude and env[v][1] in LEAN_TY]

    def while_(self, s, rest, env, fall, ind, live):
        if s.orelse:
            raise self.U('while ... else')
        pad = '  ' * ind
        body = list(s.body)
        assigned = names_assigned(body)
        need = names_used([ast.Expr(s.test)]) | names_used(rest) | set(live) | {v for v in names_used(body) if v in env}
        carried = [v for v in assigned if v in need]
        for v in carried:
            if v not in env:
                raise self.U(f'loop variable {v} unbound before the loop')
        free = self.free_params([s.test] + body, env, carried)
        self.nloops += 1
        self.needs_fuel = True
        fname = f"{self.t['name']}_loop{self.nloops}"
        env_l = {v: env[v] for v in free + carried}
        env_l = {v: (v, ty) for v, (_, ty) in env_l.items()}
        c, reads = self.cond(s.test, env_l)

        def loop_fall(env2):
            return f'{fname} {self.P} ' + ' '.join(free) + (' ' if free else '') + 'fuel ' + ' '.join(env2[v][0] if ' ' not in env2[v][0] else f'({env2[v][0]})' for v in carried)
        inner = self.block(body, env_l, loop_fall, 3, set(carried))
        ret_vals = 'M.pure (' + ', '.join(carried) + ')'
        loop_body = f'    if {c} then\n{inner}\n    else\n      {ret_vals}'
        loop_body = self.with_state(reads, loop_body, '    ')
        cty = ' × '.join(LEAN_TY[env[v][1]] for v in carried) or 'Unit'
        sig = (f"def {fname} {self.t['tyvars']} ({self.P} : {self.t['prims']}) "
               + ' '.join(f'({v} : {LEAN_TY[env[v][1]]})' for v in free)
               + ' : Nat → ' + ' → '.join(LEAN_TY[env[v][1]] for v in carried) + f" → M σ ε {self.t['ret_lean']} ({cty})")
        pats = ', '.join(carried)
        self.aux.append(
            f"/- the `while {ast.unparse(s.test)}` loop of `{self.t['doc']}` (fuel = iterations still allowed) -/\n"
            f"{sig}\n  | 0, {', '.join('_' for _ in carried)} => M.diverge\n  | fuel + 1, {pats} =>\n{loop_body}")
        binder = 'fun ' + carried[0] + ' =>' if len(carried) == 1 else 'fun (' + ', '.join(carried) + ') =>'
        call = f'{fname} {self.P} ' + ' '.join(env[v][0] for v in free) + (' ' if free else '') + 'fuel ' + ' '.join(env[v][0] for v in carried)
        env3 = dict(env)
        for v in carried:
            env3[v] = (v, env[v][1])
        return f'{pad}M.bind ({call}) {binder}\n' + self.block(rest, env3, fall, ind, live)

    def for_(self, s, rest, env, fall, ind, live):
        if s.orelse or not isinstance(s.target, ast.Name):
            raise self.U('for loop ' + ast.unparse(s)[:60])
        pad = '  ' * ind
        var = s.target.id
        body = list(s.body)
        # for key in <mapping>: if not isinstance(key, str): raise E(...)
        it = path_or_none(s.iter)
        if it in env and (env[it][1], 'keys') in self.t.get('iter', {}):
            lean = self.t['iter'][(env[it][1], 'keys')]
            if (len(body) == 1 and isinstance(body[0], ast.If) and not body[0].orelse
                    and ast.unparse(body[0].test) == f'not isinstance({var}, str)'
                    and len(body[0].body) == 1 and isinstance(body[0].body[0], ast.Raise)):
                raise_ = self.block(body[0].body, env, fall, ind + 1, live)
                return (f"{pad}if {lean.format(P=self.P, x=env[it][0])} then\n{raise_}\n{pad}else\n"
                        + self.block(rest, env, fall, ind + 1, live))
            raise self.U('loop over the keys of a mapping: ' + ast.unparse(s)[:80])
        if it not in self.t.get('lists', {}):
            raise self.U('for loop over ' + ast.unparse(s.iter)[:60])
        lname, ety = self.t['lists'][it]
        assigned = names_assigned(body)
        need = names_used(rest) | set(live) | {v for v in names_used(body) if v in env}
        carried = [v for v in assigned if v in need and v != var]
        for v in carried:
            if v not in env:
                raise self.U(f'loop variable {v} unbound before the loop')
        free = self.free_params(body, env, carried + [var])
        self.nloops += 1
        fname = f"{self.t['name']}_for{self.nloops}"
        env_l = {v: (v, env[v][1]) for v in free + carried}
        env_l[var] = (var, ety)

        def loop_fall(env2):
            return f'{fname} {self.P} ' + ' '.join(free) + (' ' if free else '') + 'rest_ ' + ' '.join(env2[v][0] for v in carried)
        inner = self.block(body, env_l, loop_fall, 2, set(carried))
        cty = ' × '.join(LEAN_TY[env[v][1]] for v in carried) or 'Unit'
        sig = (f"def {fname} {self.t['tyvars']} ({self.P} : {self.t['prims']}) "
               + ' '.join(f'({v} : {LEAN_TY[env[v][1]]})' for v in free)
               + f' : List {LEAN_TY[ety]} → ' + ' → '.join(LEAN_TY[env[v][1]] for v in carried) + f" → M σ ε {self.t['ret_lean']} ({cty})")
        pats = ', '.join(carried)
        self.aux.append(
            f"/- the `for {var} in {ast.unparse(s.iter)}` loop of `{self.t['doc']}` -/\n"
            f"{sig}\n  | [], {pats} => M.pure ({pats})\n  | {var} :: rest_, {pats} =>\n{inner}")
        binder = 'fun ' + carried[0] + ' =>' if len(carried) == 1 else 'fun (' + ', '.join(carried) + ') =>'
        call = f'{fname} {self.P} ' + ' '.join(env[v][0] for v in free) + (' ' if free else '') + f'{lname} ' + ' '.join(env[v][0] for v in carried)
        env3 = dict(env)
        for v in carried:
            env3[v] = (v, env[v][1])
        return f'{pad}M.bind ({call}) {binder}\n' + self.block(rest, env3, fall, ind, live)

    def try_(self, s, rest, env, fall, ind, live):
        if s.orelse:
            raise self.U('try ... else')
        P = self.P
        pad = '  ' * ind
        parts = [list(s.body)] + [list(h.body) for h in s.handlers]
        J, jfall, after, binder = self.join(parts, rest, env, live)
        lv = set(live) | names_used(rest)
        txt = self.block(list(s.body), env, jfall, ind + 2, lv)
        if s.handlers:
            arms = ''
            ip = '  ' * (ind + 2)
            for h in s.handlers:
                cls = ast.unparse(h.type) if h.type is not None else 'BaseException'
                if cls not in self.t.get('catchable', ()):
                    raise self.U(f'except {cls}')
                envh = dict(env)
                envh['$exc'] = ('exc_', 'exc')
                if h.name:
                    envh[h.name] = ('exc_', 'exc')
                arms += (f'{ip}if {P}.excIs exc_ "{cls}" then\n' + self.block(list(h.body), envh, jfall, ind + 3, lv)
                         + f'\n{ip}else\n')
            arms += f'{ip}  M.raise exc_'
            txt = f"{'  ' * (ind + 1)}M.tryExcept (\n{txt}\n{'  ' * (ind + 1)}) (fun exc_ =>\n{arms})"
        if s.finalbody:
            fin = self.block(list(s.finalbody), env, lambda e: 'M.pure ()', ind + 2, ())
            txt = f"{'  ' * (ind + 1)}M.tryFinally (\n{txt}\n{'  ' * (ind + 1)}) (\n{fin})"
        if not rest and not J:
            # nothing follows: the value of the try statement is the value of the block
            return f'{pad}M.bind (\n{txt}\n{pad}) fun (_ : Unit) =>\n' + self.block([], after(env), fall, ind, live)
        return f'{pad}M.bind (\n{txt}\n{pad}) {binder}\n' + self.block(rest, after(env), fall, ind, live)

    def with_(self, s, rest, env, fall, ind, live):
        pad = '  ' * ind
        if len(s.items) != 1 or s.items[0].optional_vars is not None:
            raise self.U('with statement ' + ast.unparse(s)[:60])
        p = path_or_none(s.items[0].context_expr)
        if p not in self.t.get('contexts', {}):
            raise self.U(f'context manager {p}')
        enter, exit_ = self.t['contexts'][p]
        J, jfall, after, binder = self.join([list(s.body)], rest, env, live)
        body = self.block(list(s.body), env, jfall, ind + 2, set(live) | names_used(rest))
        return (f'{pad}M.bind (M.withCtx {enter.format(P=self.P)} {exit_.format(P=self.P)} (\n{body}\n{pad}  )) {binder}\n'
                + self.block(rest, after(env), fall, ind, live))

    # ------------------------------------------------------------------ a function
    def check_header(self, fn):
        """what the body relies on without saying so: the parameters (e.g. `**data` is a fresh dict, so that
        storing into it is invisible to the caller), no decorator wrapping the method, not a coroutine"""
        if 'signature' in self.t:
            if not isinstance(fn, ast.FunctionDef):
                raise self.U('not a plain function')
            if fn.decorator_list:
                raise self.U('decorated method')
            args = ast.unparse(ast.arguments(
                posonlyargs=[ast.arg(arg=a.arg) for a in fn.args.posonlyargs], args=[ast.arg(arg=a.arg) for a in fn.args.args],
                vararg=fn.args.vararg and ast.arg(arg=fn.args.vararg.arg), kwonlyargs=[ast.arg(arg=a.arg) for a in fn.args.kwonlyargs],
                kw_defaults=fn.args.kw_defaults, kwarg=fn.args.kwarg and ast.arg(arg=fn.args.kwarg.arg), defaults=fn.args.defaults))
            if args != self.t['signature']:
                raise self.U(f"signature ({args}), expected ({self.t['signature']})")

    def function(self, fn):
        self.check_header(fn)
        env = {}
        for name, ty in self.t['args']:
            env[name] = (name, ty)
        body = self.block(list(fn.body), env, lambda e: 'M.pure ()', 1)
        params = ' '.join(f'({n} : {LEAN_TY.get(ty, ty)})' for n, ty in self.t['args'] + self.t.get('extra_params', []))
        fuel = '(fuel : Nat) ' if self.needs_fuel else ''
        sig = (f"def {self.t['name']} {self.t['tyvars']} ({self.P} : {self.t['prims']}) {fuel}{params} : "
               f"M σ ε {self.t['ret_lean']} Unit :=")
        return '\n\n'.join(self.aux + [sig + '\n' + body])


HEADER = r'''/- GENERATED by tools/py2lean.py (tools/py2lean_dispatch.py) from the Python source of edzed
   (block.SBlock.event, block.Event.send) -- do not edit -/

set_option linter.unusedVariables false

namespace Edzed.Gen.TrD

/-! The monad of the translated programs: state, exceptions, early `return`.  The combinators are the
    (fixed) meaning of Python's control statements; the programs below are generated. -/

/-- how a list of statements ends -/
inductive Out (ε ρ α : Type) where
  | next (a : α)      -- fell through; `a` = the local variables that are used afterwards
  | ret (r : ρ)       -- `return r`
  | raise (e : ε)     -- an exception propagates
  | diverged          -- a `while` loop ran out of fuel (model artefact)
  deriving Repr

abbrev M (σ ε ρ α : Type) := σ → σ × Out ε ρ α

namespace M
variable {σ ε ρ α β γ : Type}

def pure (a : α) : M σ ε ρ α := fun s => (s, .next a)
def bind (m : M σ ε ρ α) (k : α → M σ ε ρ β) : M σ ε ρ β := fun s =>
  match m s with
  | (s1, .next a) => k a s1
  | (s1, .ret r) => (s1, .ret r)
  | (s1, .raise e) => (s1, .raise e)
  | (s1, .diverged) => (s1, .diverged)
def raise (e : ε) : M σ ε ρ α := fun s => (s, .raise e)
def ret (r : ρ) : M σ ε ρ α := fun s => (s, .ret r)
def diverge : M σ ε ρ α := fun s => (s, .diverged)
def get : M σ ε ρ σ := fun s => (s, .next s)
def modify (f : σ → σ) : M σ ε ρ Unit := fun s => (f s, .next ())

/-- `try: body  finally: fin` -- `fin` runs on every outcome; its own `return`/exception wins -/
def tryFinally (body : M σ ε ρ α) (fin : M σ ε ρ Unit) : M σ ε ρ α := fun s =>
  match body s with
  | (s1, o) =>
    match fin s1 with
    | (s2, .next _) => (s2, o)
    | (s2, .ret r) => (s2, .ret r)
    | (s2, .raise e) => (s2, .raise e)
    | (s2, .diverged) => (s2, .diverged)

/-- `try: body  except …: handler` -- `handler` receives the exception (and re-raises what it does not catch) -/
def tryExcept (body : M σ ε ρ α) (handler : ε → M σ ε ρ α) : M σ ε ρ α := fun s =>
  match body s with
  | (s1, .raise e) => handler e s1
  | p => p

/-- `with cm: body` for a context manager whose `__exit__` returns a false value:
    `__enter__`, the body, `__exit__` on every outcome -/
def withCtx (enter : M σ ε ρ γ) (exit : γ → M σ ε ρ Unit) (body : M σ ε ρ α) : M σ ε ρ α :=
  bind enter fun g => tryFinally body (exit g)

end M

/-- the leaves of `SBlock.event`: what the attribute accesses, tests and calls of the method mean.
    σ state, ε exceptions, τ event types, δ event data, ν data items, η handlers, ρ return values,
    γ what `_enable_event.__enter__` remembers -/
structure EventPrims (σ ε τ δ ν η ρ γ : Type) where
  isStr : τ → Bool                    -- `isinstance(etype, str)`
  etypeTruthy : τ → Bool              -- `bool(etype)` (a str: non-empty)
  isEventType : τ → Bool              -- `isinstance(etype, EventType)`
  isCond : τ → Bool                   -- `isinstance(etype, EventCond)`
  etrue : τ → Option τ                -- `etype.etrue`  (None or an event type)
  efalse : τ → Option τ               -- `etype.efalse`
  dataValue : δ → ν                   -- `data.get('value')`
  valTruthy : ν → Bool
  mkExc : String → String → ε         -- `Class(message)`: the class and the declared marker found in the message
                                      -- ("recursion" for a message containing 'Forbidden recursive', else "")
  excIs : ε → String → Bool           -- is the exception caught by `except Class`
  tbDeep : ε → Bool                   -- `err.__traceback__.tb_next is not None`
  getActive : σ → Bool                -- `self._event_active`
  setActive : Bool → M σ ε ρ Unit     -- `self._event_active = b`
  abort : ε → M σ ε ρ Unit            -- `self.circuit.abort(exc)`
  initSteps : σ → Int                 -- `self.init_steps_completed`
  enableEnter : M σ ε ρ γ             -- `self._enable_event.__enter__()`
  enableExit : γ → M σ ε ρ Unit       -- `….__exit__(…)`
  initSblockFull : M σ ε ρ Unit       -- `self.circuit.init_sblock(self, full=True)`
  lookup : τ → Option η               -- `type(self)._ct_handlers.get(etype)`
  callHandler : η → δ → M σ ε ρ ρ     -- `handler(self, **data)`
  callDefault : τ → δ → M σ ε ρ ρ     -- `self._event(etype, data)`
  noneVal : ρ                         -- `None` as the value of `event()`

/-- the leaves of `Event.send`; φ filters, ψ what a filter returns -/
structure SendPrims (σ ε δ φ ψ : Type) where
  sameCircuit : Bool                  -- `source.circuit is dest.circuit is simulator.get_circuit()`
  mkExc : String → String → ε
  setSource : δ → δ                   -- `data['source'] = source.name`
  applyFilter : φ → δ → M σ ε Bool ψ  -- `efilter(data)` (user code: an action that may raise)
  isMapping : ψ → Bool                -- `isinstance(retval, MutableMapping)`
  anyKeyNotStr : ψ → Bool             -- some `key in retval` with `not isinstance(key, str)`
  asData : ψ → δ                      -- the mapping as the new event data
  resTruthy : ψ → Bool                -- `bool(retval)`
  resIsNone : ψ → Bool                -- `retval is None`
  destEvent : δ → M σ ε Bool Unit     -- `dest.event(self._etype, **data)`

'''


def subclasses(cls):
    out = []
    for c in cls.__subclasses__():
        out.append(c)
        out.extend(subclasses(c))
    return out


def not_overridden(api, cls, name):
    """the method the tie is about must be the one that runs: no class of edzed overrides it"""
    import edzed    # noqa: F401  (all block classes of the library are loaded)
    for c in subclasses(cls):
        if c.__module__.startswith('edzed') and name in vars(c):
            raise api['Untranslatable'](f'{cls.__name__}.{name} is overridden in {c.__module__}.{c.__name__}')
    return api['fn_ast'](vars(cls)[name])


def event_target(api):
    block = api['block']
    return dict(
        name='event', doc='block.SBlock.event', node=lambda: not_overridden(api, block.SBlock, 'event'),
        signature='self, etype, /, **data',
        P='P', prims='EventPrims σ ε τ δ ν η ρ γ', tyvars='{σ ε τ δ ν η ρ γ : Type}', ret_lean='ρ',
        args=[('etype', 'etype'), ('data', 'data')],
        ret_none='{P}.noneVal', ret_type='retval',
        ignore=('self.log_*', '_logger.*'),
        ignore_attrs=('__cause__',),
        exceptions=('ValueError', 'TypeError', 'EdzedCircuitError', 'EdzedUnknownEvent', 'EdzedInvalidState'),
        message_markers={'Forbidden recursive': 'recursion'},
        catchable=('EdzedUnknownEvent', 'Exception'),
        state={'self._event_active': ('P.getActive st', 'bool'),
               'self.init_steps_completed': ('P.initSteps st', 'int')},
        attrs={('etype', 'etrue'): ('{P}.etrue {x}', 'optetype'), ('etype', 'efalse'): ('{P}.efalse {x}', 'optetype')},
        isinstance={('etype', 'str'): '{P}.isStr {x}', ('etype', 'EventType'): '{P}.isEventType {x}',
                    ('etype', 'EventCond'): '{P}.isCond {x}'},
        methods=[('data', 'get', ['value'], '{P}.dataValue {x}', 'dataval')],
        calls=[('type(self)._ct_handlers.get', [('ty', 'etype')], '{P}.lookup {a[0]}', 'opthandler')],
        var_calls=[('handler', [('self',), ('starstar', 'data')], '!{P}.callHandler {f} {a[0]}', 'retval')],
        effects=[('self.circuit.abort', [('ty', 'exc')], '{P}.abort {a[0]}', 'unit'),
                 ('self.circuit.init_sblock', [('self',), ('kw', 'full', True)], '{P}.initSblockFull', 'unit'),
                 ('self._event', [('ty', 'etype'), ('ty', 'data')], '{P}.callDefault {a[0]} {a[1]}', 'retval')],
        assign={'self._event_active': ('bool', '{P}.setActive {x}')},
        contexts={'self._enable_event': ('{P}.enableEnter', '{P}.enableExit')},
    )


def send_target(api):
    block = api['block']
    return dict(
        name='send', doc='block.Event.send', node=lambda: not_overridden(api, block.Event, 'send'),
        signature='self, source, /, **data',
        P='Q', prims='SendPrims σ ε δ φ ψ', tyvars='{σ ε δ φ ψ : Type}', ret_lean='Bool',
        args=[('data', 'data')], extra_params=[('filters', 'List φ')],
        ret_type='bool',
        ignore=('self.log_*', 'source.log_*', '_logger.*'),
        exceptions=('ValueError', 'TypeError', 'EdzedCircuitError'),
        atoms={'source.circuit is dest.circuit is simulator.get_circuit()': ('Q.sameCircuit', 'bool'),
               'self._dest': ('()', 'dest'), 'source.name': ('()', 'srcname')},
        setitem={('source', 'srcname'): '{P}.setSource {d}'},
        lists={'self._filters': ('filters', 'filter')},
        # a filter is user code: it may raise and may have effects, so its position is part of the program
        var_calls=[('filter', [('ty', 'data')], '!{P}.applyFilter {f} {a[0]}', 'fres')],
        isinstance={('fres', 'MutableMapping'): '{P}.isMapping {x}'},
        iter={('fres', 'keys'): '{P}.anyKeyNotStr {x}'},
        convert={('fres', 'data'): '{P}.asData {x}'},
        method_effects=[('dest', 'event', [('path', 'self._etype'), ('starstar', 'data')], '{P}.destEvent {a[0]}', 'unit')],
    )


def main(outfile, api):
    Ctx.Untranslatable = api['Untranslatable']
    Ctx.node_path = staticmethod(api['node_path'])
    L = [HEADER.rstrip('\n'), '']

    def translate(t):
        return TrProg(t).function(t['node']())

    for t in (event_target(api), send_target(api)):
        api['emit'](L, t, translate, ': the statements of the method in program order')
    L.append('end Edzed.Gen.TrD')
    api['write_if_changed'](outfile, '\n'.join(L) + '\n')
