#!/usr/bin/env python3
"""
Development self-test (not a registered check): apply small source mutations to scratch copies of the
repository and run a property check against each (EDZED_SRC=<copy>).

usage: tools/mutants.py <PROP> <mutants.json> [--tier quick] [--keep]
mutants.json: [{"name": ..., "file": "edzed/simulator.py", "old": "...", "new": "...", "count": 1}, ...]
Each mutant must be reported (exit 1 + VIOLATION line); prints a table.
"""
import json
import os
import shutil
import subprocess
import sys
import tempfile

ROOT = os.path.dirname(os.path.dirname(os.path.abspath(__file__)))


def main():
    prop, spec = sys.argv[1], sys.argv[2]
    tier = 'quick'
    if '--tier' in sys.argv:
        tier = sys.argv[sys.argv.index('--tier') + 1]
    muts = json.load(open(spec))
    base = tempfile.mkdtemp(prefix=f'mut-{prop}-', dir='/tmp')
    results = []
    try:
        for i, m in enumerate(muts):
            d = os.path.join(base, f'm{i}')
            os.makedirs(d)
            # MUTANTS_BASE: the tree the mutants are applied to (default the real repository)
            shutil.copytree(os.path.join(os.environ.get('MUTANTS_BASE', '/repo'), 'edzed'), os.path.join(d, 'edzed'),
                            ignore=shutil.ignore_patterns('__pycache__'))
            path = os.path.join(d, m['file'])
            text = open(path).read()
            cnt = text.count(m['old'])
            if cnt != m.get('count', 1):
                results.append((m['name'], f'PATTERN FOUND {cnt}x', ''))
                continue
            open(path, 'w').write(text.replace(m['old'], m['new']))
            env = dict(os.environ, EDZED_SRC=d)
            p = subprocess.run([os.path.join(ROOT, 'check'), prop, '--tier', tier], capture_output=True,
                               text=True, env=env, cwd=ROOT)
            viol = [l for l in p.stdout.split('\n') if l.startswith('VIOLATION')]
            detail = ''
            if viol:
                rp = viol[0].split('replay=')[1].split()[0]
                try:
                    r = json.load(open(rp))
                    detail = (r.get('oracle') or {}).get('clause') or r.get('kind')
                except Exception:
                    pass
                detail = f"{detail}{' no-failing-input' if 'no-failing-input-found' in viol[0] else ''}"
            status = {0: 'MISSED', 1: 'caught', 2: 'INFRA'}.get(p.returncode, str(p.returncode))
            if p.returncode == 2:
                detail = (p.stderr or '')[-300:].replace('\n', ' | ')
            results.append((m['name'], status, detail))
            shutil.rmtree(d)
    finally:
        shutil.rmtree(base, ignore_errors=True)
        # the check rewrote the evidence for the mutant; restore it for the real tree
        subprocess.run([os.path.join(ROOT, 'check'), prop, '--tier', 'quick'], capture_output=True, cwd=ROOT)
    w = max(len(r[0]) for r in results)
    for name, status, detail in results:
        print(f'{name:<{w}}  {status:<8} {detail}')
    return 0 if all(r[1] == 'caught' for r in results) else 1


if __name__ == '__main__':
    sys.exit(main())
