#!/usr/bin/env python3
"""
Evaluate a batch of seeded changes in parallel (development tool, not a registered check).

usage: tools/seed_batch.py <dir-with-out-<PROP>/<name>/{patch.diff,demo.py,needs.txt}> [--workers 4] [--checks-all C02,C06]

Every worker owns a worktree of /verif under /tmp/vw/sb<i> (its own copy of lean/.lake, hence its own generated
files and build lock) and runs that worktree's tools/seed_eval.py; the resulting seeded/<PROP>-<name>/ directory is
copied back into this /verif.  The scratch worktrees of /repo are made (and removed) by seed_eval.py itself.
"""
import argparse
import glob
import json
import os
import queue
import shutil
import subprocess
import sys
import threading

ROOT = os.path.dirname(os.path.dirname(os.path.abspath(__file__)))

# neighbours whose ties see the same code (the check of the property itself always runs)
NEIGH = {
    'C01': 'C10,C15,C02', 'C02': 'C01,C11,C16', 'C03': 'C04,C06', 'C04': 'C03,C06,C08', 'C05': 'C09,C06',
    'C06': 'C04,C17,C08', 'C07': 'C13', 'C08': 'C09,C12', 'C09': 'C08,C11,C14', 'C10': 'C01', 'C11': 'C02,C09',
    'C12': 'C08', 'C13': 'C07', 'C14': 'C09,C11', 'C15': 'C01,C16', 'C16': 'C02,C11', 'C17': 'C06,C11',
    'C18': 'C02,C11', 'C19': 'C04,C18', 'C20': 'C06,C11',
}


def sh(cmd, **kw):
    return subprocess.run(cmd, shell=True, capture_output=True, text=True, **kw)


def main():
    ap = argparse.ArgumentParser()
    ap.add_argument('src')
    ap.add_argument('--workers', type=int, default=4)
    ap.add_argument('--only', default='')
    ap.add_argument('--note', default='round 10')
    a = ap.parse_args()
    jobs = queue.Queue()
    for d in sorted(glob.glob(os.path.join(a.src, 'out-C*', '*', 'patch.diff'))):
        dd = os.path.dirname(d)
        prop = os.path.basename(os.path.dirname(dd)).split('-')[1]
        name = f'{prop}-{os.path.basename(dd)}'
        if a.only and name not in a.only.split(','):
            continue
        if not os.path.exists(os.path.join(dd, 'demo.py')):
            print('no demo:', dd)
            continue
        if os.path.exists(os.path.join(ROOT, 'seeded', name, 'meta.json')):
            print('already evaluated:', name)
            continue
        jobs.put((prop, name, dd))
    print('jobs:', jobs.qsize(), flush=True)

    def worker(i):
        vw = f'/tmp/vw/sb{i}'
        os.makedirs('/tmp/vw', exist_ok=True)
        sh(f'git -C {ROOT} worktree remove --force {vw}')
        r = sh(f'git -C {ROOT} worktree add --detach {vw} HEAD')
        assert r.returncode == 0, r.stderr
        sh(f'cp -a {ROOT}/lean/.lake {vw}/lean/.lake')
        try:
            while True:
                try:
                    prop, name, dd = jobs.get_nowait()
                except queue.Empty:
                    return
                needs = ''
                if os.path.exists(os.path.join(dd, 'needs.txt')):
                    needs = ' '.join(open(os.path.join(dd, 'needs.txt')).read().split())[:600]
                cmd = ['/venv/bin/python', f'{vw}/tools/seed_eval.py', prop, name, os.path.join(dd, 'patch.diff'),
                       os.path.join(dd, 'demo.py'), '--needs', needs, '--note', a.note, '--checks', NEIGH.get(prop, '')]
                p = subprocess.run(cmd, capture_output=True, text=True)
                out = os.path.join(vw, 'seeded', name)
                if os.path.exists(os.path.join(out, 'meta.json')):
                    dst = os.path.join(ROOT, 'seeded', name)
                    shutil.rmtree(dst, ignore_errors=True)
                    shutil.copytree(out, dst)
                    m = json.load(open(os.path.join(dst, 'meta.json')))
                    print(f"{name}: confirmed={m.get('confirmed')} caught_by={m.get('caught_by')} "
                          f"demo={m['demo_unchanged']['exit']}/{m['demo_patched']['exit']} "
                          f"tests_ok={m.get('tests_patched', {}).get('ok')}", flush=True)
                    # keep the replay files of the catches for the record of what was reported
                else:
                    print(f'{name}: NO RESULT\n{p.stdout[-500:]}\n{p.stderr[-800:]}', flush=True)
        finally:
            sh(f'git -C {ROOT} worktree remove --force {vw}')

    ts = [threading.Thread(target=worker, args=(i,)) for i in range(a.workers)]
    for t in ts:
        t.start()
    for t in ts:
        t.join()


if __name__ == '__main__':
    sys.exit(main())
