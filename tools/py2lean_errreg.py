"""
Translator for the life-cycle ENTRY POINTS of the simulator (property C09, "the first error wins"):
`Circuit._check_started`, `Circuit.wait_init`, `Circuit.shutdown`, the module-level `run()` and the three
methods of its SIGTERM context manager `_TerminatingSignal` (edzed/simulator.py), as Lean programs in the
state + exception + early-return monad `Edzed.Gen.TrD.M` (Gen/TranslatedDispatch.lean), regenerated from the
CURRENT Python AST into lean/EdzedModel/Gen/TranslatedErrReg.lean (two-line hook at the end of py2lean.main).

The statement translator is the one of tools/py2lean_lifecycle.py (`TrLife`, itself built on `TrProg` of
tools/py2lean_dispatch.py): order of statements, if / elif / else, `for` loops as structural recursion with
loop-carried variables, try / except (classes in the order written) / finally, `with`, raise / return and
every condition come from the AST.  `await X` is a call of the primitive X, which returns, raises, or is
interrupted by a cancellation (= raises CancelledError); what happens in the rest of the world while the
coroutine is suspended is the business of the primitive's instantiation (EdzedProofs/ErrorRegTie.lean).
Additions of this module (all driven by the AST as well):

  * `await <name or attribute path>` (`await self._simtask`, `await task`) -> the declared primitive;
  * list displays `[simtask]`, slices `all_tasks[1:]` (-> `List.drop 1`), `all_tasks.extend(<declared
    generator>)` (-> `all_tasks ++ …`), `enumerate(all_tasks, start=-1)` (-> `enumFrom (-1) …`, defined in the
    header) with the tuple target split by the normaliser;
  * `NAME = None` for a local that is elsewhere assigned a caught exception (an Optional[exception]); `if NAME is None: NAME = …` is NOT narrowed
    (the name is assigned in the branch) but tested with `isNone`;
  * message strings (`msg = "…" + f"…{hole}…"`, `Exc(f"…{hole!r}")`) are reduced to `""` -- but a hole must be
    a plain name / attribute path, or a DECLARED may-raise primitive that is then executed where the string
    is built (`self._simtask.exception()`, `coroutines[tnum].__name__`);
  * `with <declared constructor call>:` -> `M.withCtx enter exit body` (`__exit__` returning a false value is
    what `translated_errreg_sig_exit_…` proves about the translated `__exit__`).

Declared per target is only the meaning of the leaves (fields of the `…Prims` structures below).
"""
import ast
import copy

import py2lean_dispatch as D
import py2lean_lifecycle as L

LEAN_TY = {'tsk': 'τ', 'tsklist': 'List τ', 'numtsk': '(Int × τ)', 'numtsklist': 'List (Int × τ)',
           'corolist': 'List κ', 'iwaiter': 'ω', 'circ': 'Unit', 'callsoon': 'Unit', 'str': 'String',
           'optexc': 'Option ε', 'int': 'Int', 'bool': 'Bool', 'unit': 'Unit', 'exc': 'ε',
           'optsigno': 'Option Unit', 'signo': 'Unit', 'errarg': 'α', 'srcarg': 'Unit', 'notearg': 'Unit'}
D.LEAN_TY.update({k: v for k, v in LEAN_TY.items() if k not in D.LEAN_TY})


# ---------------------------------------------------------------------------------------- normalisation

class NormE(L.Normalizer):
    """as tools/py2lean_lifecycle.py, plus `await <name / attribute path>` -> the synthetic call `__await(<path>)`, and
    (when the target declares `with_cause`) `NAME.__cause__ = e` -> `NAME = __with_cause(NAME, e)`, so that the
    exception WITH its cause is a new value of the local (joined after an `if` like any other assignment)"""

    def run(self, fn):
        fn = super().run(fn)
        if 'with_cause' in self.t:
            class T(ast.NodeTransformer):
                def visit_Assign(s, n):                      # pylint: disable=no-self-argument
                    if (len(n.targets) == 1 and isinstance(n.targets[0], ast.Attribute) and n.targets[0].attr == '__cause__'
                            and isinstance(n.targets[0].value, ast.Name)):
                        name = n.targets[0].value.id
                        return ast.Assign(targets=[ast.Name(name, ast.Store())],
                                          value=ast.Call(ast.Name('__with_cause', ast.Load()),
                                                         [ast.Name(name, ast.Load()), n.value], []), lineno=0)
                    return n
            fn = T().visit(fn)
            ast.fix_missing_locations(fn)
        return fn

    def strip_await(self, node):
        awaited = set(self.t.get('awaited', ()))
        seen_calls = set()
        U = self.U

        class T(ast.NodeTransformer):
            def visit_Await(s, n):                       # pylint: disable=no-self-argument
                n = s.generic_visit(n)
                if isinstance(n.value, ast.Call):
                    p = ast.unparse(n.value.func)
                    if p not in awaited:
                        raise U(f'await {p}(...): not a declared awaited primitive')
                    seen_calls.add(id(n.value))
                    return n.value
                if isinstance(n.value, (ast.Name, ast.Attribute)):
                    return ast.Call(ast.Name('__await', ast.Load()), [n.value], [])
                raise U('await of ' + ast.unparse(n.value)[:60])
        node = T().visit(node)
        # a coroutine call that is neither awaited nor handed to asyncio.create_task is a bug (or an edit)
        for n in ast.walk(node):
            if isinstance(n, ast.Call) and ast.unparse(n.func) == 'asyncio.create_task':
                for a in n.args:
                    seen_calls.add(id(a))
        for n in ast.walk(node):
            if isinstance(n, ast.Call) and id(n) not in seen_calls and ast.unparse(n.func) in awaited:
                raise U(f'{ast.unparse(n.func)}(...) is not awaited')
        return node


# ---------------------------------------------------------------------------------------- statement translator

def is_text(node):
    """a string-building expression: constants, f-strings, `+` of those"""
    if isinstance(node, ast.Constant) and isinstance(node.value, str):
        return True
    if isinstance(node, ast.JoinedStr):
        return True
    if isinstance(node, ast.BinOp) and isinstance(node.op, ast.Add):
        return is_text(node.left) and is_text(node.right)
    return False


def holes(node):
    """the expressions interpolated into a string-building expression, in evaluation order"""
    if isinstance(node, ast.JoinedStr):
        out = []
        for v in node.values:
            if isinstance(v, ast.FormattedValue):
                if v.format_spec is not None:
                    out.extend(holes(v.format_spec))
                out.append(v.value)
        return out
    if isinstance(node, ast.BinOp):
        return holes(node.left) + holes(node.right)
    return []


class TrErr(L.TrLife):
    OPT = ('optetype', 'opthandler', 'optexc', 'optsigno')
    ELEM = {'tsklist': 'tsk', 'numtsklist': 'numtsk'}

    def __init__(self, target):
        super().__init__(target)
        self._if_assigned = set()

    def truthy(self, text, ty):
        if ty in ('corolist', 'tsklist'):
            return f'(!({text}).isEmpty)'       # a tuple / list: empty is false
        if ty == 'optexc':
            # None | exception object: an exception class may define __bool__ / __len__, so `if err` is not
            # `if err is not None` for certain -- only the `is [not] None` tests are translated
            raise self.U('truthiness of an Optional[exception] (write `is [not] None`)')
        return super().truthy(text, ty)

    # ------------------------------------------------------------------ expressions
    def expr(self, node, env):
        if isinstance(node, ast.List) and node.elts:
            parts = [self.expr(e, env) for e in node.elts]
            if all(ty == 'tsk' for _, ty in parts):
                return ('[' + ', '.join(t for t, _ in parts) + ']', 'tsklist')
            raise self.U('list display ' + ast.unparse(node)[:60])
        if isinstance(node, ast.Subscript) and isinstance(node.slice, ast.Slice):
            sl = node.slice
            t, ty = self.expr(node.value, env)
            if (ty == 'tsklist' and sl.upper is None and sl.step is None and isinstance(sl.lower, ast.Constant)
                    and isinstance(sl.lower.value, int) and not isinstance(sl.lower.value, bool) and sl.lower.value >= 0):
                return (f'(List.drop {sl.lower.value} {t})', 'tsklist')
            raise self.U('slice ' + ast.unparse(node)[:60])
        return super().expr(node, env)

    def text_holes(self, node, env):
        """[lean text of a may-raise primitive] for the holes of a message, in order; refuses anything that is
        neither a declared primitive nor a plain name / attribute path"""
        out = []
        for h in holes(node):
            prim = self.hole_effect(h, env)
            if prim is not None:
                out.append(prim)
            elif not self.plain(h):
                raise self.U('interpolated into a message: `' + ast.unparse(h)[:60] + '` is neither plain nor a declared primitive')
        return out

    def marker_of(self, node):
        """the declared marker found in the constant parts of a message ('' when none is)"""
        text = self.message(node)
        found = [name for marker, name in self.t.get('message_markers', {}).items() if marker in text]
        if len(found) > 1:
            raise self.U('several markers in one message')
        return found[0] if found else ''

    def hole_effect(self, h, env):
        P = self.P
        txt = ast.unparse(h)
        for pat, lean in self.t.get('hole_effects', ()):
            if pat == txt:
                return lean.format(P=P)
        # <corolist>[<int>].__name__
        if (isinstance(h, ast.Attribute) and h.attr == '__name__' and isinstance(h.value, ast.Subscript)
                and isinstance(h.value.value, ast.Name) and isinstance(h.value.slice, ast.Name)
                and env.get(h.value.value.id, (None, None))[1] == 'corolist'
                and env.get(h.value.slice.id, (None, None))[1] == 'int' and 'coro_name' in self.t):
            return self.t['coro_name'].format(P=P, l=env[h.value.value.id][0], i=env[h.value.slice.id][0])
        return None

    def call(self, node, env):
        P = self.P
        f = node.func
        fp = D.path_or_none(f)
        # asyncio.CancelledError(<message>)
        if fp == 'asyncio.CancelledError' and 'mk_cancelled' in self.t and len(node.args) == 1 and not node.keywords:
            a = node.args[0]
            if isinstance(a, ast.Constant) and isinstance(a.value, str):
                msg = '"' + a.value.replace('\\', '\\\\').replace('"', '\\"') + '"'
            elif D.path_or_none(a) in self.t.get('msg_paths', {}):
                msg = self.t['msg_paths'][D.path_or_none(a)].format(P=P)
            elif is_text(a) and 'message_markers' in self.t:
                # an f-string: what is interpolated must be plain; of the text only a declared marker is kept
                if self.text_holes(a, env):
                    raise self.U('a may-raise primitive inside an exception message: ' + ast.unparse(node)[:60])
                msg = '"' + self.marker_of(a) + '"'
            else:
                raise self.U('message of ' + ast.unparse(node)[:60])
            return (self.t['mk_cancelled'].format(P=P, m=msg), 'exc')
        # enumerate(<tasklist>, start=<int>)
        if isinstance(f, ast.Name) and f.id == 'enumerate' and len(node.args) == 1 and f.id not in env:
            kws = {k.arg: k.value for k in node.keywords}
            if set(kws) - {'start'}:
                raise self.U('enumerate ' + ast.unparse(node)[:60])
            start = 0
            if 'start' in kws:
                try:
                    start = ast.literal_eval(kws['start'])
                except Exception:
                    raise self.U('enumerate start ' + ast.unparse(kws['start'])[:40]) from None
                if not isinstance(start, int) or isinstance(start, bool):
                    raise self.U('enumerate start ' + ast.unparse(kws['start'])[:40])
            t, ty = self.expr(node.args[0], env)
            if ty != 'tsklist':
                raise self.U('enumerate over ' + ty)
            return (f'(enumFrom ({start} : Int) {t})', 'numtsklist')
        # an exception constructor with an f-string: what is interpolated must be plain
        if isinstance(f, ast.Name) and f.id in self.t.get('exceptions', ()) and len(node.args) == 1 and not node.keywords \
                and is_text(node.args[0]):
            if self.text_holes(node.args[0], env):
                raise self.U('a may-raise primitive inside an exception message: ' + ast.unparse(node)[:60])
        return super().call(node, env)

    def compare(self, node, env):
        ops, rights = node.ops, node.comparators
        # `<optional state path> is [not] None`
        if len(ops) == 1 and isinstance(ops[0], (ast.Is, ast.IsNot)) and isinstance(rights[0], ast.Constant) \
                and rights[0].value is None:
            p = D.path_or_none(node.left)
            if p in self.t.get('state', {}) and self.t['state'][p][1] in ('opttask',):
                self.reads_state = True
                t = self.t['state'][p][0]
                return (f'({t}).isSome' if isinstance(ops[0], ast.IsNot) else f'({t}).isNone', 'bool')
        return super().compare(node, env)

    # ------------------------------------------------------------------ effects
    def effect(self, node, env):
        P = self.P
        if isinstance(node, ast.Call):
            f = node.func
            fp = D.path_or_none(f)
            # await <name / path>
            if isinstance(f, ast.Name) and f.id == '__await' and len(node.args) == 1:
                a = node.args[0]
                p = D.path_or_none(a)
                if isinstance(a, ast.Name) and a.id in env and env[a.id][1] in self.t.get('await_vars', {}):
                    lean, rty = self.t['await_vars'][env[a.id][1]]
                    return (lean.format(P=P, x=env[a.id][0]), rty)
                if p in self.t.get('await_paths', {}):
                    lean, rty = self.t['await_paths'][p]
                    return (lean.format(P=P), rty)
                raise self.U('await ' + ast.unparse(a)[:60])
            # asyncio.wait(<tasks>, return_when=asyncio.FIRST_COMPLETED)
            if fp == 'asyncio.wait' and 'wait_first' in self.t:
                kws = {k.arg: ast.unparse(k.value) for k in node.keywords}
                if kws != {'return_when': 'asyncio.FIRST_COMPLETED'} or len(node.args) != 1:
                    raise self.U('asyncio.wait arguments: ' + ast.unparse(node)[:80])
                a = node.args[0]
                for pat, lean in self.t.get('wait_lists', ()):
                    # a literal list of declared members, e.g. [init_waiter, self._simtask]
                    if isinstance(a, ast.List) and len(a.elts) == len(pat):
                        vals = []
                        for e, want in zip(a.elts, pat):
                            if want.startswith('ty:'):
                                if isinstance(e, ast.Name) and e.id in env and env[e.id][1] == want[3:]:
                                    vals.append(env[e.id][0])
                                else:
                                    break
                            elif D.path_or_none(e) != want:
                                break
                        else:
                            return (lean.format(P=P, a=vals), 'unit')
                t, ty = self.expr(a, env)
                if ty != 'tsklist':
                    raise self.U('asyncio.wait over ' + ty)
                return (self.t['wait_first'].format(P=P, x=t), 'unit')
            # asyncio.create_task(<declared coroutine call>, name=<text>)
            if fp == 'asyncio.create_task' and len(node.args) == 1:
                kws = {k.arg: k.value for k in node.keywords}
                if not set(kws) - {'name'} and ('name' not in kws or (is_text(kws['name']) and not holes(kws['name']))):
                    key = ast.unparse(node.args[0])
                    if key in self.t.get('create_task', {}):
                        lean, rty = self.t['create_task'][key]
                        return (lean.format(P=P), rty)
            # a call through a local that holds a scheduling function: call_soon(<declared callback>, args…)
            if isinstance(f, ast.Name) and f.id in env and env[f.id][1] == 'callsoon' and node.args and not node.keywords:
                cb = ast.unparse(node.args[0])
                for pat, argtys, lean in self.t.get('scheduled', ()):
                    if pat == cb and len(node.args) - 1 == len(argtys):
                        vals = []
                        for a, want in zip(node.args[1:], argtys):
                            if want == 'plain':
                                if not self.plain(a):
                                    break
                                vals.append('')
                            else:
                                t, ty = self.expr(a, env)
                                if ty != want:
                                    break
                                vals.append(t)
                        else:
                            return (lean.format(P=P, a=vals), 'unit')
                raise self.U('scheduled call ' + ast.unparse(node)[:80])
        return super().effect(node, env)

    # ------------------------------------------------------------------ statements
    def narrowing(self, test, env):
        nar = super().narrowing(test, env)
        if nar is not None and nar[0] in self._if_assigned:
            return None         # the name is re-assigned in a branch: no shadowing, a plain `isNone` test
        return nar

    def if_(self, s, rest, env, fall, ind, live):
        self._if_assigned = set(D.names_assigned(list(s.body) + list(s.orelse)))
        return super().if_(s, rest, env, fall, ind, live)

    def block(self, stmts, env, fall, ind, live=()):
        P = self.P
        pad = '  ' * ind
        if stmts:
            s, rest = stmts[0], list(stmts[1:])
            if isinstance(s, ast.Assign) and len(s.targets) == 1 and isinstance(s.targets[0], ast.Name):
                name = s.targets[0].id
                # NAME = None for a local with a declared Optional type
                if isinstance(s.value, ast.Constant) and s.value.value is None and name in self.local_types:
                    ty = self.local_types[name]
                    env2 = dict(env)
                    env2[name] = (name, ty)
                    return (f'{pad}let {name} : {D.LEAN_TY[ty]} := none\n' + self.block(rest, env2, fall, ind, live))
                # NAME = <message>: the text is dropped, the declared may-raise holes are executed here
                if is_text(s.value) and not (isinstance(s.value, ast.Constant)):
                    prims = self.text_holes(s.value, env)
                    env2 = dict(env)
                    env2[name] = ('""', 'str')
                    return (''.join(f'{pad}M.bind ({p}) fun _ =>\n' for p in prims)
                            + self.block(rest, env2, fall, ind, live))
            # a bare annotation `self.x: T` does nothing
            if isinstance(s, ast.AnnAssign) and s.value is None:
                return self.block(rest, env, fall, ind, live)
            # NAME = <declared may-raise call> or <text>  (a display name with a fallback)
            if (isinstance(s, ast.Assign) and len(s.targets) == 1 and isinstance(s.targets[0], ast.Name)
                    and isinstance(s.value, ast.BoolOp) and isinstance(s.value.op, ast.Or) and len(s.value.values) == 2
                    and is_text(s.value.values[1])):
                prim = self.hole_effect(s.value.values[0], env)
                if prim is not None:
                    more = self.text_holes(s.value.values[1], env)
                    env2 = dict(env)
                    env2[s.targets[0].id] = ('""', 'str')
                    return (''.join(f'{pad}M.bind ({p_}) fun _ =>\n' for p_ in [prim] + more)
                            + self.block(rest, env2, fall, ind, live))
            # self.<declared path> = <message>: only the declared marker of the text is kept
            if (isinstance(s, ast.Assign) and len(s.targets) == 1 and not isinstance(s.targets[0], ast.Name)
                    and D.path_or_none(s.targets[0]) in self.t.get('text_assign', {}) and is_text(s.value)):
                prims = self.text_holes(s.value, env)
                lean = self.t['text_assign'][D.path_or_none(s.targets[0])].format(P=P, m='"' + self.marker_of(s.value) + '"')
                return (''.join(f'{pad}M.bind ({p_}) fun _ =>\n' for p_ in prims)
                        + f'{pad}M.bind ({lean}) fun _ =>\n' + self.block(rest, env, fall, ind, live))
            # <tasklist>.extend(<declared generator of tasks>)
            if (isinstance(s, ast.Expr) and isinstance(s.value, ast.Call) and isinstance(s.value.func, ast.Attribute)
                    and s.value.func.attr == 'extend' and isinstance(s.value.func.value, ast.Name)
                    and env.get(s.value.func.value.id, (None, None))[1] == 'tsklist'
                    and len(s.value.args) == 1 and not s.value.keywords):
                name = s.value.func.value.id
                key = ast.unparse(s.value.args[0])
                lean = self.task_generator(s.value.args[0], env)
                if lean is not None:
                    env2 = dict(env)
                    env2[name] = (name, 'tsklist')
                    return (f'{pad}M.bind ({lean}) fun new_ =>\n'
                            f'{pad}let {name} := {env[name][0]} ++ new_\n' + self.block(rest, env2, fall, ind, live))
                raise self.U('extend with ' + key[:100])
        return super().block(stmts, env, fall, ind, live)

    def task_generator(self, g, env):
        """`asyncio.create_task(c, name=<text>) for [i,] c in [enumerate(]<coroutines>[, start=k)]`: one task per
        coroutine, in the order of the coroutines (the index is only used in the name) -> the declared primitive"""
        if 'sup_tasks' not in self.t or not isinstance(g, ast.GeneratorExp) or len(g.generators) != 1:
            return None
        gen = g.generators[0]
        if gen.ifs or gen.is_async:
            return None
        it, tgt = gen.iter, gen.target
        if (isinstance(it, ast.Call) and isinstance(it.func, ast.Name) and it.func.id == 'enumerate' and len(it.args) == 1
                and all(k.arg == 'start' and isinstance(k.value, ast.Constant) and isinstance(k.value.value, int)
                        for k in it.keywords)
                and isinstance(tgt, ast.Tuple) and len(tgt.elts) == 2 and all(isinstance(e, ast.Name) for e in tgt.elts)):
            src, idx, var = it.args[0], tgt.elts[0].id, tgt.elts[1].id
        elif isinstance(tgt, ast.Name):
            src, idx, var = it, None, tgt.id
        else:
            return None
        if not (isinstance(src, ast.Name) and env.get(src.id, (None, None))[1] == 'corolist') or idx == var:
            return None
        e = g.elt
        if not (isinstance(e, ast.Call) and D.path_or_none(e.func) == 'asyncio.create_task' and len(e.args) == 1
                and isinstance(e.args[0], ast.Name) and e.args[0].id == var):
            return None
        for k in e.keywords:
            # the task's name: a text whose holes are the loop variables (evaluating it cannot do anything)
            if k.arg != 'name' or not is_text(k.value) or not all(isinstance(h, ast.Name) and h.id in (idx, var)
                                                                  for h in holes(k.value)):
                return None
        return self.t['sup_tasks'].format(P=self.P, l=env[src.id][0])

    def for_(self, s, rest, env, fall, ind, live):
        """lists of tasks / of (number, task) pairs; everything else as in TrLife"""
        if s.orelse or not isinstance(s.target, ast.Name):
            raise self.U('for loop ' + ast.unparse(s)[:60])
        self.reads_state = False
        try:
            t, ty = self.expr(s.iter, env)
        except D.Ctx.Untranslatable:
            return super().for_(s, rest, env, fall, ind, live)
        if ty not in self.ELEM:
            return super().for_(s, rest, env, fall, ind, live)
        if self.reads_state:
            raise self.U('loop over a list that reads the state')
        key = f'__iter{self.nloops + 1}'
        lists = dict(self.t.get('lists', {}))
        lists[key] = (t, self.ELEM[ty])
        saved = self.t.get('lists')
        self.t['lists'] = lists
        s2 = copy.copy(s)
        s2.iter = ast.Name(key, ast.Load())
        try:
            txt = D.TrProg.for_(self, s2, rest, env, fall, ind, live)
        finally:
            if saved is None:
                self.t.pop('lists', None)
            else:
                self.t['lists'] = saved
        return txt.replace(f'`for {s.target.id} in {key}`', f'`for {s.target.id} in {ast.unparse(s.iter)}`')

    def with_(self, s, rest, env, fall, ind, live):
        pad = '  ' * ind
        if len(s.items) != 1 or s.items[0].optional_vars is not None:
            raise self.U('with statement ' + ast.unparse(s)[:60])
        ce = s.items[0].context_expr
        decl = None
        for fn_name, argpat, enter, exit_ in self.t.get('context_calls', ()):
            if (isinstance(ce, ast.Call) and isinstance(ce.func, ast.Name) and ce.func.id == fn_name
                    and len(ce.args) == 1 and not ce.keywords):
                a = ce.args[0]
                # <true value> if <bool local> else None
                if (argpat[0] == 'ifexp' and isinstance(a, ast.IfExp) and isinstance(a.test, ast.Name)
                        and env.get(a.test.id, (None, None))[1] == 'bool' and D.path_or_none(a.body) == argpat[1]
                        and isinstance(a.orelse, ast.Constant) and a.orelse.value is None):
                    decl = (enter.format(P=self.P, c=env[a.test.id][0]), exit_.format(P=self.P))
        if decl is None:
            raise self.U('context manager ' + ast.unparse(ce)[:80])
        J, jfall, after, binder = self.join([list(s.body)], rest, env, live)
        body = self.block(list(s.body), env, jfall, ind + 2, set(live) | D.names_used(rest))
        return (f'{pad}M.bind (M.withCtx ({decl[0]}) {decl[1]} (\n{body}\n{pad}  )) {binder}\n'
                + self.block(rest, after(env), fall, ind, live))

    # ------------------------------------------------------------------ a function
    def check_header(self, fn):
        pass        # done by `function` on the original (not normalised) definition

    def check_header_(self, fn):
        want_async = self.t.get('is_async', True)
        if isinstance(fn, ast.AsyncFunctionDef) != want_async or not isinstance(fn, (ast.FunctionDef, ast.AsyncFunctionDef)):
            raise self.U('async / plain function mismatch')
        if fn.decorator_list:
            raise self.U('decorated function')
        args = ast.unparse(ast.arguments(
            posonlyargs=[ast.arg(arg=a.arg) for a in fn.args.posonlyargs], args=[ast.arg(arg=a.arg) for a in fn.args.args],
            vararg=fn.args.vararg and ast.arg(arg=fn.args.vararg.arg), kwonlyargs=[ast.arg(arg=a.arg) for a in fn.args.kwonlyargs],
            kw_defaults=fn.args.kw_defaults, kwarg=fn.args.kwarg and ast.arg(arg=fn.args.kwarg.arg), defaults=fn.args.defaults))
        if args != self.t['signature']:
            raise self.U(f"signature ({args}), expected ({self.t['signature']})")

    def infer_local_types(self, fn):
        """a local that is assigned None and, elsewhere, the exception bound by an `except … as err` clause is an
        Optional[exception]"""
        handler_names = {h.name for h in ast.walk(fn) if isinstance(h, ast.ExceptHandler) and h.name}
        out = {}
        for n in ast.walk(fn):
            if (isinstance(n, ast.Assign) and len(n.targets) == 1 and isinstance(n.targets[0], ast.Name)
                    and isinstance(n.value, ast.Name) and n.value.id in handler_names):
                out[n.targets[0].id] = 'optexc'
        return out

    def function(self, fn):
        self.check_header_(fn)
        self.local_types = self.infer_local_types(fn)
        fn = NormE(self.t, self.U).run(fn)
        self.normalized = ast.unparse(fn)
        txt = D.TrProg.function(self, fn)
        for a, b in ((' →  → ', ' → '), ('| [],  =>', '| [] =>'), (':: rest_,  =>', ':: rest_ =>')):
            txt = txt.replace(a, b)
        return txt


# ---------------------------------------------------------------------------------------- targets

HEADER = r'''/- GENERATED by tools/py2lean.py (tools/py2lean_errreg.py) from the Python source of edzed
   (simulator.Circuit._check_started, .wait_init, .shutdown, simulator.run,
    simulator._TerminatingSignal.__init__, .__enter__, .__exit__, ._handler,
    sblocks1.ControlBlock._event_abort, ._event_shutdown, exceptions.add_note) -- do not edit -/
import EdzedModel.Gen.TranslatedDispatch

set_option linter.unusedVariables false

namespace Edzed.Gen.TrE
open Edzed.Gen.TrD

/-! `await X` is a call of the primitive X: it returns, raises, or is interrupted by a cancellation
    (raises CancelledError).  σ state, ε exceptions, τ tasks, κ coroutines, ω the helper task of wait_init. -/

/-- Python's `enumerate(l, start=i)` -/
def enumFrom {α : Type} : Int → List α → List (Int × α)
  | _, [] => []
  | i, a :: l => (i, a) :: enumFrom (i + 1) l

/-- the leaves of `Circuit._check_started` -/
structure CheckStartedPrims (σ ε : Type) where
  mkExc : String → String → ε           -- `Class(message)`
  simtask : σ → Option Unit             -- `self._simtask` (None or the task)
  sleep0 : M σ ε Unit Unit              -- `await asyncio.sleep(0)`

/-- the leaves of `Circuit.wait_init` -/
structure WaitInitPrims (σ ε ω : Type) where
  mkExc : String → String → ε
  checkStarted : M σ ε Unit Unit        -- `await self._check_started()`
  createInitWaiter : M σ ε Unit ω       -- `asyncio.create_task(self._init_done.wait())` (AttributeError when
                                        -- `_init_done` does not exist yet)
  waitFirst : ω → M σ ε Unit Unit       -- `await asyncio.wait([init_waiter, self._simtask], return_when=FIRST_COMPLETED)`
  cancelWaiter : ω → M σ ε Unit Unit    -- `init_waiter.cancel()`
  simtaskDone : σ → Bool                -- `self._simtask.done()`
  simtaskCancelled : σ → Bool           -- `self._simtask.cancelled()`
  simtaskException : M σ ε Unit Unit    -- `self._simtask.exception()` (interpolated into the message)
  getError : σ → Option ε               -- `self._error`

/-- the leaves of `Circuit.shutdown` -/
structure ShutdownPrims (σ ε : Type) where
  mkExc : String → String → ε
  excIs : ε → String → Bool             -- is the exception caught by `except Class`
  mkCancelled : String → ε              -- `asyncio.CancelledError(message)`
  checkStarted : M σ ε Unit Unit        -- `await self._check_started()`
  isCurrentTask : σ → Bool              -- `self.is_current_task()`
  abort : ε → M σ ε Unit Unit           -- `self.abort(exc)`
  awaitSimtask : M σ ε Unit Unit        -- `await self._simtask`: a cancellation of the caller is FORWARDED to the task
  waitSimtask : M σ ε Unit Unit         -- `await asyncio.wait([self._simtask])`: returns when the task is done, never raises
                                        -- the task's exception; a cancellation of the caller is raised in the caller
                                        -- only, the task runs on
  simtaskCancelled : σ → Bool           -- `self._simtask.cancelled()`
  simtaskException : M σ ε Unit (Option ε)   -- `self._simtask.exception()` (None or the exception the task ended with)

/-- the leaves of `run()` -/
structure RunPrims (σ ε τ κ : Type) where
  mkExc : String → String → ε
  excIs : ε → String → Bool
  mkCancelled : String → ε
  sigEnter : Bool → M σ ε Unit Unit     -- `_TerminatingSignal(signal.SIGTERM if catch_sigterm else None).__enter__()`
  sigExit : Unit → M σ ε Unit Unit      -- `.__exit__(…)` (returns a false value: exceptions pass)
  runForeverHere : M σ ε Unit Unit      -- `await circuit.run_forever()` in the current task
  createSimtask : M σ ε Unit τ          -- `asyncio.create_task(circuit.run_forever(), name=…)`
  createSupTasks : List κ → M σ ε Unit (List τ)
                                        -- `asyncio.create_task(coro, name=…) for i, coro in enumerate(coroutines, start=1)`
  sleep0 : M σ ε Unit Unit              -- `await asyncio.sleep(0)`
  taskDone : σ → τ → Bool               -- `task.done()`
  taskResult : τ → M σ ε Unit Unit      -- `task.result()`
  waitFirst : List τ → M σ ε Unit Unit  -- `await asyncio.wait(all_tasks, return_when=asyncio.FIRST_COMPLETED)`
  cancelTask : τ → M σ ε Unit Unit      -- `task.cancel()`
  abort : ε → M σ ε Unit Unit           -- `circuit.abort(exc)`
  awaitTask : τ → M σ ε Unit Unit       -- `await task`
  coroName : List κ → Int → M σ ε Unit Unit   -- `coroutines[tnum].__name__` (IndexError when out of range)
  addNote : ε → M σ ε Unit Unit         -- `add_note(err, msg)`

/-- the leaves of `_TerminatingSignal.__enter__ / __exit__ / _handler` -/
structure SigPrims (σ ε : Type) where
  signoNone : σ → Bool                  -- `self._signo is None`
  saveHandler : M σ ε Bool Unit         -- `self._saved_handler = signal.getsignal(self._signo)`
  installHandler : M σ ε Bool Unit      -- `signal.signal(self._signo, self._handler)`
  restoreHandler : M σ ε Bool Unit      -- `signal.signal(self._signo, self._saved_handler)`
  sigMsg : String                       -- `self._msg`
  mkCancelled : String → ε
  scheduleLog : M σ ε Bool Unit         -- `call_soon_threadsafe(_logger.warning, "%s", self._msg)`
  scheduleAbort : ε → M σ ε Bool Unit   -- `call_soon_threadsafe(get_circuit().abort, exc)`
  savedCallable : σ → Bool              -- `callable(self._saved_handler)`
  callSaved : M σ ε Bool Unit           -- `self._saved_handler(signo, frame)`
  setSigno : Option Unit → M σ ε Bool Unit    -- `self._signo = signo` (__init__)
  strsignal : M σ ε Bool Unit           -- `signal.strsignal(signo)` (ValueError for an invalid number)
  setMsg : String → M σ ε Bool Unit     -- `self._msg = f"Signal {signame!r} caught"`: the declared marker of the text

/-- the leaves of `ControlBlock._event_abort / _event_shutdown`; α what the `error` item of the event may be -/
structure CtlPrims (σ ε α : Type) where
  mkExc : String → String → ε           -- `Class(message)`: the class and the declared marker of the message
  mkCancelled : String → ε              -- `asyncio.CancelledError(message)`: the declared marker of the message
  isException : α → Bool                -- `isinstance(error, Exception)`
  withCause : ε → α → M σ ε Unit ε      -- `exc.__cause__ = error` (TypeError unless `error` is a BaseException)
  abort : ε → M σ ε Unit Unit           -- `self.circuit.abort(exc)`

/-- the leaves of `exceptions.add_note` -/
structure NotePrims (σ ε : Type) where
  hasNotes : Bool                       -- `_HAS_EXCEPTION_NOTES` (Python ≥ 3.11)
  nativeAddNote : ε → M σ ε Unit Unit   -- `exc.add_note(note)` (TypeError unless the note is a str)
  firstArgIsStr : σ → Bool              -- `exc.args and isinstance(exc.args[0], str)`
  prependNote : ε → M σ ε Unit Unit     -- `exc.args = (f"[{note}] {exc.args[0]}", *exc.args[1:])`

'''


def resolve_checks(api, sig=True):
    """the names the targets rely on resolve to what the primitives are declared to mean (audit, category 6);
    `sig`: the target depends on `_TerminatingSignal` as well"""
    import edzed
    simulator = api.simulator
    U = api.Untranslatable
    C = simulator.Circuit
    for c in D.subclasses(C):
        raise U(f'Circuit is subclassed by {c.__module__}.{c.__name__}')
    for name in ('_check_started', 'wait_init', 'shutdown', 'abort', 'is_current_task', 'run_forever'):
        if name not in vars(C) or not callable(vars(C)[name]):
            raise U(f'Circuit.{name} is not a plain method of the class')
    if edzed.run is not simulator.run:
        raise U('edzed.run is not simulator.run')
    if simulator.get_circuit.__module__ != simulator.__name__ or simulator.add_note.__module__ != 'edzed.exceptions':
        raise U('get_circuit / add_note resolve elsewhere')
    if not isinstance(simulator._TerminatingSignal, type) or simulator._TerminatingSignal.__mro__[1:] != (object,):
        raise U('_TerminatingSignal is not a plain class')
    import asyncio
    import signal
    if (simulator.asyncio is not asyncio or simulator.signal is not signal
            or simulator.EdzedInvalidState is not edzed.EdzedInvalidState):
        raise U('module globals of simulator.py')
    for builtin in ('RuntimeError', 'enumerate', 'callable', 'isinstance'):
        if builtin in vars(simulator):
            raise U(f'the builtin {builtin} is shadowed in simulator.py')
    if not sig:
        return
    # `_signo` / `_msg` are assigned by the (translated) `__init__` and nowhere else
    T = simulator._TerminatingSignal
    cls_src = ast.parse(__import__('textwrap').dedent(__import__('inspect').getsource(T)))
    stores = [ast.unparse(n) for n in ast.walk(cls_src)
              if isinstance(n, ast.Attribute) and isinstance(n.ctx, (ast.Store, ast.Del)) and n.attr in ('_signo', '_msg')]
    if sorted(stores) != ['self._msg', 'self._signo']:
        raise U('_signo / _msg are assigned outside __init__ or more than once: ' + ', '.join(stores))


def checked(api, getter, sig=False):
    def node():
        resolve_checks(api, sig)
        return api.fn_ast(getter())
    return node


def check_started_target(api):
    C = api.simulator.Circuit
    return dict(
        name='checkStarted', doc='simulator.Circuit._check_started', node=checked(api, lambda: vars(C)['_check_started']),
        signature='self', is_async=True,
        P='P', prims='CheckStartedPrims σ ε', tyvars='{σ ε : Type}', ret_lean='Unit', ret_none='()',
        args=[], ret_type='unit',
        ignore_re=(r'_logger\.\w+',), awaited=('asyncio.sleep',),
        exceptions=('EdzedInvalidState',),
        state={'self._simtask': ('P.simtask st', 'opttask')},
        effect_texts=[('asyncio.sleep(0)', '{P}.sleep0', 'unit')],
        catchable=(),
    )


def wait_init_target(api):
    C = api.simulator.Circuit
    return dict(
        name='waitInit', doc='simulator.Circuit.wait_init', node=checked(api, lambda: vars(C)['wait_init']),
        signature='self', is_async=True,
        P='P', prims='WaitInitPrims σ ε ω', tyvars='{σ ε ω : Type}', ret_lean='Unit', ret_none='()',
        args=[], ret_type='unit',
        ignore_re=(r'_logger\.\w+',), awaited=('self._check_started', 'asyncio.wait'),
        exceptions=('EdzedInvalidState',),
        state={'self._error': ('P.getError st', 'optexc')},
        atoms={'self._simtask.done()': ('P.simtaskDone st', 'bool'),
               'self._simtask.cancelled()': ('P.simtaskCancelled st', 'bool')},
        effect_texts=[('self._check_started()', '{P}.checkStarted', 'unit'),
                      ('asyncio.create_task(self._init_done.wait())', '{P}.createInitWaiter', 'iwaiter')],
        wait_first='{P}.waitFirst {x}', wait_lists=[(('ty:iwaiter', 'self._simtask'), '{P}.waitFirst {a[0]}')],
        method_effects=[('iwaiter', 'cancel', [], '{P}.cancelWaiter {x}', 'unit')],
        hole_effects=[('self._simtask.exception()', '{P}.simtaskException')],
        catchable=(),
    )


def shutdown_target(api):
    C = api.simulator.Circuit
    return dict(
        name='shutdown', doc='simulator.Circuit.shutdown', node=checked(api, lambda: vars(C)['shutdown']),
        signature='self', is_async=True,
        P='P', prims='ShutdownPrims σ ε', tyvars='{σ ε : Type}', ret_lean='Unit', ret_none='()',
        args=[], ret_type='unit',
        ignore_re=(r'_logger\.\w+',), awaited=('self._check_started', 'asyncio.wait'),
        exceptions=('EdzedInvalidState',),
        mk_cancelled='({P}.mkCancelled {m})',
        atoms={'self.is_current_task()': ('P.isCurrentTask st', 'bool'),
               'self._simtask.cancelled()': ('P.simtaskCancelled st', 'bool')},
        # `await asyncio.wait([self._simtask])` and `await self._simtask` are DIFFERENT primitives: they differ in
        # what a cancellation of the caller does to the simulation task and in who raises the task's exception
        # (an un-awaited asyncio.wait(...) and any other argument list are refused)
        effect_texts=[('self._check_started()', '{P}.checkStarted', 'unit'),
                      ('asyncio.wait([self._simtask])', '{P}.waitSimtask', 'unit'),
                      ('self._simtask.exception()', '{P}.simtaskException', 'optexc')],
        effects=[('self.abort', [('ty', 'exc')], '{P}.abort ({a[0]})', 'unit')],
        await_paths={'self._simtask': ('{P}.awaitSimtask', 'unit')},
        catchable=('asyncio.CancelledError',),
    )


def run_target(api):
    simulator = api.simulator
    return dict(
        name='run', doc='simulator.run', node=checked(api, lambda: simulator.run, sig=True),
        signature='*coroutines, catch_sigterm=True', is_async=True,
        P='P', prims='RunPrims σ ε τ κ', tyvars='{σ ε τ κ : Type}', ret_lean='Unit', ret_none='()',
        args=[('coroutines', 'corolist'), ('catch_sigterm', 'bool')], ret_type='unit',
        ignore_re=(r'_logger\.\w+',), awaited=('circuit.run_forever', 'asyncio.sleep', 'asyncio.wait'),
        exceptions=('RuntimeError',),
        mk_cancelled='({P}.mkCancelled {m})',
        convert={('exc', 'optexc'): '(some {x})'},
        atoms={'get_circuit()': ('()', 'circ')},
        context_calls=[('_TerminatingSignal', ('ifexp', 'signal.SIGTERM'), '{P}.sigEnter {c}', '{P}.sigExit')],
        create_task={'circuit.run_forever()': ('{P}.createSimtask', 'tsk')},
        sup_tasks='{P}.createSupTasks {l}',
        effect_texts=[('asyncio.sleep(0)', '{P}.sleep0', 'unit')],
        wait_first='{P}.waitFirst {x}',
        methods=[('tsk', 'done', [], '{P}.taskDone st {x}', 'bool')],
        method_effects=[('tsk', 'result', [], '{P}.taskResult {x}', 'unit'),
                        ('tsk', 'cancel', [], '{P}.cancelTask {x}', 'unit'),
                        ('circ', 'run_forever', [], '{P}.runForeverHere', 'unit'),
                        ('circ', 'abort', [('ty', 'exc')], '{P}.abort ({a[0]})', 'unit')],
        effects=[('add_note', [('ty', 'exc'), ('ty', 'str')], '{P}.addNote ({a[0]})', 'unit')],
        await_vars={'tsk': ('{P}.awaitTask {x}', 'unit')},
        calls=[('__item0', [('ty', 'numtsk')], '({a[0]}).1', 'int'),
               ('__item1', [('ty', 'numtsk')], '({a[0]}).2', 'tsk')],
        coro_name='{P}.coroName {l} {i}',
        catchable=('asyncio.CancelledError', 'Exception'),
    )


def sig_targets(api):
    T = api.simulator._TerminatingSignal
    common = dict(
        P='P', prims='SigPrims σ ε', tyvars='{σ ε : Type}', ignore_re=(r'_logger\.\w+',), awaited=(), is_async=False,
        atoms={'self._signo is None': ('P.signoNone st', 'bool'),
               'self._signo is not None': ('(!P.signoNone st)', 'bool'),
               'callable(self._saved_handler)': ('P.savedCallable st', 'bool'),
               'asyncio.get_running_loop().call_soon_threadsafe': ('()', 'callsoon')},
        assign_texts={('self._saved_handler', 'signal.getsignal(self._signo)'): '{P}.saveHandler'},
        effect_texts=[('signal.signal(self._signo, self._handler)', '{P}.installHandler', 'unit'),
                      ('signal.signal(self._signo, self._saved_handler)', '{P}.restoreHandler', 'unit'),
                      ('self._saved_handler(signo, frame)', '{P}.callSaved', 'unit')],
        mk_cancelled='({P}.mkCancelled {m})', msg_paths={'self._msg': '{P}.sigMsg'},
        scheduled=[('_logger.warning', ('plain', 'plain'), '{P}.scheduleLog'),
                   ('get_circuit().abort', ('exc',), '{P}.scheduleAbort ({a[0]})')],
        catchable=(),
    )
    init = dict(common, name='sigInit', doc='simulator._TerminatingSignal.__init__', node=checked(api, lambda: vars(T)['__init__'], sig=True),
                signature='self, signo', args=[('signo', 'optsigno')], ret_lean='Bool', ret_type='bool', ret_none='false',
                assign={'self._signo': ('optsigno', '{P}.setSigno {x}')},
                hole_effects=[('signal.strsignal(signo)', '{P}.strsignal')],
                text_assign={'self._msg': '{P}.setMsg {m}'}, message_markers={'Signal': 'Signal'})
    return [
        init,
        dict(common, name='sigEnter', doc='simulator._TerminatingSignal.__enter__', node=checked(api, lambda: vars(T)['__enter__'], sig=True),
             signature='self', args=[], ret_lean='Bool', ret_type='bool', ret_none='false'),
        dict(common, name='sigExit', doc='simulator._TerminatingSignal.__exit__', node=checked(api, lambda: vars(T)['__exit__'], sig=True),
             signature='self, _exc_type, _exc_val, _exc_tb', args=[], ret_lean='Bool', ret_type='bool', ret_none='false'),
        dict(common, name='sigHandler', doc='simulator._TerminatingSignal._handler', node=checked(api, lambda: vars(T)['_handler'], sig=True),
             signature='self, signo, frame', args=[], ret_lean='Bool', ret_type='bool', ret_none='false'),
    ]


def ctl_targets(api):
    sblocks1 = api.sblocks1
    CB = sblocks1.ControlBlock

    def node(name):
        def get():
            import edzed
            U = api.Untranslatable
            for c in D.subclasses(CB):
                if c.__module__.startswith('edzed') and name in vars(c):
                    raise U(f'ControlBlock.{name} is overridden in {c.__name__}')
            if sblocks1.EdzedCircuitError is not edzed.EdzedCircuitError or sblocks1.asyncio is not api.simulator.asyncio:
                raise U('module globals of sblocks1.py')
            if type(CB.__dict__.get('circuit', None)) is not type(None):
                raise U('ControlBlock.circuit is redefined')
            return api.fn_ast(vars(CB)[name])
        return get
    common = dict(
        P='P', prims='CtlPrims σ ε α', tyvars='{σ ε α : Type}', ret_lean='Unit', ret_none='()', ret_type='unit',
        ignore_re=(r'_logger\.\w+', r'self\.log_\w+'), awaited=(), is_async=False,
        exceptions=('EdzedCircuitError',), mk_cancelled='({P}.mkCancelled {m})',
        message_markers={'shutdown requested by': 'shutdown requested by', 'error reported by': 'error reported by'},
        isinstance={('errarg', 'Exception'): '{P}.isException {x}'},
        with_cause=True,
        effects=[('self.circuit.abort', [('ty', 'exc')], '{P}.abort ({a[0]})', 'unit'),
                 # assigning `__cause__` raises TypeError unless the value is None or a BaseException
                 ('__with_cause', [('ty', 'exc'), ('ty', 'errarg')], '{P}.withCause ({a[0]}) ({a[1]})', 'exc')],
        catchable=(),
    )
    return [
        dict(common, name='ctlAbort', doc='sblocks1.ControlBlock._event_abort', node=node('_event_abort'),
             signature="self, *, source='<no-source-data>', error='<no-error-data>', **_data",
             args=[('source', 'srcarg'), ('error', 'errarg')]),
        dict(common, name='ctlShutdown', doc='sblocks1.ControlBlock._event_shutdown', node=node('_event_shutdown'),
             signature="self, *, source='<no-source-data>', **_data", args=[('source', 'srcarg')],
             prims='CtlPrims σ ε α'),
    ]


def add_note_target(api):
    def get():
        import edzed.exceptions as X
        U = api.Untranslatable
        if X._HAS_EXCEPTION_NOTES is not hasattr(BaseException, 'add_note'):
            raise U('_HAS_EXCEPTION_NOTES is not hasattr(BaseException, "add_note")')
        if api.simulator.add_note is not X.add_note or api.block.__dict__.get('add_note', X.add_note) is not X.add_note:
            raise U('add_note resolves elsewhere')
        return api.fn_ast(X.add_note)
    return dict(
        name='addNote', doc='exceptions.add_note', node=get, signature='exc, note', is_async=False,
        P='P', prims='NotePrims σ ε', tyvars='{σ ε : Type}', ret_lean='Unit', ret_none='()', ret_type='unit',
        args=[('exc', 'exc'), ('note', 'notearg')], awaited=(), ignore_re=(),
        atoms={'_HAS_EXCEPTION_NOTES': ('P.hasNotes', 'bool'),
               'exc.args and isinstance(exc.args[0], str)': ('P.firstArgIsStr st', 'bool')},
        effect_texts=[('exc.add_note(note)', '{P}.nativeAddNote exc', 'unit')],
        assign_texts={('exc.args', "(f'[{note}] {exc.args[0]}', *exc.args[1:])"): '{P}.prependNote exc'},
        catchable=(),
    )


def main_errreg(outfile, api):
    D.Ctx.Untranslatable = api.Untranslatable
    D.Ctx.node_path = staticmethod(api.node_path)
    out = [HEADER.rstrip('\n'), '']

    def translate(t):
        return TrErr(t).function(t['node']())

    for t in ([check_started_target(api), wait_init_target(api), shutdown_target(api), run_target(api)] + sig_targets(api)
              + ctl_targets(api) + [add_note_target(api)]):
        api.emit(out, t, translate, ': the statements in program order (`await X` = the primitive X)')
    out.append('end Edzed.Gen.TrE')
    api.write_if_changed(outfile, '\n'.join(out) + '\n')
