"""
Translator for the life-cycle skeleton of the simulator (property C08): the CONTROL FLOW of
`Circuit._run_tasks`, `Circuit._stop_sblocks`, `Circuit._init_sblocks_async` and `Circuit.run_forever`
(edzed/simulator.py) as Lean programs in the state + exception + early-return monad `Edzed.Gen.TrD.M`
(defined in Gen/TranslatedDispatch.lean), regenerated from the CURRENT Python AST into
lean/EdzedModel/Gen/TranslatedLifecycle.lean (two-line hook at the end of py2lean.main).

The methods are `async def`s.  `await X` is treated as a call of the primitive X, which returns a value,
raises an exception or is interrupted by a cancellation (= raises CancelledError): exactly what the monad
offers.  The translation reuses the statement translator of tools/py2lean_dispatch.py (`TrProg`: order of
statements, if/elif/else, for loops as structural recursion, try/except with the classes caught in the
order written, raise / return, conditions) after a NORMALISATION pass over the AST:

  * `await <call>` -> `<call>` (the call must be declared as an awaited primitive, and vice versa);
  * `if (x := e) is not None:` -> `x = e; if x is not None:`;  `x += c` -> `x = x + c`;
  * `for a, b, c in L:` -> `for it in L: a = it[0]; b = it[1]; c = it[2]` (declared projections);
  * calls of a local function variable inside an expression (`get_time()`) are hoisted, in evaluation
    order, into temporaries in front of the statement;
  * local variables that are assigned inside a `try:` body and used after it (`started_blocks`,
    `start_ok`) must survive an exception: they become CELLS of the state (`P.getX` / `P.setX`); the
    translator finds them itself and refuses (Untranslatable) a method with such a variable that is
    not declared as a cell;
  * set / list comprehensions over blocks -> `List.filter` / `List.map` with the translated condition;
    iterating over a SET goes through the primitive `enum` (the iteration order is a parameter).

Declared per target is only the meaning of the leaves: which access path / call / test is which
primitive (fields of `RunTasksPrims`, `StopPrims`, `InitAsyncPrims`, `RunForeverPrims`).
EdzedProofs/LifecycleTie.lean instantiates the primitives with the operations of the model
EdzedModel/Lifecycle.lean; EdzedProps/C08.lean (`namespace Edzed.TrTie`) proves that the translated
programs compute the model's steps.
"""
import ast
import copy
import re

import py2lean_dispatch as D

LEAN_TY = {'blk': 'β', 'blkset': 'List β', 'btt': 'κ', 'bttlist': 'List κ', 'int': 'Int', 'exc': 'ε',
           'optexc': 'Option ε', 'blklist': 'List β', 'bool': 'Bool', 'unit': 'Unit', 'str': 'String', 'clockfn': 'Unit'}
D.LEAN_TY.update({k: v for k, v in LEAN_TY.items() if k not in D.LEAN_TY})


# ---------------------------------------------------------------------------------------- normalisation

class Normalizer:
    """AST -> AST; everything it does is listed in the module docstring"""

    def __init__(self, target, U):
        self.t = target
        self.U = U
        self.ntemp = 0
        self.cells = dict(target.get('cells', {}))

    def temp(self, stem):
        self.ntemp += 1
        return f'{stem}{self.ntemp}_'

    # -- awaited primitives
    def strip_await(self, node):
        awaited = set(self.t.get('awaited', ()))
        seen_calls = set()

        class T(ast.NodeTransformer):
            def visit_Await(s, n):                       # pylint: disable=no-self-argument
                n = s.generic_visit(n)
                if not isinstance(n.value, ast.Call):
                    raise self.U('await of a non-call')
                p = ast.unparse(n.value.func)
                if p not in awaited:
                    raise self.U(f'await {p}(...): not a declared awaited primitive')
                seen_calls.add(id(n.value))
                return n.value
        node = T().visit(node)
        for n in ast.walk(node):
            if isinstance(n, ast.Call) and id(n) not in seen_calls and ast.unparse(n.func) in awaited:
                raise self.U(f'{ast.unparse(n.func)}(...) is not awaited')
        return node

    # -- cells: locals assigned in a try body and live after it
    def find_cells(self, fn):
        need = set()
        for n in ast.walk(fn):
            if isinstance(n, ast.Try):
                assigned = set()
                for s in n.body:
                    for m in ast.walk(s):
                        if isinstance(m, ast.Name) and isinstance(m.ctx, ast.Store):
                            assigned.add(m.id)
                        if (isinstance(m, ast.Call) and isinstance(m.func, ast.Attribute)
                                and isinstance(m.func.value, ast.Name) and m.func.attr in ('add', 'append', 'update')):
                            assigned.add(m.func.value.id)
                # live afterwards = used anywhere outside this try body (a conservative approximation)
                inside = {id(x) for s in n.body for x in ast.walk(s)}
                for m in ast.walk(fn):
                    if isinstance(m, ast.Name) and id(m) not in inside and m.id in assigned and isinstance(m.ctx, ast.Load):
                        need.add(m.id)
        missing = need - set(self.cells)
        if missing:
            raise self.U(f'local variable(s) {sorted(missing)} assigned in a try body and used after it: not declared as cells')
        return need

    def cellify(self, stmts):
        """reads of a cell -> temporaries loaded in front of the statement; writes -> synthetic calls"""
        out = []
        for s in stmts:
            out.extend(self.cellify_stmt(s))
        return out

    def load_cells(self, nodes):
        """replace the cell reads inside `nodes` (in place); returns the load statements"""
        loads = []
        for node in nodes:
            for n in ast.walk(node):
                for field, val in ast.iter_fields(n):
                    vals = val if isinstance(val, list) else [val]
                    for i, v in enumerate(vals):
                        if isinstance(v, ast.Name) and isinstance(v.ctx, ast.Load) and v.id in self.cells:
                            tmp = self.temp(v.id + '_')
                            loads.append(ast.Assign(targets=[ast.Name(tmp, ast.Store())],
                                                    value=ast.Call(ast.Name(f'__get_{v.id}', ast.Load()), [], []),
                                                    lineno=0))
                            new = ast.Name(tmp, ast.Load())
                            if isinstance(val, list):
                                val[i] = new
                            else:
                                setattr(n, field, new)
        return loads

    def cellify_stmt(self, s):
        if isinstance(s, ast.Assign) and len(s.targets) == 1 and isinstance(s.targets[0], ast.Name) \
                and s.targets[0].id in self.cells:
            loads = self.load_cells([s.value]) if not isinstance(s.value, ast.Name) else self.load_wrapped(s, 'value')
            call = ast.Expr(ast.Call(ast.Name(f'__set_{s.targets[0].id}', ast.Load()), [s.value], []))
            return loads + [call]
        if (isinstance(s, ast.Expr) and isinstance(s.value, ast.Call) and isinstance(s.value.func, ast.Attribute)
                and isinstance(s.value.func.value, ast.Name) and s.value.func.value.id in self.cells
                and s.value.func.attr == 'add' and len(s.value.args) == 1):
            loads = self.load_cells(s.value.args)
            call = ast.Expr(ast.Call(ast.Name(f'__add_{s.value.func.value.id}', ast.Load()), s.value.args, []))
            return loads + [call]
        if isinstance(s, ast.If):
            holder = ast.Expr(s.test)
            loads = self.load_wrapped(holder, 'value')
            s.test = holder.value
            s.body = self.cellify(s.body)
            s.orelse = self.cellify(s.orelse)
            return loads + [s]
        if isinstance(s, ast.For):
            holder = ast.Expr(s.iter)
            loads = self.load_wrapped(holder, 'value')
            s.iter = holder.value
            s.body = self.cellify(s.body)
            return loads + [s]
        if isinstance(s, ast.Try):
            s.body = self.cellify(s.body)
            for h in s.handlers:
                h.body = self.cellify(h.body)
            s.finalbody = self.cellify(s.finalbody)
            return [s]
        if isinstance(s, (ast.Expr, ast.Assign, ast.Return, ast.Raise, ast.Assert)):
            return self.load_cells([s]) + [s]
        return [s]

    def load_wrapped(self, holder, field):
        """like load_cells, but the node itself may be a cell read"""
        wrapper = ast.Tuple([getattr(holder, field)], ast.Load())
        loads = self.load_cells([wrapper])
        setattr(holder, field, wrapper.elts[0])
        return loads

    # -- small rewrites
    def simplify(self, stmts):
        out = []
        for s in stmts:
            for attr in ('body', 'orelse', 'finalbody'):
                if hasattr(s, attr) and isinstance(getattr(s, attr), list):
                    setattr(s, attr, self.simplify(getattr(s, attr)))
            if isinstance(s, ast.Try):
                for h in s.handlers:
                    h.body = self.simplify(h.body)
            if isinstance(s, ast.AugAssign) and isinstance(s.target, ast.Name):
                s = ast.Assign(targets=[ast.Name(s.target.id, ast.Store())],
                               value=ast.BinOp(ast.Name(s.target.id, ast.Load()), s.op, s.value), lineno=0)
            if (isinstance(s, ast.If) and isinstance(s.test, ast.Compare) and isinstance(s.test.left, ast.NamedExpr)
                    and isinstance(s.test.left.target, ast.Name)):
                ne = s.test.left
                out.append(ast.Assign(targets=[ast.Name(ne.target.id, ast.Store())], value=ne.value, lineno=0))
                s.test.left = ast.Name(ne.target.id, ast.Load())
            if isinstance(s, ast.For) and isinstance(s.target, ast.Tuple):
                names = [e.id if isinstance(e, ast.Name) else None for e in s.target.elts]
                if None in names:
                    raise self.U('for target ' + ast.unparse(s.target))
                it = self.temp('it')
                pre = [ast.Assign(targets=[ast.Name(n, ast.Store())],
                                  value=ast.Call(ast.Name(f'__item{i}', ast.Load()), [ast.Name(it, ast.Load())], []),
                                  lineno=0)
                       for i, n in enumerate(names) if not n.startswith('_')]
                s.target = ast.Name(it, ast.Store())
                s.body = pre + s.body
            # hoist calls of local function variables out of expressions
            hoist = set(self.t.get('hoist', ()))
            if hoist and isinstance(s, (ast.Expr, ast.Assign)) and not (
                    isinstance(s.value, ast.Call) and isinstance(s.value.func, ast.Name) and s.value.func.id in hoist):
                for n in ast.walk(s.value):
                    for field, val in ast.iter_fields(n):
                        vals = val if isinstance(val, list) else [val]
                        for i, v in enumerate(vals):
                            if (isinstance(v, ast.Call) and isinstance(v.func, ast.Name) and v.func.id in hoist
                                    and v is not s.value):
                                tmp = self.temp('t')
                                out.append(ast.Assign(targets=[ast.Name(tmp, ast.Store())], value=v, lineno=0))
                                new = ast.Name(tmp, ast.Load())
                                if isinstance(val, list):
                                    val[i] = new
                                else:
                                    setattr(n, field, new)
            out.append(s)
        return out

    def rename_loop_vars(self, fn):
        """every `for x in …` / comprehension gets its own variable name (x -> x_<n>): the loops of a method
        re-use names, which would look like one variable carried from loop to loop"""
        counter = [0]

        def rename_in(nodes, old, new):
            for node in nodes:
                for n in ast.walk(node):
                    if isinstance(n, ast.Name) and n.id == old:
                        n.id = new

        def visit(node):
            for child in ast.iter_child_nodes(node):
                visit(child)
            if isinstance(node, ast.For):
                targets = [node.target] if isinstance(node.target, ast.Name) else list(getattr(node.target, 'elts', []))
                for tg in targets:
                    if isinstance(tg, ast.Name) and not tg.id.startswith('_'):
                        counter[0] += 1
                        rename_in([node.target] + node.body, tg.id, f'{tg.id}_{counter[0]}')
            if isinstance(node, (ast.SetComp, ast.ListComp)):
                for g in node.generators:
                    if isinstance(g.target, ast.Name):
                        counter[0] += 1
                        old, new = g.target.id, f'{g.target.id}_{counter[0]}'
                        rename_in([g.target, node.elt] + g.ifs, old, new)
        visit(fn)
        return fn

    def run(self, fn):
        fn = copy.deepcopy(fn)
        fn = self.strip_await(fn)
        fn = self.rename_loop_vars(fn)
        self.find_cells(fn)
        fn.body = self.simplify(fn.body)
        if self.cells:
            fn.body = self.cellify(fn.body)
        ast.fix_missing_locations(fn)
        return fn


# ---------------------------------------------------------------------------------------- statement translator

class TrLife(D.TrProg):
    OPT = ('optetype', 'opthandler', 'optexc')

    def truthy(self, text, ty):
        if ty == 'int':
            return f'decide ({text} ≠ 0)'
        if ty in ('blkset', 'bttlist'):
            return f'(!({text}).isEmpty)'
        if ty == 'optexc':
            return f'({text}).isSome'
        return super().truthy(text, ty)

    def expr(self, node, env):
        P = self.P
        if isinstance(node, ast.Constant) and isinstance(node.value, float) and node.value == int(node.value):
            return (f'({int(node.value)} : Int)', 'int')
        if isinstance(node, ast.BinOp) and isinstance(node.op, (ast.Add, ast.Sub)):
            a, aty = self.expr(node.left, env)
            b, bty = self.expr(node.right, env)
            if aty != 'int' or bty != 'int':
                raise self.U('arithmetic on ' + aty + '/' + bty)
            return (f"({a} {'+' if isinstance(node.op, ast.Add) else '-'} {b})", 'int')
        if isinstance(node, (ast.SetComp, ast.ListComp)):
            return self.comprehension(node, env)
        # <list>[i][j] with constant indices: a declared (pure) primitive per (type, i, j)
        if (isinstance(node, ast.Subscript) and isinstance(node.value, ast.Subscript)
                and isinstance(node.slice, ast.Constant) and type(node.slice.value) is int
                and isinstance(node.value.slice, ast.Constant) and type(node.value.slice.value) is int
                and self.t.get('subscripts')):
            base, bty = self.expr(node.value.value, env)
            key = (bty, node.value.slice.value, node.slice.value)
            if key not in self.t['subscripts']:
                raise self.U(f'subscript {ast.unparse(node)[:60]} of a value of type {bty}')
            lean, ty = self.t['subscripts'][key]
            return (lean.format(P=P, x=base), ty)
        txt = ast.unparse(node)
        if txt in self.t.get('atoms', {}):
            if ' st' in self.t['atoms'][txt][0] + ' ':
                self.reads_state = True
            return self.t['atoms'][txt]
        if isinstance(node, ast.Attribute) and isinstance(node.value, ast.Name) and node.value.id in env:
            key = (env[node.value.id][1], node.attr)
            if key in self.t.get('attrs', {}):
                lean, ty = self.t['attrs'][key]
                return (lean.format(P=P, x=env[node.value.id][0]), ty)
        res = super().expr(node, env)
        return res

    def comprehension_items(self, node, env):
        """`[y for x, y, z in <bttlist>]`: the items are taken apart by the declared `__item<i>` calls (as in a
        `for x, y, z in …` loop); only a list of tasks (= the items themselves, type btt) is supported"""
        g = node.generators[0]
        names = [e.id if isinstance(e, ast.Name) else None for e in g.target.elts]
        if None in names or len(set(names)) != len(names) or g.ifs or not isinstance(node, ast.ListComp):
            raise self.U('comprehension ' + ast.unparse(node)[:60])
        src, sty = self.expr(g.iter, env)
        if sty != 'bttlist':
            raise self.U('comprehension with a tuple target over ' + sty)
        if not (isinstance(node.elt, ast.Name) and node.elt.id in names):
            raise self.U('comprehension element ' + ast.unparse(node.elt)[:60])
        i = names.index(node.elt.id)
        it = 'it_'
        for (fname, pats, lean, rty) in self.t.get('calls', ()):
            if fname == f'__item{i}' and list(pats) == [('ty', 'btt')]:
                if rty != 'btt':
                    raise self.U(f'comprehension: list of <{rty}>')
                return (f'(List.map (fun {it} => {lean.format(P=self.P, a=[it])}) {src})', 'bttlist')
        raise self.U(f'comprehension: item {i} of a (block, task, timeout) tuple')

    def comprehension(self, node, env):
        if (len(node.generators) == 1 and not node.generators[0].is_async
                and isinstance(node.generators[0].target, ast.Tuple)):
            return self.comprehension_items(node, env)
        if len(node.generators) != 1 or node.generators[0].is_async or not isinstance(node.generators[0].target, ast.Name):
            raise self.U('comprehension ' + ast.unparse(node)[:60])
        g = node.generators[0]
        src, sty = self.expr(g.iter, env)
        if sty not in ('blkset', 'blklist'):
            raise self.U('comprehension over ' + sty)
        if sty == 'blkset' and isinstance(node, ast.ListComp):
            src = f'({self.P}.enum {src})'      # a list built by iterating over a set: the order is the set's
        var = g.target.id
        env2 = dict(env)
        env2[var] = (var, 'blk')
        if len(g.ifs) > 1:
            raise self.U('comprehension with several ifs')
        if g.ifs:
            c, cty = self.expr(g.ifs[0], env2)
            src = f'(List.filter (fun {var} => {self.truthy(c, cty)}) {src})'
        # the element
        if isinstance(node.elt, ast.Name) and node.elt.id == var:
            return (src, 'blkset' if isinstance(node, ast.SetComp) else 'blklist')
        key = ast.unparse(node.elt)
        for pat, lean, ty in self.t.get('comp_elements', ()):
            if pat.replace('{v}', var) == key:
                return (f'(List.map (fun {var} => {lean.format(P=self.P, x=var)}) {src})', ty)
        raise self.U('comprehension element ' + key[:80])

    def compare(self, node, env):
        ops, rights = node.ops, node.comparators
        if len(ops) == 1 and isinstance(ops[0], (ast.Is, ast.IsNot)) and isinstance(rights[0], ast.Constant) \
                and rights[0].value is None:
            self_reads = self.reads_state
            t, ty = self.expr(node.left, env)
            if ty == 'optexc':
                neg = isinstance(ops[0], ast.IsNot)
                return (f'({t}).isSome' if neg else f'({t}).isNone', 'bool')
            self.reads_state = self_reads
        return super().compare(node, env)

    def call(self, node, env):
        P = self.P
        f = node.func
        txt = ast.unparse(node)
        for pat, lean, ty in self.t.get('call_texts', ()):
            for v in [None] + [n for n, (_, vty) in env.items() if vty == 'blk']:
                if pat.replace('{v}', v or '{v}') == txt:
                    res = (lean.format(P=P, v=env[v][0] if v else ''), ty)
                    if ' st ' in res[0] + ' ':
                        self.reads_state = True
                    return res
        if isinstance(f, ast.Name) and f.id == 'len' and len(node.args) == 1 and not node.keywords:
            t, ty = self.expr(node.args[0], env)
            if ty in ('blkset', 'blklist', 'bttlist'):
                return (f'(({t}).length : Int)', 'int')
        # isinstance on a state path
        if isinstance(f, ast.Name) and f.id == 'isinstance' and len(node.args) == 2:
            key = (ast.unparse(node.args[0]), ast.unparse(node.args[1]))
            if key in self.t.get('isinstance_paths', {}):
                self.reads_state = True
                return (self.t['isinstance_paths'][key].format(P=P), 'bool')
        # exception constructor with a message held in a local variable
        if isinstance(f, ast.Name) and f.id in self.t.get('exceptions', ()) and len(node.args) == 1 \
                and isinstance(node.args[0], ast.Name) and env.get(node.args[0].id, (None, None))[1] == 'str':
            return (f'{P}.mkExc "{f.id}" ""', 'exc')
        # method of a typed local with typed arguments: blocks.intersection(<blkset>)
        if isinstance(f, ast.Attribute) and isinstance(f.value, ast.Name) and f.value.id in env:
            for (vty, meth, argtys, lean, rty) in self.t.get('methods_typed', ()):
                if vty == env[f.value.id][1] and meth == f.attr and len(node.args) == len(argtys) and not node.keywords:
                    args = [self.expr(a, env) for a in node.args]
                    if [ty for _, ty in args] == list(argtys):
                        res = (lean.format(P=P, x=env[f.value.id][0], a=[t for t, _ in args]), rty)
                        if ' st' in res[0]:
                            self.reads_state = True
                        return res
        res = super().call(node, env)
        if ' st' in res[0] + ' ':
            self.reads_state = True
        return res

    def effect(self, node, env):
        P = self.P
        if isinstance(node, ast.Call) and isinstance(node.func, ast.Name):
            name = node.func.id
            for cell, (cty, _) in self.t.get('cells', {}).items():
                C = cell[0].upper() + cell[1:]
                C = ''.join(w[0].upper() + w[1:] for w in cell.split('_') if w)
                if name == f'__get_{cell}' and not node.args:
                    return (f'{P}.get{C}', cty)
                if name == f'__set_{cell}' and len(node.args) == 1:
                    t, ty = self.expr(node.args[0], env)
                    if ty == 'emptyset' and cty == 'blkset':
                        t, ty = '[]', 'blkset'
                    if ty != cty:
                        raise self.U(f'{cell} = <{ty}>')
                    return (f'{P}.set{C} ({t})', 'unit')
                if name == f'__add_{cell}' and len(node.args) == 1:
                    t, ty = self.expr(node.args[0], env)
                    if ty != 'blk':
                        raise self.U(f'{cell}.add(<{ty}>)')
                    return (f'{P}.add{C} ({t})', 'unit')
        if isinstance(node, ast.Call):
            txt = ast.unparse(node)
            for pat, lean, ty in self.t.get('effect_texts', ()):
                if pat == txt:
                    return (lean.format(P=P), ty)
            # a declared call with typed positional and typed keyword arguments: asyncio.wait(<tasks>, timeout=<int>)
            p = D.path_or_none(node.func)
            for (cp, postys, kwtys, lean, rty) in self.t.get('kw_effects', ()):
                if cp == p:
                    kws = {k.arg: k.value for k in node.keywords}
                    if len(node.args) != len(postys) or set(kws) != set(kwtys) or len(kws) != len(node.keywords):
                        raise self.U(f'{cp}(...): unexpected arguments')
                    args = [self.expr(a, env) for a in node.args]
                    if [ty for _, ty in args] != list(postys):
                        raise self.U(f'{cp}(...): argument types {[ty for _, ty in args]}')
                    kw = {}
                    for name, want in kwtys.items():
                        t, ty = self.expr(kws[name], env)
                        if ty != want:
                            raise self.U(f'{cp}(..., {name}=<{ty}>)')
                        kw[name] = t
                    return (lean.format(P=P, a=[t for t, _ in args], kw=kw), rty)
        return super().effect(node, env)

    @staticmethod
    def plain(node):
        """an expression whose evaluation has no effect and cannot raise in a way that matters: names, attribute
        chains, constants"""
        if isinstance(node, (ast.Name, ast.Constant)):
            return True
        if isinstance(node, ast.Attribute):
            return TrLife.plain(node.value)
        return False

    def ignorable_call(self, node):
        """logging calls are ignored -- but only calls of the logging methods themselves (not `blk.<anything>`), and
        only when every argument is a plain name / attribute / constant: the arguments are evaluated eagerly, so
        an eager `%`-formatting, a call or a comprehension among them could raise or have an effect"""
        if not isinstance(node, ast.Call):
            return False
        p = D.path_or_none(node.func) or ''
        if not any(re.fullmatch(pat, p) for pat in self.t.get('ignore_re', ())):
            return False
        for a in list(node.args) + [k.value for k in node.keywords]:
            if not self.plain(a):
                raise self.U('argument of an ignored logging call is not a plain name/attribute/constant: '
                             + ast.unparse(a)[:60])
        return True

    def pure_test(self, node):
        """test of an ignored `assert`: no calls, no walrus, no comprehension"""
        return not any(isinstance(n, (ast.Call, ast.NamedExpr, ast.Await, ast.ListComp, ast.SetComp, ast.DictComp,
                                      ast.GeneratorExp, ast.Yield, ast.YieldFrom)) for n in ast.walk(node))

    def narrowing(self, test, env):
        def opt(name):
            return name in env and env[name][1] in self.OPT
        if (isinstance(test, ast.Compare) and len(test.ops) == 1 and isinstance(test.ops[0], (ast.Is, ast.IsNot))
                and isinstance(test.comparators[0], ast.Constant) and test.comparators[0].value is None
                and isinstance(test.left, ast.Name) and opt(test.left.id)):
            return test.left.id, env[test.left.id][1][3:], isinstance(test.ops[0], ast.Is)
        return super().narrowing(test, env)

    def block(self, stmts, env, fall, ind, live=()):
        P = self.P
        pad = '  ' * ind
        if stmts:
            s, rest = stmts[0], list(stmts[1:])
            if isinstance(s, ast.Pass):
                return self.block(rest, env, fall, ind, live)
            if isinstance(s, ast.Assert):
                # ignored (python -O removes it) -- provided that evaluating it cannot do anything
                if not self.pure_test(s.test) or (s.msg is not None and not self.plain(s.msg)):
                    raise self.U('assert with a call / effect: ' + ast.unparse(s)[:60])
                return self.block(rest, env, fall, ind, live)
            if isinstance(s, ast.Raise) and s.cause is not None:
                raise self.U('raise ... from ...')
            # raise <optional exception held in the state>: `raise self._error`
            if isinstance(s, ast.Raise) and s.exc is not None:
                p = D.path_or_none(s.exc)
                if p in self.t.get('state', {}) and self.t['state'][p][1] == 'optexc':
                    return (f'{pad}M.bind M.get fun st =>\n{pad}match {self.t["state"][p][0]} with\n'
                            f'{pad}| some e_ => M.raise e_\n'
                            f'{pad}| none => M.raise ({P}.mkExc "TypeError" "")   -- `raise None`')
            # self.<path> = <call>  /  self.<path>[<key>] = <call>
            if isinstance(s, ast.Assign) and len(s.targets) == 1 and not isinstance(s.targets[0], ast.Name):
                key = (ast.unparse(s.targets[0]), ast.unparse(s.value))
                if key in self.t.get('assign_texts', {}):
                    return (f'{pad}M.bind ({self.t["assign_texts"][key].format(P=P)}) fun _ =>\n'
                            + self.block(rest, env, fall, ind, live))
                tp = ast.unparse(s.targets[0])
                if tp in self.t.get('assign', {}):
                    self.reads_state = False
                    t, ty = self.expr(s.value, env)
                    want, lean = self.t['assign'][tp]
                    if ty != want:
                        raise self.U(f'{tp} = <{ty}>')
                    return f'{pad}M.bind ({lean.format(P=P, x=t)}) fun _ =>\n' + self.block(rest, env, fall, ind, live)
            # a local bound to a string constant (messages) or to an empty set
            if isinstance(s, ast.Assign) and len(s.targets) == 1 and isinstance(s.targets[0], ast.Name):
                if isinstance(s.value, ast.Constant) and isinstance(s.value.value, str):
                    env2 = dict(env)
                    env2[s.targets[0].id] = ('""', 'str')
                    return self.block(rest, env2, fall, ind, live)
                # NAME = <expression that reads the state>
                eff = self.effect(s.value, env)
                if eff is None:
                    self.reads_state = False
                    t, ty = self.expr(s.value, env)
                    if self.reads_state and ty != 'none':
                        env2 = dict(env)
                        env2[s.targets[0].id] = (s.targets[0].id, ty)
                        return (f'{pad}M.bind M.get fun st =>\n{pad}let {s.targets[0].id} := {t}\n'
                                + self.block(rest, env2, fall, ind, live))
        return super().block(stmts, env, fall, ind, live)

    def for_(self, s, rest, env, fall, ind, live):
        """`for x in <expression of a list / set type>`: the iterable is evaluated once, a set is enumerated
        by the primitive `enum`; then as in TrProg (structural recursion, loop-carried variables)"""
        if s.orelse or not isinstance(s.target, ast.Name):
            raise self.U('for loop ' + ast.unparse(s)[:60])
        pad = '  ' * ind
        self.reads_state = False
        t, ty = self.expr(s.iter, env)
        reads = self.reads_state
        if ty == 'blkset':
            lst, ety = f'({self.P}.enum {t})', 'blk'
        elif ty == 'blklist':
            lst, ety = t, 'blk'
        elif ty == 'bttlist':
            lst, ety = t, 'btt'
        else:
            raise self.U('for loop over a value of type ' + ty)
        key = f'__iter{self.nloops + 1}'
        lists = dict(self.t.get('lists', {}))
        lists[key] = (lst, ety)
        saved = self.t.get('lists')
        self.t['lists'] = lists
        s2 = copy.copy(s)
        s2.iter = ast.Name(key, ast.Load())
        try:
            txt = super().for_(s2, rest, env, fall, ind, live)
        finally:
            if saved is None:
                self.t.pop('lists', None)
            else:
                self.t['lists'] = saved
        txt = txt.replace(f'`for {s.target.id} in {key}`', f'`for {s.target.id} in {ast.unparse(s.iter)}`')
        if reads:
            txt = f'{pad}M.bind M.get fun st =>\n' + txt
        return txt

    def try_(self, s, rest, env, fall, ind, live):
        """handlers with a tuple of classes: one arm per class, same body"""
        handlers = []
        for h in s.handlers:
            if isinstance(h.type, ast.Tuple):
                for e in h.type.elts:
                    h2 = copy.copy(h)
                    h2.type = e
                    handlers.append(h2)
            else:
                handlers.append(h)
        s2 = copy.copy(s)
        s2.handlers = handlers
        return super().try_(s2, rest, env, fall, ind, live)

    def function(self, fn):
        fn = Normalizer(self.t, self.U).run(fn)
        self.normalized = ast.unparse(fn)
        txt = super().function(fn)
        # loops without loop-carried variables (TrProg always had some)
        for a, b in ((' →  → ', ' → '), ('| [],  =>', '| [] =>'), (':: rest_,  =>', ':: rest_ =>')):
            txt = txt.replace(a, b)
        return txt


# ---------------------------------------------------------------------------------------- targets

HEADER = r'''/- GENERATED by tools/py2lean.py (tools/py2lean_lifecycle.py) from the Python source of edzed
   (simulator.Circuit._run_tasks, ._stop_sblocks, ._init_sblocks_async, .run_forever) -- do not edit -/
import EdzedModel.Gen.TranslatedDispatch

set_option linter.unusedVariables false

namespace Edzed.Gen.TrL
open Edzed.Gen.TrD

/-! `await X` is a call of the primitive X: it returns, raises, or is interrupted by a cancellation
    (raises CancelledError).  σ state, ε exceptions, β blocks, κ (block, task, timeout) items. -/

/-- the leaves of `Circuit._run_tasks` -/
structure RunTasksPrims (σ ε β κ : Type) where
  excIs : ε → String → Bool             -- is the exception caught by `except Class`
  sortDesc : List κ → List κ            -- `sorted(btt_list, key=operator.itemgetter(2), reverse=True)`
  timeoutOf : κ → Int                   -- the third item of a (block, task, timeout) tuple
  getTime : M σ ε Unit Int              -- `asyncio.get_running_loop().time()`
  taskDone : σ → κ → Bool               -- `task.done()`
  waitFor : κ → Int → M σ ε Unit Unit   -- `await asyncio.wait_for(task, <seconds>)`
  cancelTask : κ → M σ ε Unit Unit      -- `task.cancel()`
  headTimeout : List κ → Int            -- `btt_list[0][2]`: the time-out of the first item (the list is not empty)
  waitAll : List κ → Int → M σ ε Unit Unit    -- `await asyncio.wait(<tasks>, timeout=<seconds>)`
  taskCancelled : σ → κ → Bool          -- `task.cancelled()`
  taskException : κ → M σ ε Unit (Option ε)   -- `task.exception()`

/-- the leaves of `Circuit._stop_sblocks` -/
structure StopPrims (σ ε β κ : Type) where
  excIs : ε → String → Bool
  enum : List β → List β                -- the order in which a set of blocks is iterated
  isAddonAsync : β → Bool               -- member of `self.getblocks(addons.AddonAsync)`
  hasStopAsync : β → Bool               -- `blk.has_method('stop_async')`
  stopTimeout : β → Int                 -- `blk.stop_timeout` (compared with 0 only)
  notIn : List β → β → Bool             -- `b not in s` (for `set.difference`)
  stop : β → M σ ε Unit Unit            -- `blk.stop()`
  sleep0 : M σ ε Unit Unit              -- `await asyncio.sleep(0)`
  stopTask : β → κ                      -- `(blk, create_task(blk.stop_async(), …), blk.stop_timeout)`
  runTasksStop : List κ → M σ ε Unit Unit     -- `await self._run_tasks("stop", wait_tasks)`

/-- the leaves of `Circuit._init_sblocks_async` -/
structure InitAsyncPrims (σ ε β κ : Type) where
  asyncBlocks : List β                  -- `self.getblocks(addons.AddonAsync)` (creation order)
  isInitialized : σ → β → Bool          -- `blk.is_initialized()`
  hasInitAsync : β → Bool               -- `blk.has_method('init_async')`
  initTimeout : β → Int                 -- `blk.init_timeout` (compared with 0 only)
  initTask : β → κ                      -- `(blk, create_task(blk.init_async(), …), blk.init_timeout)`
  runTasksInit : List κ → M σ ε Unit Unit     -- `await self._run_tasks("async init", start_tasks)`

/-- the leaves of `Circuit.run_forever` -/
structure RunForeverPrims (σ ε β : Type) where
  mkExc : String → String → ε
  excIs : ε → String → Bool
  enum : List β → List β
  simtaskSet : σ → Bool                 -- `self._simtask is not None`
  simtaskDone : σ → Bool                -- `self._simtask.done()`
  testEager : M σ ε Unit Unit           -- `await _test_eager_tasks()`
  setSimtask : M σ ε Unit Unit          -- `self._simtask = asyncio.current_task()`
  getStartedBlocks : M σ ε Unit (List β)      -- the local variable `started_blocks` …
  setStartedBlocks : List β → M σ ε Unit Unit
  addStartedBlocks : β → M σ ε Unit Unit      -- `started_blocks.add(blk)`
  getStartOk : M σ ε Unit Bool                -- … and `start_ok`: cells of the state (they survive an exception)
  setStartOk : Bool → M σ ε Unit Unit
  getError : σ → Option ε               -- `self._error`
  setError : ε → M σ ε Unit Unit        -- `self._error = err`
  errIsCancelled : σ → Bool             -- `isinstance(self._error, asyncio.CancelledError)`
  noBlocks : σ → Bool                   -- `not self._blocks`
  newQueue : M σ ε Unit Unit            -- `self.sblock_queue = asyncio.Queue()`
  newInitDone : M σ ε Unit Unit         -- `self._init_done = asyncio.Event()`
  checkPersistentData : M σ ε Unit Unit
  resolve : M σ ε Unit Unit             -- `self._resolver.resolve()`
  finalize : M σ ε Unit Unit
  allBlocks : List β                    -- `self.getblocks()` (creation order)
  start : β → M σ ε Unit Unit           -- `blk.start()`
  sleep0 : M σ ε Unit Unit              -- `await asyncio.sleep(0)`
  initSync1 : M σ ε Unit Unit
  initAsync : M σ ε Unit Unit           -- `await self._init_sblocks_async()`
  initSync2 : M σ ε Unit Unit
  initDoneSet : M σ ε Unit Unit         -- `self._init_done.set()`
  simulate : M σ ε Unit Unit            -- `await self._simulate()`
  storageSet : σ → Bool                 -- `self.persistent_dict is not None`
  isPersistence : β → Bool              -- member of `self.getblocks(addons.AddonPersistence)`
  saveState : β → M σ ε Unit Unit       -- `blk.save_persistent_state()`
  stampStopTime : M σ ε Unit Unit       -- `self.persistent_dict['edzed-stop-time'] = time.time()`
  stopSblocks : List β → M σ ε Unit Unit      -- `await self._stop_sblocks(started_blocks)`

'''


def run_tasks_target(api):
    simulator = api.simulator
    return dict(
        name='runTasks', doc='simulator.Circuit._run_tasks', node=lambda: api.fn_ast(simulator.Circuit._run_tasks),
        P='P', prims='RunTasksPrims σ ε β κ', tyvars='{σ ε β κ : Type}', ret_lean='Unit',
        args=[('btt_list', 'bttlist')], ret_type='unit',
        ignore_re=(r'blk_\d+\.log_\w+', r'_logger\.\w+'),
        awaited=('asyncio.wait_for', 'asyncio.wait'), hoist=('get_time',),
        atoms={'asyncio.get_running_loop().time': ('()', 'clockfn')},
        call_texts=[('sorted(btt_list, key=operator.itemgetter(2), reverse=True)', '{P}.sortDesc btt_list', 'bttlist')],
        calls=[('__item0', [('ty', 'btt')], '()', 'unit'),
               ('__item1', [('ty', 'btt')], '{a[0]}', 'btt'),
               ('__item2', [('ty', 'btt')], '{P}.timeoutOf {a[0]}', 'int')],
        var_calls=[('clockfn', [], '!{P}.getTime', 'int')],
        effects=[('asyncio.wait_for', [('ty', 'btt'), ('ty', 'int')], '{P}.waitFor {a[0]} {a[1]}', 'unit')],
        kw_effects=[('asyncio.wait', ['bttlist'], {'timeout': 'int'}, '{P}.waitAll {a[0]} {kw[timeout]}', 'unit')],
        subscripts={('bttlist', 0, 2): ('({P}.headTimeout {x})', 'int')},
        methods=[('btt', 'done', [], '{P}.taskDone st {x}', 'bool'),
                 ('btt', 'cancelled', [], '{P}.taskCancelled st {x}', 'bool')],
        method_effects=[('btt', 'cancel', [], '{P}.cancelTask {x}', 'unit'),
                        ('btt', 'exception', [], '{P}.taskException {x}', 'optexc')],
        catchable=('asyncio.CancelledError', 'asyncio.TimeoutError', 'Exception'),
    )


def stop_sblocks_target(api):
    simulator = api.simulator
    return dict(
        name='stopSblocks', doc='simulator.Circuit._stop_sblocks',
        node=lambda: api.fn_ast(simulator.Circuit._stop_sblocks),
        P='P', prims='StopPrims σ ε β κ', tyvars='{σ ε β κ : Type}', ret_lean='Unit',
        args=[('blocks', 'blkset')], ret_type='unit',
        ignore_re=(r'self\.log_\w+', r'_logger\.\w+'),
        awaited=('asyncio.sleep', 'self._run_tasks'),
        methods_typed=[('blkset', 'intersection', ('blkfilter',), '(List.filter {a[0]} {x})', 'blkset'),
                       ('blkset', 'difference', ('blkset',), '(List.filter ({P}.notIn {a[0]}) {x})', 'blkset')],
        call_texts=[('self.getblocks(addons.AddonAsync)', '{P}.isAddonAsync', 'blkfilter'),
                    ("{v}.has_method('stop_async')", '{P}.hasStopAsync {v}', 'bool')],
        attrs={('blk', 'stop_timeout'): ('{P}.stopTimeout {x}', 'int')},
        comp_elements=[("({v}, asyncio.create_task({v}.stop_async(), name=f'edzed: stop_async for block {{v}.name!r}'), "
                        "{v}.stop_timeout)", '{P}.stopTask {x}', 'bttlist')],
        method_effects=[('blk', 'stop', [], '{P}.stop {x}', 'unit')],
        effect_texts=[('asyncio.sleep(0)', '{P}.sleep0', 'unit')],
        effects=[('self._run_tasks', [('ty', 'str'), ('ty', 'bttlist')], '{P}.runTasksStop {a[1]}', 'unit')],
        stringly={'stop'},
        catchable=('Exception',),
    )


def init_async_target(api):
    simulator = api.simulator
    return dict(
        name='initSblocksAsync', doc='simulator.Circuit._init_sblocks_async',
        node=lambda: api.fn_ast(simulator.Circuit._init_sblocks_async),
        P='P', prims='InitAsyncPrims σ ε β κ', tyvars='{σ ε β κ : Type}', ret_lean='Unit',
        args=[], ret_type='unit',
        ignore_re=(r'self\.log_\w+', r'_logger\.\w+'),
        awaited=('self._run_tasks',),
        call_texts=[('self.getblocks(addons.AddonAsync)', '{P}.asyncBlocks', 'blklist'),
                    ("{v}.has_method('init_async')", '{P}.hasInitAsync {v}', 'bool'),
                    ('{v}.is_initialized()', '{P}.isInitialized st {v}', 'bool')],
        attrs={('blk', 'init_timeout'): ('{P}.initTimeout {x}', 'int')},
        comp_elements=[("({v}, asyncio.create_task({v}.init_async(), name=f'edzed: init_async for block {{v}.name!r}'), "
                        "{v}.init_timeout)", '{P}.initTask {x}', 'bttlist')],
        effects=[('self._run_tasks', [('ty', 'str'), ('ty', 'bttlist')], '{P}.runTasksInit {a[1]}', 'unit')],
        catchable=(),
    )


def run_forever_target(api):
    simulator = api.simulator
    return dict(
        name='runForever', doc='simulator.Circuit.run_forever', node=lambda: api.fn_ast(simulator.Circuit.run_forever),
        P='P', prims='RunForeverPrims σ ε β', tyvars='{σ ε β : Type}', ret_lean='Unit',
        args=[], ret_type='unit',
        ignore_re=(r'self\.log_\w+', r'_logger\.\w+'),
        awaited=('_test_eager_tasks', 'asyncio.sleep', 'self._init_sblocks_async', 'self._simulate',
                 'self._stop_sblocks'),
        cells={'started_blocks': ('blkset', None), 'start_ok': ('bool', None)},
        exceptions=('EdzedInvalidState', 'EdzedCircuitError'),
        state={'self._error': ('P.getError st', 'optexc')},
        atoms={'self._simtask is not None': ('P.simtaskSet st', 'bool'),
               'self._simtask.done()': ('P.simtaskDone st', 'bool'),
               'not self._blocks': ('P.noBlocks st', 'bool'),
               'self.persistent_dict is not None': ('P.storageSet st', 'bool'),
               'set()': ('[]', 'blkset')},
        isinstance_paths={('self._error', 'asyncio.CancelledError'): '{P}.errIsCancelled st'},
        assign_texts={('self._simtask', 'asyncio.current_task()'): '{P}.setSimtask',
                      ('self.sblock_queue', 'asyncio.Queue()'): '{P}.newQueue',
                      ('self._init_done', 'asyncio.Event()'): '{P}.newInitDone',
                      ("self.persistent_dict['edzed-stop-time']", 'time.time()'): '{P}.stampStopTime'},
        assign={'self._error': ('exc', '{P}.setError {x}')},
        call_texts=[('self.getblocks()', '{P}.allBlocks', 'blklist'),
                    ('self.getblocks(addons.AddonPersistence)', '{P}.isPersistence', 'blkfilter')],
        methods_typed=[('blkset', 'intersection', ('blkfilter',), '(List.filter {a[0]} {x})', 'blkset')],
        effect_texts=[('_test_eager_tasks()', '{P}.testEager', 'unit'),
                      ('asyncio.sleep(0)', '{P}.sleep0', 'unit'),
                      ('self._check_persistent_data()', '{P}.checkPersistentData', 'unit'),
                      ('self._resolver.resolve()', '{P}.resolve', 'unit'),
                      ('self.finalize()', '{P}.finalize', 'unit'),
                      ('self._init_sblocks_sync_1()', '{P}.initSync1', 'unit'),
                      ('self._init_sblocks_async()', '{P}.initAsync', 'unit'),
                      ('self._init_sblocks_sync_2()', '{P}.initSync2', 'unit'),
                      ('self._init_done.set()', '{P}.initDoneSet', 'unit'),
                      ('self._simulate()', '{P}.simulate', 'unit')],
        effects=[('self._stop_sblocks', [('ty', 'blkset')], '{P}.stopSblocks {a[0]}', 'unit')],
        method_effects=[('blk', 'start', [], '{P}.start {x}', 'unit'),
                        ('blk', 'save_persistent_state', [], '{P}.saveState {x}', 'unit')],
        catchable=('Exception', 'asyncio.CancelledError'),
    )


def main_lifecycle(outfile, api):
    D.Ctx.Untranslatable = api.Untranslatable
    D.Ctx.node_path = staticmethod(api.node_path)
    L = [HEADER.rstrip('\n'), '']

    def translate(t):
        return TrLife(t).function(t['node']())

    for t in (run_tasks_target(api), stop_sblocks_target(api), init_async_target(api), run_forever_target(api)):
        api.emit(L, t, translate, ': the statements of the method in program order (`await X` = the primitive X)')
    L.append('end Edzed.Gen.TrL')
    api.write_if_changed(outfile, '\n'.join(L) + '\n')
