"""
Translator for the cron service and its two client classes (edzed/blocklib/cron.py, timedate.py,
utils/flag.py).  Called from tools/py2lean.py (`main`); output: lean/EdzedModel/Gen/TranslatedCron.lean,
`namespace Edzed.Gen.TrCron`.  The tie theorems are `Edzed.TrTie.translated_cron_…` (EdzedProps/C07.lean,
proofs in EdzedProofs/CronTie.lean).

From the AST: every statement, its position, every condition, the order of effects, `break`/`continue`/early
`return`, which value a call gets.  DECLARED here: only the meaning of the leaves (tables LEAVES_* below): an
access path / call shape = a field of the structure of primitives (a PARAMETER of the generated definitions).

Scheme.  A method becomes a function in continuation-passing style over a record `…Locals` holding EVERY
Python local, parameter and used attribute of `self` (one field each; renaming a local renames a bound field,
the proofs do not mention them by position) and, for `_maintask`, the state of the world `w : σ` (alarm table,
clock, whatever `recalc` does); the fields of the `_maintask` record are canonical: `v<n>`, n = source position of the
first binding.  Statement lists are translated back to front: the code after an `if` both of
whose branches go on becomes a `let`-bound join point.

 * `Flag.OR/test_clear/set/clear/__bool__` (utils/flag.py): value  ->  (new value, result)
 * `Cron.add_block`, `remove_block`, `reload`:  `Except Exc …Locals`
 * `Cron._maintask`: `mtInit` = the statements before `while True:`, `mtStep` = ONE pass through its body:
       Res.next L w                      end of the body / `continue`
       Res.sleep d w k                   suspended in `await asyncio.sleep(d)`
       Res.waitQueue t w k               suspended in `await asyncio.wait_for(self._queue.get(), t)`;
                                         resumed with `true` (an item: the `else:` branch) or `false` (TimeoutError)
       Res.raise e L w
   `for step in range(n)` is a structural recursion over `List.range n` (`mtFor1`), its body `mtFor1Body` gets
   the continuations for "next iteration" and `break`; what follows the loop is `mtAfter1`.
   `for blk in <set expression>: …recalc…` is a fold over an enumeration of the set (evaluated ONCE, where
   the `for` statement stands) threading the world.
 * `TimeDate.recalc` / `_is_configured`, `TimeSpan.recalc`: Boolean value handed to `set_output`
 * `TimeDate._event_reconfig`, `TimeSpan._event_reconfig`: list of actions in program order

Numbers: Python floats/ints in time arithmetic are exact rationals (`Rat`), indices and counters `Nat`.
Ignored: logging calls (an `if` that only logs is dropped when its test has no effect), `assert hasattr(blk,
'recalc')` inside the recalc loops (add_block refuses such blocks), type annotations, docstrings.
Anything else: UNTRANSLATABLE -> the definition is omitted and the theorems that mention it stop compiling.

Audit rules (two Python expressions that can differ must not become one Lean term): truthiness only on Booleans,
Flags (translated `__bool__`) and sets of the table (`not s` = `sEmpty`); `is None` only where the static type is an
Option (the index) or a declared attribute; `== None`, `==`/`!=` on an optional, `is` between values, optional locals
behind `and`/`or`/conditional expressions, effects behind a short-circuit operator or in a right operand: refused;
`d[k]` / `del d[k]` raise KeyError without the key; module constants are taken from the cron module's namespace;
`Flag` is the class bound to that name in the cron module, `__init__` included; decorated functions, *args/**kwargs,
unexpected defaults: refused; arguments of ignored logging calls must be effect-free (`Fn.harmless`).
"""
import ast
import inspect
import textwrap
from fractions import Fraction


class Untranslatable(Exception):
    pass


def path(node):
    if isinstance(node, ast.Name):
        return node.id
    if isinstance(node, ast.Attribute):
        return path(node.value) + '.' + node.attr
    raise Untranslatable(f'not an access path: {ast.dump(node)[:80]}')


def check_plain_function(node, what, allow_kwonly=False):
    """nothing the translation does not look at may change the meaning: no decorators, no *args/**kwargs (except a
    trailing `**_data` of event handlers), no positional defaults other than the ones the caller handles"""
    if node.decorator_list:
        raise Untranslatable(f'{what}: decorated')
    a = node.args
    if a.vararg is not None or a.posonlyargs:
        raise Untranslatable(f'{what}: *args / positional-only parameters')
    if a.kwonlyargs and not allow_kwonly:
        raise Untranslatable(f'{what}: keyword-only parameters')
    if a.kwarg is not None and not (allow_kwonly and a.kwarg.arg == '_data'):
        raise Untranslatable(f'{what}: **kwargs')


def try_path(node):
    try:
        return path(node)
    except Untranslatable:
        return None


LEAN_TY = {'rat': 'Rat', 'nat': 'Nat', 'bool': 'Bool', 'flag': 'Bool', 'T': 'T', 'DT': 'DT', 'B': 'B',
           'tt': 'List T', 'optnat': 'Option Nat', 'D': 'D', 'S': 'S'}
DEFAULT = {'rat': '0', 'nat': '0', 'bool': 'false', 'flag': 'false', 'T': 'default', 'DT': 'default',
           'tt': '[]', 'optnat': 'none'}
KEYWORDS = {'at', 'from', 'end', 'open', 'in', 'do', 'then', 'else', 'fun', 'let', 'have', 'show', 'match',
            'with', 'where', 'by', 'if', 'def', 'P', 'w', 'L', 'k', 'next', 'brk', 'reset', 'step'}

# module-level numeric constants of cron.py -> Lean names; their VALUES are read from the namespace of the cron
# module itself (what the code sees under that name -- an import that is shadowed by a local definition is seen
# too) and written into the generated header as exact decimal rationals; `translated_cron_constants_are_extracted`
# compares them with Gen/Constants.lean
CONSTS = {'_TT_OK': 'ttOk', '_TT_WARNING': 'ttWarning', '_TT_ERROR': 'ttError',
          'SEC_PER_HOUR': 'secPerHour', 'SEC_PER_MIN': 'secPerMin', 'SEC_PER_DAY': 'secPerDay'}

FLAG_METHODS = ('OR', 'AND', 'test_clear', 'test_set', 'set', 'clear', 'invert', '__bool__')
FLAG_TRANSLATED = ('__init__',) + FLAG_METHODS


def fld(name):
    name = name.split('.')[-1].lstrip('_')
    return name + '_' if name in KEYWORDS else name


def dec_lit(v):
    """a module constant: the rational its decimal representation denotes (0.001 -> 1/1000)"""
    if isinstance(v, bool) or not isinstance(v, (int, float)):
        raise Untranslatable(f'constant {v!r} is not a number')
    f = Fraction(repr(v))
    return f'({f.numerator} : Rat)' if f.denominator == 1 else f'(({f.numerator} : Rat) / {f.denominator})'


def rat_lit(v):
    f = Fraction(v)
    if f.denominator == 1:
        return f'({f.numerator} : Rat)'
    return f'(({f.numerator} : Rat) / {f.denominator})'


def ind(lines, n=2):
    return [' ' * n + x for x in lines]


# ------------------------------------------------------------------------------------------------ Flag

def translate_flag(cls):
    """each method: the body is a sequence of `self._value = e`, `value = self._value`, `if [not] other: …`,
    `return e`  ->  fun (v : Bool) (args) => (new v, result)"""
    out = []
    for name in FLAG_TRANSLATED:
        fn = ast.parse(textwrap.dedent(inspect.getsource(getattr(cls, name)))).body[0]
        check_plain_function(fn, f'Flag.{name}')
        params = [a.arg for a in fn.args.args[1:]]
        defaults = {}
        for a, d in zip(reversed(fn.args.args), reversed(fn.args.defaults)):
            if not isinstance(d, ast.Constant) or not isinstance(d.value, bool):
                raise Untranslatable('Flag default')
            defaults[a.arg] = 'true' if d.value else 'false'

        def ex(e, env):
            if isinstance(e, ast.Constant) and isinstance(e.value, bool):
                return 'true' if e.value else 'false'
            if isinstance(e, ast.Name) and e.id in env:
                return env[e.id]
            if isinstance(e, ast.Attribute) and try_path(e) == 'self._value':
                return env['self._value']
            if isinstance(e, ast.UnaryOp) and isinstance(e.op, ast.Not):
                return f'(!{ex(e.operand, env)})'
            if isinstance(e, ast.Call) and try_path(e.func) == 'bool' and len(e.args) == 1:
                return ex(e.args[0], env)
            raise Untranslatable(f'Flag.{name}: {ast.dump(e)[:80]}')

        def body(stmts, env):
            if not stmts:
                if name == '__init__':
                    return f"({env['self._value']}, true)"
                raise Untranslatable(f'Flag.{name}: no return')
            s, rest = stmts[0], stmts[1:]
            if isinstance(s, ast.Expr) and isinstance(s.value, ast.Constant):
                return body(rest, env)
            if isinstance(s, ast.Return):
                return f"({env['self._value']}, {ex(s.value, env)})"
            if isinstance(s, ast.Assign) and len(s.targets) == 1:
                t = try_path(s.targets[0])
                val = ex(s.value, env)
                if t == 'self._value':
                    return f"let v : Bool := {val}\n  " + body(rest, {**env, 'self._value': 'v'})
                if isinstance(s.targets[0], ast.Name):
                    nm = fld(t) + '_l'
                    return f"let {nm} : Bool := {val}\n  " + body(rest, {**env, t: nm})
            if isinstance(s, ast.If) and not s.orelse:
                # `if c: self._value = e` followed by the rest
                if len(s.body) == 1 and isinstance(s.body[0], ast.Assign) and \
                        try_path(s.body[0].targets[0]) == 'self._value':
                    val = ex(s.body[0].value, env)
                    return (f"let v : Bool := if {ex(s.test, env)} then {val} else {env['self._value']}\n  "
                            + body(rest, {**env, 'self._value': 'v'}))
            raise Untranslatable(f'Flag.{name}: {ast.dump(s)[:80]}')
        env = {'self._value': 'v'}
        for p in params:
            env[p] = fld(p)
        ps = ''.join(f' ({fld(p)} : Bool' + (f' := {defaults[p]}' if p in defaults else '') + ')' for p in params)
        lname = {'__bool__': 'bool', '__init__': 'init'}.get(name, name)
        if name == '__init__':
            # no value before the constructor ran: reading `self._value` first is an error
            env['self._value'] = 'UNSET'
            text = body(fn.body, env)
            if 'UNSET' in text:
                raise Untranslatable('Flag.__init__ reads self._value before assigning it')
            out.append('/-- translated from `Flag.__init__`: argument -> (initial value, unused) -/')
            out.append(f'def Flag_init{ps} : Bool × Bool :=\n  ' + text)
            out.append('')
            continue
        out.append(f'/-- translated from `utils.flag.Flag.{name}`: value -> (new value, result) -/')
        out.append(f'def Flag_{lname} (v : Bool){ps} : Bool × Bool :=\n  ' + body(fn.body, env))
        out.append('')
    return out


# ------------------------------------------------------------------------------------------------ CPS engine

class Fn:
    """one translated method: locals record + CPS body"""

    def __init__(self, name, node, self_fields, params, leaves, res_ty, world=False, extra_types=None):
        self.name = name
        self.node = node
        self.types = {}             # python name / self path -> type
        self.order = []
        for k, v in list(self_fields.items()) + list(params.items()) + list((extra_types or {}).items()):
            self.declare(k, v)
        self.leaves = leaves
        self.res_ty = res_ty
        self.world = world
        self.nj = 0
        self.aliases = {}           # local name -> (dict path, key expr text)
        self.aux = []               # extra definitions emitted before the main one (loops)
        self.nfor = 0

    # ---- locals
    def declare(self, key, ty):
        if key in self.types:
            old = self.types[key]
            if old == ty:
                return
            if {old, ty} == {'optnat', 'nat'} or (old == 'none' and ty == 'nat') or (old == 'nat' and ty == 'none'):
                self.types[key] = 'optnat'
                return
            if old == 'none':
                self.types[key] = ty
                return
            if ty == 'none':
                return
            if old == 'optnat' and ty in ('nat', 'none'):
                return
            raise Untranslatable(f'{key}: assigned values of types {old} and {ty}')
        self.types[key] = ty
        self.order.append(key)

    def prescan(self, stmts):
        """types of the locals: from every assignment (None + Nat = Option Nat)"""
        nodes = [n for n in ast.walk(ast.Module(body=stmts, type_ignores=[])) if hasattr(n, 'lineno')]
        nodes.sort(key=lambda n: (n.lineno, n.col_offset))
        for s in nodes:
            if isinstance(s, (ast.Assign, ast.AugAssign, ast.For)):
                for tg in (s.targets if isinstance(s, ast.Assign) else [s.target]):
                    for sub in ast.walk(tg):
                        if isinstance(sub, ast.Name) and sub.id in CONSTS:
                            raise Untranslatable(f'the module constant {sub.id} is shadowed by a local')
            if isinstance(s, ast.Assign) and len(s.targets) == 1 and isinstance(s.targets[0], ast.Name):
                nm = s.targets[0].id
                if self.is_alias_value(s.value):
                    continue
                if isinstance(s.value, ast.Subscript) and self.types.get(try_path(s.value.value)) == 'tt':
                    self.declare(nm, 'T')
                    continue
                try:
                    _, _, ty = self.expr(s.value, probe=True)
                except Untranslatable:
                    continue
                self.declare(nm, ty)
            elif isinstance(s, ast.For) and isinstance(s.target, ast.Name) and self.is_range(s.iter):
                self.declare(s.target.id, 'nat')

    def is_alias_value(self, v):
        return (isinstance(v, ast.Subscript) and try_path(v.value) in self.leaves.get('dicts', ()))

    @staticmethod
    def is_range(it):
        return isinstance(it, ast.Call) and try_path(it.func) == 'range' and len(it.args) == 1 and \
            isinstance(it.args[0], ast.Constant) and isinstance(it.args[0].value, int)

    def fname(self, key):
        """field of the locals record: canonical `v<n>` (n = position of the first binding in the source) for the
        locals of `_maintask` -- renaming a Python local does not rename anything in the generated text --, the
        attribute / parameter name elsewhere (those names are part of the declared leaves)"""
        if getattr(self, 'canonical', False):
            return f'v{self.order.index(key)}'
        return fld(key)

    def rec(self):
        return self.name[0].upper() + self.name[1:] + 'Locals'

    def recf(self):
        """the record type applied to its type parameters"""
        ta = ' '.join(x for x in self.leaves['tparams'].replace(': Type', '').split())
        return (self.rec() + ' ' + ta).strip() if not getattr(self, 'no_targs', False) else self.rec()

    def get(self, key, unwrapped=None):
        if key not in self.types:
            raise Untranslatable(f'{self.name}: unknown name {key}')
        if unwrapped and key in unwrapped:
            return unwrapped[key], 'nat'
        return f'L.{self.fname(key)}', self.types[key]

    def set(self, key, text):
        return f'let L := {{ L with {self.fname(key)} := {text} }}'

    # ---- expressions: returns (pre_lines, text, type)
    def expr(self, e, probe=False, uw=None):
        E = lambda x: self.expr(x, probe, uw)     # noqa: E731
        if isinstance(e, ast.Constant):
            if e.value is None:
                return [], 'none', 'none'
            if isinstance(e.value, bool):
                return [], ('true' if e.value else 'false'), 'bool'
            if isinstance(e.value, int):
                return [], str(e.value), 'int'
            if isinstance(e.value, float):
                return [], rat_lit(e.value), 'rat'
            raise Untranslatable(f'constant {e.value!r}')
        p = try_path(e) if isinstance(e, (ast.Name, ast.Attribute)) else None
        if p is not None:
            if p in CONSTS:
                return [], CONSTS[p], 'rat'
            if p in self.types:
                t, ty = self.get(p, uw)
                if ty == 'flag':
                    # a Flag in Boolean context: Flag.__bool__
                    return [], f'(Flag_bool {t}).2', 'bool'
                return [], t, ty
            if isinstance(e, ast.Attribute):
                base = try_path(e.value)
                key = ('attr', e.attr)
                if key in self.leaves and base in self.types:
                    prim, argty, ty = self.leaves[key]
                    bt, bty = self.get(base, uw)
                    if bty != argty:
                        raise Untranslatable(f'.{e.attr} of a {bty}')
                    return [], f'(P.{prim} {bt})', ty
            if probe:
                raise Untranslatable(p)
            raise Untranslatable(f'{self.name}: unknown name/path {p}')
        if isinstance(e, ast.UnaryOp):
            pre, t, ty = E(e.operand)
            if isinstance(e.op, ast.Not):
                if ty != 'bool':
                    raise Untranslatable(f'not of {ty}')
                return pre, f'(!{t})', 'bool'
            if isinstance(e.op, ast.USub):
                t, ty = self.to_rat(t, ty)
                return pre, f'(-{t})', 'rat'
        if isinstance(e, ast.BinOp):
            pa, a, ta = E(e.left)
            pb, b, tb = E(e.right)
            if pb:
                raise Untranslatable('effect in the right operand')
            op = {ast.Add: '+', ast.Sub: '-', ast.Mult: '*', ast.Div: '/', ast.Mod: '%'}.get(type(e.op))
            if op is None:
                raise Untranslatable(ast.dump(e.op))
            if op == '%' or (ta in ('nat', 'int') and tb in ('nat', 'int') and op in '+*'):
                if not (ta in ('nat', 'int') and tb in ('nat', 'int')):
                    raise Untranslatable('% on non-integers')
                return pa, f'({a} {op} {b})', 'nat'
            a, _ = self.to_rat(a, ta)
            b, _ = self.to_rat(b, tb)
            return pa, f'({a} {op} {b})', 'rat'
        if isinstance(e, ast.BoolOp):
            op = '&&' if isinstance(e.op, ast.And) else '||'
            parts, pre0 = [], []
            for i, v in enumerate(e.values):
                pre, t, ty = E(v)
                if ty != 'bool':
                    raise Untranslatable(f'{ty} in and/or')
                if pre and i > 0:
                    raise Untranslatable('effect behind a short-circuit operator')
                pre0 += pre
                parts.append(t)
            return pre0, '(' + f' {op} '.join(parts) + ')', 'bool'
        if isinstance(e, ast.Compare):
            items = [e.left] + list(e.comparators)
            out, pre0 = [], []
            for i, (op, x, y) in enumerate(zip(e.ops, items, items[1:])):
                pre, t, ty = self.compare(op, x, y, probe, uw)
                if pre and i > 0:
                    raise Untranslatable('effect in a comparison chain')
                pre0 += pre
                out.append(t)
            return pre0, (out[0] if len(out) == 1 else '(' + ' && '.join(out) + ')'), 'bool'
        if isinstance(e, ast.Subscript):
            return self.subscript(e, probe, uw)
        if isinstance(e, ast.Call):
            return self.call(e, probe, uw)
        if isinstance(e, ast.IfExp):
            raise Untranslatable('conditional expression')
        raise Untranslatable(f'{self.name}: expression {ast.dump(e)[:100]}')

    @staticmethod
    def to_rat(t, ty):
        if ty == 'rat':
            return t, 'rat'
        if ty in ('nat', 'int'):
            return f'({t} : Rat)', 'rat'
        raise Untranslatable(f'{ty} in arithmetic')

    def compare(self, op, x, y, probe, uw):
        E = lambda z: self.expr(z, probe, uw)     # noqa: E731
        if isinstance(op, (ast.Is, ast.IsNot)) and isinstance(y, ast.Constant) and y.value is None:
            px = try_path(x)
            if px in self.types and self.types[px] == 'optnat':
                t = f'L.{self.fname(px)}.isNone'
                return [], (t if isinstance(op, ast.Is) else f'(!{t})'), 'bool'
            hook = self.leaves.get(('isnone', px))
            if hook:
                return [], (hook if isinstance(op, ast.Is) else f'(!{hook})'), 'bool'
            raise Untranslatable(f'is None of {px}')
        if isinstance(op, (ast.In, ast.NotIn)):
            py = try_path(y)
            hook = self.leaves.get(('in', py))
            if hook is None:
                raise Untranslatable(f'membership in {py}')
            pre, t, ty = E(x)
            txt = hook(self, t, ty)
            return pre, (txt if isinstance(op, ast.In) else f'(!{txt})'), 'bool'
        pa, a, ta = E(x)
        pb, b, tb = E(y)
        if pb:
            raise Untranslatable('effect in the right operand')
        sym = {ast.Lt: '<', ast.LtE: '≤', ast.Gt: '>', ast.GtE: '≥', ast.Eq: '==', ast.NotEq: '!='}.get(type(op))
        if sym is None:
            raise Untranslatable(ast.dump(op))       # `is` / `is not` between two values, …
        if sym in ('==', '!='):
            for z in (x, y):
                for sub in ast.walk(z):
                    if isinstance(sub, ast.Name) and self.types.get(sub.id) == 'optnat':
                        # `None == 0` is False in Python, not a TypeError: refuse instead of unwrapping
                        raise Untranslatable(f'== / != on the optional local {sub.id}')
        if ta in ('nat', 'int') and tb in ('nat', 'int'):
            pass
        else:
            a, _ = self.to_rat(a, ta)
            b, _ = self.to_rat(b, tb)
        if sym in ('==', '!='):
            return pa, f'({a} {sym} {b})', 'bool'
        return pa, f'(decide ({a} {sym} {b}))', 'bool'

    def subscript(self, e, probe, uw):
        raise Untranslatable(f'subscript {ast.dump(e)[:80]}')

    def call(self, e, probe, uw):
        fp = try_path(e.func)
        # Flag methods on a local / self attribute
        if isinstance(e.func, ast.Attribute) and e.func.attr in FLAG_METHODS:
            base = try_path(e.func.value)
            if base in self.types and self.types[base] == 'flag':
                args = []
                for a in e.args:
                    pre, t, ty = self.expr(a, probe, uw)
                    if pre or ty != 'bool':
                        raise Untranslatable('Flag argument')
                    args.append(t)
                self.nj += 1
                r = f'r{self.nj}_'
                cur, _ = self.get(base)
                pre = [f"let {r} := Flag_{e.func.attr} {cur}{''.join(' ' + a for a in args)}",
                       self.set(base, f'{r}.1')]
                return pre, f'{r}.2', 'bool'
        if fp == 'Flag' and len(e.args) == 1 and not e.keywords:
            pre, t, ty = self.expr(e.args[0], probe, uw)
            if ty != 'bool' or pre:
                raise Untranslatable('Flag(…)')
            return [], f'(Flag_init {t}).1', 'flag'
        if fp == 'abs' and len(e.args) == 1:
            pre, t, ty = self.expr(e.args[0], probe, uw)
            t, _ = self.to_rat(t, ty)
            return pre, f'(ratAbs {t})', 'rat'
        if fp == 'len' and len(e.args) == 1:
            pre, t, ty = self.expr(e.args[0], probe, uw)
            if ty == 'tt':
                return pre, f'{t}.length', 'nat'
            hook = self.leaves.get(('len', ty))
            if hook:
                return pre, hook(t), 'nat'
        hook = self.leaves.get(('call', fp))
        if hook is not None:
            return hook(self, e, probe, uw)
        if isinstance(e.func, ast.Attribute):
            hook = self.leaves.get(('method', e.func.attr))
            if hook is not None:
                return hook(self, e, probe, uw)
        raise Untranslatable(f'{self.name}: call {fp or ast.dump(e.func)[:60]}')

    # ---- statements (continuation-passing)
    def is_log(self, s):
        if not (isinstance(s, ast.Expr) and isinstance(s.value, ast.Call) and
                (try_path(s.value.func) or '').startswith('self.log_')):
            return False
        # the call is ignored, but its arguments ARE evaluated: they must be effect-free and unable to raise
        # (names, attributes, constants, arithmetic/comparisons/conditional expressions of them); eager
        # `%`-formatting, f-strings with format specs and any call are refused
        for a in list(s.value.args) + [k.value for k in s.value.keywords]:
            if not self.harmless(a, top=True):
                raise Untranslatable(f'argument of an ignored logging call: {ast.unparse(a)[:60]}')
        return True

    def harmless(self, e, top=False):
        if isinstance(e, ast.Constant):
            return True
        if isinstance(e, (ast.Name, ast.Attribute)):
            return try_path(e) is not None
        if isinstance(e, ast.BinOp):
            if isinstance(e.op, ast.Mod) or not isinstance(e.op, (ast.Add, ast.Sub, ast.Mult)):
                return False            # `%` formats eagerly (and may raise), `/` may divide by zero
            if any(isinstance(x, ast.Constant) and isinstance(x.value, str) for x in (e.left, e.right)):
                return False
            return self.harmless(e.left) and self.harmless(e.right)
        if isinstance(e, ast.UnaryOp):
            return self.harmless(e.operand)
        if isinstance(e, ast.Compare):
            return all(isinstance(o, (ast.Lt, ast.LtE, ast.Gt, ast.GtE, ast.Eq, ast.NotEq)) for o in e.ops) and \
                all(self.harmless(x) for x in [e.left] + list(e.comparators))
        if isinstance(e, ast.IfExp):
            return self.harmless(e.test) and self.harmless(e.body) and self.harmless(e.orelse)
        return False

    def is_noop(self, s):
        if self.is_log(s) or isinstance(s, ast.Pass):
            return True
        if isinstance(s, ast.Expr) and isinstance(s.value, ast.Constant):
            return True
        if isinstance(s, ast.Assert):
            t = s.test
            return isinstance(t, ast.Call) and try_path(t.func) == 'hasattr' and len(t.args) == 2 and \
                isinstance(t.args[1], ast.Constant) and t.args[1].value == 'recalc'
        if isinstance(s, ast.If) and all(self.is_noop(x) for x in s.body) and all(self.is_noop(x) for x in s.orelse):
            return self.pure(s.test)
        return False

    def pure(self, e):
        for n in ast.walk(e):
            if isinstance(n, ast.Await):
                return False
            if isinstance(n, ast.Call):
                fp = try_path(n.func) or ''
                if fp not in ('abs',) and not fp.endswith('.isoweekday'):
                    return False
        return True

    def falls_through(self, stmts):
        for s in stmts:
            if isinstance(s, (ast.Return, ast.Raise, ast.Continue, ast.Break)):
                return False
            if isinstance(s, ast.If) and s.orelse and not self.falls_through(s.body) and not self.falls_through(s.orelse):
                return False
            if isinstance(s, ast.Try) and s.orelse and not self.falls_through(s.orelse) and \
                    all(not self.falls_through(h.body) for h in s.handlers):
                return False
        return True

    def args_lw(self):
        return 'L w' if self.world else 'L'

    def fun_lw(self):
        return 'fun L w =>' if self.world else 'fun L =>'

    def unwrap(self, node_list, inner):
        """optional locals used as numbers in these nodes: `match L.x with | none => TypeError | some x_v => …`"""
        need = []
        for n in node_list:
            guarded = set()
            for b in ast.walk(n):
                if isinstance(b, ast.BoolOp):
                    for v in b.values[1:]:
                        guarded.update(id(x) for x in ast.walk(v))
                elif isinstance(b, ast.IfExp):
                    for v in (b.body, b.orelse):
                        guarded.update(id(x) for x in ast.walk(v))
            for sub in ast.walk(n):
                if isinstance(sub, ast.Name) and self.types.get(sub.id) == 'optnat' and isinstance(sub.ctx, ast.Load):
                    if not self.in_none_test(n, sub) and sub.id not in need:
                        if id(sub) in guarded:
                            # evaluated only when the operands before it allow: unwrapping it up front would raise
                            # a TypeError that Python never raises
                            raise Untranslatable(f'optional local {sub.id} used behind a short-circuit operator')
                        need.append(sub.id)
        uw = {nm: fld(nm) + '_v' for nm in need}
        lines = inner(uw)
        for nm in reversed(need):
            lines = [f'match L.{self.fname(nm)} with', f'| none => .raise .typeError {self.args_lw()}',
                     f'| some {uw[nm]} =>'] + ind(lines)
        return lines

    @staticmethod
    def in_none_test(root, name_node):
        for n in ast.walk(root):
            if isinstance(n, ast.Compare) and n.left is name_node and len(n.ops) == 1 and \
                    isinstance(n.ops[0], (ast.Is, ast.IsNot)):
                return True
        return False

    def stmts(self, body, k, ctx):
        """Lean lines for the statement list followed by continuation `k` (a function returning lines)"""
        body = [s for s in body if not self.is_noop(s)]
        if not body:
            return k()
        s, rest = body[0], body[1:]
        K = lambda: self.stmts(rest, k, ctx)      # noqa: E731
        hook = self.leaves.get('stmt')
        if hook is not None:
            r = hook(self, s, rest, k, ctx)
            if r is not None:
                return r
        if isinstance(s, ast.Return):
            if s.value is not None:
                raise Untranslatable('return with a value')
            return ctx['ret']()
        if isinstance(s, ast.Continue):
            return ctx['cont']()
        if isinstance(s, ast.Break):
            return ctx['brk']()
        if isinstance(s, ast.Raise):
            exc = s.exc.func if isinstance(s.exc, ast.Call) else s.exc
            nm = try_path(exc)
            tag = {'TypeError': 'typeError', 'ValueError': 'valueError'}.get(nm)
            if tag is None:
                raise Untranslatable(f'raise {nm}')
            return [self.res_raise(tag)]
        if isinstance(s, ast.Assign) and len(s.targets) == 1 and isinstance(s.targets[0], ast.Name):
            nm = s.targets[0].id
            if self.is_alias_value(s.value):
                dpath = try_path(s.value.value)

                def inner(uw):
                    pre, key, kty = self.expr(s.value.slice, uw=uw)
                    if pre:
                        raise Untranslatable('effect in an alias key')
                    self.aliases[nm] = (dpath, key)
                    return K()
                return self.unwrap([s.value], inner)

            def inner(uw):
                pre, t, ty = self.expr(s.value, uw=uw)
                if ty == 'none':
                    t = 'none'
                elif self.types.get(nm) == 'optnat':
                    t = f'some {t}'
                elif ty == 'int':
                    t = self.int_as(t, self.types.get(nm))
                return pre + [self.set(nm, t)] + K()
            return self.unwrap([s.value], inner)
        if isinstance(s, ast.AugAssign) and isinstance(s.target, ast.Name):
            nm = s.target.id
            op = {ast.Add: '+', ast.Sub: '-'}.get(type(s.op))
            if op is None or self.types.get(nm) != 'rat':
                raise Untranslatable('augmented assignment')
            pre, t, ty = self.expr(s.value)
            t, _ = self.to_rat(t, ty)
            return pre + [self.set(nm, f'L.{self.fname(nm)} {op} {t}')] + K()
        if isinstance(s, ast.If):
            def inner(uw):
                pre, t, ty = self.expr(s.test, uw=uw)
                if ty != 'bool':
                    raise Untranslatable(f'if on a {ty}')
                lines = list(pre)
                through = self.falls_through(s.body) or self.falls_through(s.orelse) or not s.orelse
                if rest and through:
                    kk = self.join(K)
                else:
                    kk = k if not rest else K
                lines += [f'if {t} then'] + ind(self.stmts(s.body, kk, ctx)) + ['else'] + \
                    ind(self.stmts(s.orelse, kk, ctx))
                return lines
            return self.unwrap([s.test], inner)
        raise Untranslatable(f'{self.name}: statement {ast.dump(s)[:100]}')

    def join(self, K):
        """the code after an `if`/`try` that can be reached from several branches: a definition of its own"""
        self.njoin = getattr(self, 'njoin', 0) + 1
        j = f'{self.name}_j{self.njoin}'
        body = K()
        conts = getattr(self, 'conts', [])
        cp = f" ({' '.join(conts)} : {self.cont_ty()})" if conts else ''
        wp = ' (w : σ)' if self.world else ''
        self.aux.append([f'/-- `{self.name}`: join point (the code after a statement whose branches meet again) -/',
                         f"def {j} {self.leaves['sig']}{cp} (L : {self.recf()}){wp} : {self.res_ty} :="] + ind(body) + [''])
        call = f"{j} P{''.join(' ' + c for c in conts)} {self.args_lw()}"
        return lambda: [call]

    @staticmethod
    def int_as(t, ty):
        return f'({t} : Rat)' if ty == 'rat' else t

    def cont_ty(self):
        return f'{self.recf()} → σ → {self.res_ty}' if self.world else f'{self.recf()} → {self.res_ty}'

    def res_raise(self, tag):
        return f'.raise .{tag} {self.args_lw()}' if self.world else f'.error .{tag}'

    def structure(self, doc):
        lines = [f'/-- {doc} -/', f'structure {self.rec()} ({self.tparams()}) where']
        for key in self.order:
            lines.append(f'  {self.fname(key)} : {LEAN_TY[self.types[key]]}' + (f'    -- `{key}`' if getattr(self, 'canonical', False) else ''))
        return lines

    def tparams(self):
        return self.leaves['tparams']


# ------------------------------------------------------------------------------------------------ part (a)

def in_alarms(fn, t, ty):
    return f'(P.has L.alarms {t})'


def in_set24(fn, t, ty):
    return f'(P.hourly {t})'


def tab_stmt(fn, s, rest, k, ctx):
    """statements that edit the table `self._alarms` (or a set of it through an alias)"""
    K = lambda: fn.stmts(rest, k, ctx)      # noqa: E731

    def target(node):
        """`self._alarms[key]` or an alias of it -> key text"""
        if isinstance(node, ast.Subscript) and try_path(node.value) == 'self._alarms':
            pre, key, _ = fn.expr(node.slice)
            if pre:
                raise Untranslatable('effect in a key')
            return key
        if isinstance(node, ast.Name) and node.id in fn.aliases:
            return fn.aliases[node.id][1]
        return None
    if isinstance(s, ast.Expr) and isinstance(s.value, ast.Call) and isinstance(s.value.func, ast.Attribute):
        c = s.value
        key = target(c.func.value)
        if key is not None and c.func.attr in ('add', 'discard') and len(c.args) == 1:
            pre, b, ty = fn.expr(c.args[0])
            if ty != 'B' or pre:
                raise Untranslatable('set element')
            op = {'add': 'sAdd', 'discard': 'sDiscard'}[c.func.attr]
            return [fn.set('self._alarms', f'P.put L.alarms {key} (P.{op} (P.get L.alarms {key}) {b})')] + K()
        if try_path(c.func) == 'self._needs_reload.OR' or (
                isinstance(c.func, ast.Attribute) and c.func.attr in FLAG_METHODS):
            pre, _t, _ty = fn.expr(c)
            return pre + K()
        if try_path(c.func) == 'self._queue.put_nowait':
            return [fn.set('wake', 'true')] + K()
    if isinstance(s, ast.Assign) and len(s.targets) == 1:
        key = target(s.targets[0]) if isinstance(s.targets[0], ast.Subscript) else None
        if key is not None and isinstance(s.value, ast.Set) and len(s.value.elts) == 1:
            pre, b, ty = fn.expr(s.value.elts[0])
            if ty != 'B' or pre:
                raise Untranslatable('set element')
            return [fn.set('self._alarms', f'P.put L.alarms {key} (P.single {b})')] + K()
        if isinstance(s.targets[0], ast.Name) and isinstance(s.value, ast.Call) and \
                try_path(s.value.func) == 'self._check_tz' and len(s.value.args) == 1:
            pre, a, ty = fn.expr(s.value.args[0])
            if ty != 'T' or pre:
                raise Untranslatable('_check_tz argument')
            nm = s.targets[0].id
            fn.declare(nm, 'T')
            return [f'match P.checkTz {a} with', '| .error e => .error e', '| .ok t_ =>'] + \
                ind([fn.set(nm, 't_')] + K())
    if isinstance(s, ast.Delete) and len(s.targets) == 1:
        key = target(s.targets[0])
        if key is not None:
            return [fn.set('self._alarms', f'P.del L.alarms {key}')] + K()
    return None


def tab_not_set(fn, e, probe, uw):
    raise Untranslatable('n/a')


class TabFn(Fn):
    def stmts(self, body, k, ctx):
        """a statement that reads `self._alarms[key]` (or deletes it) raises KeyError without the key: guard it"""
        live = [s for s in body if not self.is_noop(s)]
        if live and not getattr(live[0], '_guarded', False):
            s = live[0]
            roots = [s.test] if isinstance(s, ast.If) else [s]
            keys = []
            for r in roots:
                for sub in ast.walk(r):
                    if isinstance(sub, ast.Subscript) and try_path(sub.value) == 'self._alarms' and \
                            isinstance(sub.ctx, (ast.Load, ast.Del)):
                        pre, key, _ = self.expr(sub.slice)
                        if pre:
                            raise Untranslatable('effect in a key')
                        if key not in keys:
                            keys.append(key)
            if keys:
                s._guarded = True
                lines = Fn.stmts(self, live, k, ctx)
                for key in reversed(keys):
                    lines = [f'if !(P.has L.alarms {key}) then', '  .error .keyError', 'else'] + ind(lines)
                return lines
        return Fn.stmts(self, body, k, ctx)

    def expr(self, e, probe=False, uw=None):
        # `not self._alarms[k]` / `not alias`, `len(alias)`, `hasattr(blk, 'recalc')`, `self._mtask is not None`
        if isinstance(e, ast.UnaryOp) and isinstance(e.op, ast.Not):
            key = self.set_key(e.operand)
            if key is not None:
                return [], f'(P.sEmpty (P.get L.alarms {key}))', 'bool'
        if isinstance(e, ast.Call) and try_path(e.func) == 'len' and len(e.args) == 1:
            key = self.set_key(e.args[0])
            if key is not None:
                return [], f'(P.sLen (P.get L.alarms {key}))', 'nat'
        if isinstance(e, ast.Call) and try_path(e.func) == 'hasattr' and len(e.args) == 2 and \
                isinstance(e.args[1], ast.Constant) and e.args[1].value == 'recalc':
            pre, b, ty = self.expr(e.args[0])
            if ty != 'B':
                raise Untranslatable('hasattr of a non-block')
            return pre, f'(P.compatible {b})', 'bool'
        return super().expr(e, probe, uw)

    def set_key(self, node):
        if isinstance(node, ast.Subscript) and try_path(node.value) == 'self._alarms':
            pre, key, _ = self.expr(node.slice)
            return key
        if isinstance(node, ast.Name) and node.id in self.aliases:
            return self.aliases[node.id][1]
        return None


TAB_LEAVES = {'tparams': 'D T B : Type', 'sig': '{D S T B : Type} (P : TabPrims D S T B)', 'dicts': ('self._alarms',), 'stmt': tab_stmt,
              ('in', 'self._alarms'): in_alarms, ('in', '_SET24'): in_set24,
              ('isnone', 'self._mtask'): '(!L.running)'}

TAB_HEADER = '''/-- exceptions of `add_block` / `remove_block` -/
inductive Exc where
  | typeError
  | valueError
  | keyError          -- `self._alarms[k]` / `del self._alarms[k]` without the key
  deriving Repr, DecidableEq

/-- the primitives of the alarm table: `D` = the dict `self._alarms`, `S` = a set of blocks, `T` = datetime.time,
    `B` = blocks.  `d[k].add(b)` is `put d k (sAdd (get d k) b)` (the sets of different keys are distinct objects:
    each is created by `{blk}`), `k in d` = `has`, `del d[k]` = `del`, `not d[k]` = `sEmpty (get d k)`,
    `t in _SET24` = `hourly t`, `self._check_tz(t)` = `checkTz t`, `hasattr(blk, 'recalc')` = `compatible blk` -/
structure TabPrims (D S T B : Type) where
  has : D → T → Bool
  get : D → T → S
  put : D → T → S → D
  del : D → T → D
  single : B → S
  sAdd : S → B → S
  sDiscard : S → B → S
  sEmpty : S → Bool
  sLen : S → Nat
  hourly : T → Bool
  checkTz : T → Except Exc T
  compatible : B → Bool
'''


def translate_tab(cron_cls, method):
    node = ast.parse(textwrap.dedent(inspect.getsource(getattr(cron_cls, method)))).body[0]
    check_plain_function(node, f'Cron.{method}')
    if node.args.defaults or isinstance(node, ast.AsyncFunctionDef):
        raise Untranslatable(f'Cron.{method}: default values / async')
    want = [] if method == 'reload' else ['time_of_day', 'blk']
    if [a.arg for a in node.args.args[1:]] != want:
        raise Untranslatable(f'Cron.{method}: parameters {[a.arg for a in node.args.args]}')
    params = {a.arg: {'time_of_day': 'T', 'blk': 'B'}[a.arg] for a in node.args.args[1:]}
    selff = {'self._alarms': 'D', 'self._needs_reload': 'flag'}
    extra = {}
    if method == 'reload':
        selff = {'self._needs_reload': 'flag'}
        extra = {'running': 'bool', 'wake': 'bool'}
    name = {'add_block': 'addBlock', 'remove_block': 'removeBlock', 'reload': 'reload'}[method]
    fn = TabFn(name, node, selff, params, TAB_LEAVES, f'Except Exc ({name[0].upper() + name[1:]}Locals D T B)',
               extra_types=extra)
    if method == 'reload':
        fn.res_ty = 'Except Exc ReloadLocals'
        fn.no_targs = True
    fn.prescan(node.body)
    done = lambda: ['.ok L']      # noqa: E731
    body = fn.stmts(node.body, done, {'ret': done})
    tp = 'D S T B' if method != 'reload' else ''
    lines = []
    if method == 'reload':
        lines += ['/-- locals of `Cron.reload`: `running` = `self._mtask is not None`, `wake` = an item was put into the queue -/',
                  'structure ReloadLocals where'] + [f'  {fld(k)} : {LEAN_TY[fn.types[k]]}' for k in fn.order]
        sig = f'def {name} (L : ReloadLocals) : Except Exc ReloadLocals :='
    else:
        lines += fn.structure(f'`self` attributes, parameters and locals of `Cron.{method}`')
        sig = (f'def {name} {{D S T B : Type}} (P : TabPrims D S T B) (L : {fn.rec()} D T B) :\n'
               f'    Except Exc ({fn.rec()} D T B) :=')
    lines += ['']
    for a in fn.aux:
        lines += a
    lines += [f'/-- translated from `blocklib.cron.Cron.{method}` -/', sig] + ind(body) + ['']
    return lines


# ------------------------------------------------------------------------------------------------ part (b)

MT_HEADER = '''/-- exceptions leaving `_maintask` -/
inductive MExc where
  | typeError         -- `None` used as a number
  | indexError        -- `timetable[index]` out of range
  deriving Repr, DecidableEq

/-- the primitives of `_maintask`: `σ` = the state of the world (alarm table, clock, everything `recalc` touches),
    `T` = datetime.time, `DT` = datetime.datetime, `B` = blocks.
      self.dtnow()                               dtnow w : DT × σ         (reading the clock takes time)
      X.time()                                   timeOf X
      sorted(_SET24.union(self._alarms))         sortedUnion set24 (alarmKeys w)
      bisect.bisect_left(tt, t)                  bisectLeft tt t
      set().union(*self._alarms.values())        allClients w : an enumeration of the set, computed from w
      wakeup in self._alarms                     hasAlarm w wakeup
      list(self._alarms[wakeup])                 clientsAt w wakeup : a snapshot, computed from w
      blk.recalc(X)                              recalc blk X w : σ       (may do anything, incl. add/remove blocks)
      t.hour / .minute / .second / .microsecond  hour t … (as rationals)
      time.sleep(d)                              blockingSleep d w -/
structure MtPrims (σ T DT B : Type) where
  dtnow : σ → DT × σ
  timeOf : DT → T
  set24 : List T
  alarmKeys : σ → List T
  sortedUnion : List T → List T → List T
  bisectLeft : List T → T → Nat
  allClients : σ → List B
  hasAlarm : σ → T → Bool
  clientsAt : σ → T → List B
  recalc : B → DT → σ → σ
  hour : T → Rat
  minute : T → Rat
  second : T → Rat
  microsecond : T → Rat
  blockingSleep : Rat → σ → σ

/-- how one pass through the body of `while True:` ends -/
inductive Res (L σ : Type) where
  | next (l : L) (w : σ)                                -- end of the body or `continue`
  | sleep (d : Rat) (w : σ) (k : σ → Res L σ)                   -- `await asyncio.sleep(d)` entered in world `w`
  | waitQueue (timeout : Rat) (w : σ) (k : Bool → σ → Res L σ)  -- `await asyncio.wait_for(self._queue.get(), timeout)` entered in `w`
  | raise (e : MExc) (l : L) (w : σ)
'''


def mt_call_dtnow(fn, e, probe, uw):
    if e.args:
        raise Untranslatable('dtnow(…)')
    fn.nj += 1
    r = f'r{fn.nj}_'
    return [f'let {r} := P.dtnow w', f'let w := {r}.2'], f'{r}.1', 'DT'


def mt_method_time(fn, e, probe, uw):
    pre, t, ty = fn.expr(e.func.value, probe, uw)
    if ty != 'DT' or e.args:
        raise Untranslatable('.time() of a non-datetime')
    return pre, f'(P.timeOf {t})', 'T'


def mt_call_sorted(fn, e, probe, uw):
    a = e.args[0] if len(e.args) == 1 else None
    if isinstance(a, ast.Call) and try_path(a.func) == '_SET24.union' and len(a.args) == 1 and \
            try_path(a.args[0]) == 'self._alarms':
        return [], '(P.sortedUnion P.set24 (P.alarmKeys w))', 'tt'
    raise Untranslatable('sorted(…)')


def mt_call_bisect(fn, e, probe, uw):
    if len(e.args) != 2:
        raise Untranslatable('bisect_left')
    pa, a, ta = fn.expr(e.args[0], probe, uw)
    pb, b, tb = fn.expr(e.args[1], probe, uw)
    if (ta, tb) != ('tt', 'T') or pa or pb:
        raise Untranslatable('bisect_left arguments')
    return [], f'(P.bisectLeft {a} {b})', 'nat'


def mt_in_alarms(fn, t, ty):
    if ty != 'T':
        raise Untranslatable('key type')
    return f'(P.hasAlarm w {t})'


def timeout_class(p):
    """is the name the exception `asyncio.wait_for` raises on a timeout?  (`TimeoutError` only where it is the
    same class, Python >= 3.11)"""
    import asyncio
    if p == 'asyncio.TimeoutError':
        return True
    return p == 'TimeoutError' and asyncio.TimeoutError is TimeoutError


def block_iter(fn, it):
    """the iterable of a recalc loop -> an enumeration computed from the CURRENT world"""
    if isinstance(it, ast.Call) and isinstance(it.func, ast.Attribute) and it.func.attr == 'union' and \
            isinstance(it.func.value, ast.Call) and try_path(it.func.value.func) == 'set' and \
            not it.func.value.args and len(it.args) == 1 and isinstance(it.args[0], ast.Starred) and \
            isinstance(it.args[0].value, ast.Call) and try_path(it.args[0].value.func) == 'self._alarms.values':
        return '(P.allClients w)'
    if isinstance(it, ast.Call) and try_path(it.func) == 'list' and len(it.args) == 1 and \
            isinstance(it.args[0], ast.Subscript) and try_path(it.args[0].value) == 'self._alarms':
        pre, key, ty = fn.expr(it.args[0].slice)
        if pre or ty != 'T':
            raise Untranslatable('key of the alarm table')
        return f'(P.clientsAt w {key})'
    raise Untranslatable(f'iteration over {ast.dump(it)[:80]} (only a fresh set / a list copy of the registered blocks)')


def mt_stmt(fn, s, rest, k, ctx):
    K = lambda: fn.stmts(rest, k, ctx)      # noqa: E731
    if isinstance(s, ast.Subscript):
        return None
    # wakeup = timetable[index]
    if isinstance(s, ast.Assign) and len(s.targets) == 1 and isinstance(s.targets[0], ast.Name) and \
            isinstance(s.value, ast.Subscript) and fn.types.get(try_path(s.value.value)) == 'tt':
        nm = s.targets[0].id

        def inner(uw):
            pre, i, ty = fn.expr(s.value.slice, uw=uw)
            if pre or ty not in ('nat', 'int'):
                raise Untranslatable('list index')
            tt, _ = fn.get(try_path(s.value.value))
            return [f'match {tt}[{i}]? with', f'| none => .raise .indexError L w', '| some x_ =>'] + \
                ind([fn.set(nm, 'x_')] + K())
        return fn.unwrap([s.value.slice], inner)
    # for blk in <registered blocks>: blk.recalc(X)
    if isinstance(s, ast.For) and isinstance(s.target, ast.Name) and not fn.is_range(s.iter):
        if s.orelse:
            raise Untranslatable('for … else')
        it = block_iter(fn, s.iter)
        var = s.target.id
        body = [x for x in s.body if not fn.is_noop(x)]
        steps = []
        for x in body:
            c = x.value if isinstance(x, ast.Expr) else None
            if isinstance(c, ast.Call) and try_path(c.func) == f'{var}.recalc' and len(c.args) == 1:
                pre, a, ty = fn.expr(c.args[0])
                if pre or ty != 'DT':
                    raise Untranslatable('recalc argument')
                steps.append(f'P.recalc {fld(var)} {a} w')
            else:
                raise Untranslatable(f'statement in a loop over blocks: {ast.dump(x)[:80]}')
        if len(steps) != 1:
            raise Untranslatable('a loop over blocks must call recalc exactly once')
        return [f'let w := {it}.foldl (fun w {fld(var)} => {steps[0]}) w'] + K()
    # for step in range(n): …
    if isinstance(s, ast.For) and fn.is_range(s.iter):
        if s.orelse:
            raise Untranslatable('for … else')
        fn.nfor += 1
        n = fn.nfor
        var = s.target.id
        after = f'{fn.name}After{n}'
        bodyf = f'{fn.name}For{n}Body'
        loopf = f'{fn.name}For{n}'
        sig = fn.leaves['sig']
        after_lines = fn.stmts(rest, k, ctx)
        fn.aux.append([f'/-- `{fn.name}`: the statements after loop #{n} (`for {var} in range({s.iter.args[0].value})`) -/',
                       f'def {after} {sig} (L : {fn.rec()} T DT) (w : σ) : {fn.res_ty} :='] + ind(after_lines) + [''])
        inner_ctx = dict(ctx, brk=lambda: ['brk L w'], cont=lambda: ['next L w'])
        fn.conts = ['next', 'brk']
        body_lines = fn.stmts(s.body, lambda: ['next L w'], inner_ctx)
        fn.conts = []
        fn.aux.append([f'/-- `{fn.name}`: the body of loop #{n}; `next` = go on with the next value of `{var}`, `brk` = `break` -/',
                       f'def {bodyf} {sig} (next brk : {fn.cont_ty()}) (L : {fn.rec()} T DT) (w : σ) : {fn.res_ty} :='] +
                      ind(body_lines) + [''])
        fn.aux.append([f'/-- `{fn.name}`: loop #{n} over the remaining values of `{var}` -/',
                       f'def {loopf} {sig} : List Nat → {fn.cont_ty()}',
                       f'  | [], L, w => {after} P L w',
                       f'  | x_ :: rest_, L, w =>',
                       f'    {bodyf} P (fun L w => {loopf} P rest_ L w) ({after} P) {{ L with {fn.fname(var)} := x_ }} w', ''])
        return [f'{loopf} P (List.range {s.iter.args[0].value}) L w']
    # time.sleep(X)
    if isinstance(s, ast.Expr) and isinstance(s.value, ast.Call) and try_path(s.value.func) == 'time.sleep':
        pre, a, ty = fn.expr(s.value.args[0])
        a, _ = fn.to_rat(a, ty)
        return pre + [f'let w := P.blockingSleep {a} w'] + K()
    # await asyncio.sleep(X)
    if isinstance(s, ast.Expr) and isinstance(s.value, ast.Await):
        c = s.value.value
        if isinstance(c, ast.Call) and try_path(c.func) == 'asyncio.sleep' and len(c.args) == 1:
            pre, a, ty = fn.expr(c.args[0])
            a, _ = fn.to_rat(a, ty)
            return pre + [f'.sleep {a} w (fun w =>'] + ind(K()) + [')']
        raise Untranslatable('await of something else than asyncio.sleep')
    # try: await asyncio.wait_for(self._queue.get(), X)  except asyncio.TimeoutError: …  else: …
    if isinstance(s, ast.Try):
        ok = (len(s.body) == 1 and isinstance(s.body[0], ast.Expr) and isinstance(s.body[0].value, ast.Await)
              and len(s.handlers) == 1 and not s.finalbody
              and s.handlers[0].name is None and timeout_class(try_path(s.handlers[0].type)))
        c = s.body[0].value.value if ok else None
        ok = ok and isinstance(c, ast.Call) and try_path(c.func) == 'asyncio.wait_for' and len(c.args) == 2 and \
            isinstance(c.args[0], ast.Call) and try_path(c.args[0].func) == 'self._queue.get' and not c.args[0].args
        if not ok:
            raise Untranslatable('try statement of another shape than the queue wait')
        pre, a, ty = fn.expr(c.args[1])
        a, _ = fn.to_rat(a, ty)
        lines = list(pre)
        if rest and (fn.falls_through(s.orelse) or fn.falls_through(s.handlers[0].body)):
            kk = fn.join(K)
        else:
            kk = K
        lines += [f'.waitQueue {a} w (fun got_ w =>', '  if got_ then'] + ind(fn.stmts(s.orelse, kk, ctx), 4) + \
            ['  else'] + ind(fn.stmts(s.handlers[0].body, kk, ctx), 4) + [')']
        return lines
    # reload.set()  and other Flag calls as statements
    if isinstance(s, ast.Expr) and isinstance(s.value, ast.Call) and isinstance(s.value.func, ast.Attribute) and \
            s.value.func.attr in FLAG_METHODS:
        pre, _t, _ty = fn.expr(s.value)
        return pre + K()
    return None


MT_LEAVES = {'tparams': 'T DT : Type', 'stmt': mt_stmt,
             'sig': '{σ T DT B : Type} (P : MtPrims σ T DT B)',
             ('call', 'self.dtnow'): mt_call_dtnow, ('method', 'time'): mt_method_time,
             ('call', 'sorted'): mt_call_sorted, ('call', 'bisect.bisect_left'): mt_call_bisect,
             ('in', 'self._alarms'): mt_in_alarms,
             ('attr', 'hour'): ('hour', 'T', 'rat'), ('attr', 'minute'): ('minute', 'T', 'rat'),
             ('attr', 'second'): ('second', 'T', 'rat'), ('attr', 'microsecond'): ('microsecond', 'T', 'rat')}


def translate_maintask(cron_cls):
    node = ast.parse(textwrap.dedent(inspect.getsource(cron_cls._maintask))).body[0]
    check_plain_function(node, 'Cron._maintask')
    if not isinstance(node, ast.AsyncFunctionDef) or [a.arg for a in node.args.args] != ['self']:
        raise Untranslatable('Cron._maintask: not `async def _maintask(self)`')
    body = [s for s in node.body if not (isinstance(s, ast.Expr) and isinstance(s.value, ast.Constant))]
    if not (isinstance(body[-1], ast.While) and isinstance(body[-1].test, ast.Constant) and body[-1].test.value is True
            and not body[-1].orelse):
        raise Untranslatable('_maintask does not end with `while True:`')
    loop = body[-1]
    fn = Fn('mt', node, {}, {}, MT_LEAVES, 'Res (MtLocals T DT) σ', world=True)
    fn.canonical = True
    for _ in range(3):          # the types of later assignments depend on earlier ones
        fn.prescan(body)
    init_stmts = body[:-1]
    # init: straight-line assignments
    init = {}
    for s in init_stmts:
        if not (isinstance(s, ast.Assign) and len(s.targets) == 1 and isinstance(s.targets[0], ast.Name)):
            raise Untranslatable('statement before the loop')
        pre, t, ty = fn.expr(s.value)
        if pre:
            raise Untranslatable('effect before the loop')
        init[s.targets[0].id] = fn.int_as(t, fn.types[s.targets[0].id]) if ty == 'int' else t
    end = lambda: ['.next L w']      # noqa: E731
    step = fn.stmts(loop.body, end, {'cont': end, 'ret': None, 'brk': None})
    lines = fn.structure('the locals of `Cron._maintask`, one field each (a local that is not assigned yet holds a default)')
    lines += ['']
    sig = MT_LEAVES['sig']
    fields = []
    for key in fn.order:
        val = init.get(key)
        if val is None:
            d = DEFAULT[fn.types[key]]
            val = d
        fields.append(f'{fn.fname(key)} := {val}')
    lines += ['/-- translated from `blocklib.cron.Cron._maintask`: the statements before `while True:` -/',
              f'def mtInit {{T DT : Type}} [Inhabited T] [Inhabited DT] : MtLocals T DT :=',
              '  { ' + ',\n    '.join(fields) + ' }', '']
    for a in fn.aux:
        lines += a
    lines += ['/-- translated from `blocklib.cron.Cron._maintask`: ONE pass through the body of `while True:` up to the',
              '    `for step in range(…)` loop (`mtFor1`), which goes on with `mtAfter1` -/',
              f'def mtStep {sig} (L : MtLocals T DT) (w : σ) : Res (MtLocals T DT) σ :='] + ind(step) + ['']
    return lines


# ------------------------------------------------------------------------------------------------ part (c)

def translate_recalc(td_cls, ts_cls):
    """the Boolean handed to set_output"""
    out = []

    def only_stmt(fn_node):
        body = [s for s in fn_node.body if not (isinstance(s, ast.Expr) and isinstance(s.value, ast.Constant))]
        if len(body) != 1:
            raise Untranslatable('more than one statement')
        return body[0]

    def atom(e):
        """leaves of TimeDate.recalc"""
        if isinstance(e, ast.Compare) and len(e.ops) == 1:
            op, x, y = e.ops[0], e.left, e.comparators[0]
            px, py = try_path(x), try_path(y)
            if isinstance(op, (ast.Is, ast.IsNot)) and isinstance(y, ast.Constant) and y.value is None and \
                    px in ('self._times', 'self._dates', 'self._weekdays', 'cfg'):
                f = {'self._times': 'times', 'self._dates': 'dates', 'self._weekdays': 'weekdays'}.get(px)
                t = f'P.{f}IsNone c' if f else 'cfg'
                return t if isinstance(op, ast.Is) else f'(!{t})'
            if isinstance(op, ast.In):
                if py == 'self._times' and isinstance(x, ast.Call) and try_path(x.func) == 'now.time' and not x.args:
                    return '(P.inTimes c (P.timeOf now))'
                if py == 'self._dates' and isinstance(x, ast.Call) and try_path(x.func) == 'ti.convert_date_seq' and \
                        len(x.args) == 1 and isinstance(x.args[0], ast.List) and \
                        [try_path(z) for z in x.args[0].elts] == ['now.month', 'now.day']:
                    return '(P.inDates c (P.month now) (P.day now))'
                if py == 'self._weekdays' and isinstance(x, ast.Call) and try_path(x.func) == 'now.isoweekday' \
                        and not x.args:
                    return '(P.inWeekdays c (P.isoweekday now))'
                if py == 'self._span' and px == 'now':
                    return '(P.inSpan c now)'
        if isinstance(e, ast.Call) and try_path(e.func) == 'self._is_configured' and not e.args:
            return '(tdIsConfigured P c)'
        if isinstance(e, ast.BoolOp):
            op = ' && ' if isinstance(e.op, ast.And) else ' || '
            return '(' + op.join(atom(v) for v in e.values) + ')'
        if isinstance(e, ast.UnaryOp) and isinstance(e.op, ast.Not):
            return f'(!{atom(e.operand)})'
        raise Untranslatable(f'recalc: {ast.dump(e)[:100]}')

    # _is_configured: any(cfg is not None for cfg in (a, b, c))
    node = ast.parse(textwrap.dedent(inspect.getsource(td_cls._is_configured))).body[0]
    check_plain_function(node, 'TimeDate._is_configured')
    if [a.arg for a in node.args.args] != ['self']:
        raise Untranslatable('_is_configured signature')
    r = only_stmt(node)
    if not (isinstance(r, ast.Return) and isinstance(r.value, ast.Call) and try_path(r.value.func) in ('any', 'all')
            and len(r.value.args) == 1 and isinstance(r.value.args[0], ast.GeneratorExp)):
        raise Untranslatable('_is_configured')
    g = r.value.args[0]
    gen = g.generators[0]
    if len(g.generators) != 1 or gen.ifs or not isinstance(gen.iter, ast.Tuple) or not isinstance(gen.target, ast.Name):
        raise Untranslatable('_is_configured generator')
    var = gen.target.id
    items = []
    for el in gen.iter.elts:
        sub = ast.parse(ast.unparse(g.elt)).body[0].value

        class R(ast.NodeTransformer):
            def visit_Name(self, n):
                return el if n.id == var else n
        items.append(atom(R().visit(sub)))
    join = ' || ' if try_path(r.value.func) == 'any' else ' && '
    out += ['/-- translated from `blocklib.timedate.TimeDate._is_configured` -/',
            'def tdIsConfigured {C DT T : Type} (P : TdPrims C DT T) (c : C) : Bool :=',
            '  (' + join.join(items) + ')', '']
    for cls, nm, doc in ((td_cls, 'tdRecalc', 'TimeDate'), (ts_cls, 'tsRecalc', 'TimeSpan')):
        node = ast.parse(textwrap.dedent(inspect.getsource(cls.recalc))).body[0]
        check_plain_function(node, f'{doc}.recalc')
        if [a.arg for a in node.args.args] != ['self', 'now'] or node.args.defaults:
            raise Untranslatable('recalc signature')
        s = only_stmt(node)
        if not (isinstance(s, ast.Expr) and isinstance(s.value, ast.Call) and try_path(s.value.func) == 'self.set_output'
                and len(s.value.args) == 1):
            raise Untranslatable('recalc is not a single set_output call')
        out += [f'/-- translated from `blocklib.timedate.{doc}.recalc`: the value handed to `set_output` -/',
                f'def {nm} {{C DT T : Type}} (P : TdPrims C DT T) (c : C) (now : DT) : Bool :=',
                '  ' + atom(s.value.args[0]), '']
    return out


TD_HEADER = '''/-- the primitives of `recalc`: `C` = the parsed configuration held by the block -/
structure TdPrims (C DT T : Type) where
  timesIsNone : C → Bool
  datesIsNone : C → Bool
  weekdaysIsNone : C → Bool
  timeOf : DT → T
  month : DT → Nat
  day : DT → Nat
  isoweekday : DT → Nat
  inTimes : C → T → Bool                -- `t in self._times`
  inDates : C → Nat → Nat → Bool        -- `convert_date_seq([month, day]) in self._dates`
  inWeekdays : C → Nat → Bool           -- `wd in self._weekdays`
  inSpan : C → DT → Bool                -- `now in self._span`

/-- what `_event_reconfig` does, in program order; a clock reading is named by the position of its
    `readClock` among the readings of the call -/
inductive RAct where
  | removeOldEndpoints        -- for t in <old>.range_endpoints(): self._cron.remove_block(t, self)
  | storeNew                  -- the new configuration is parsed and stored in the block
  | addNewEndpoints           -- for t in <new>.range_endpoints(): self._cron.add_block(t, self)
  | addFutureEndpoints (reading : Nat)  -- … only those with `t.date() >= <reading>.date()`
  | addMidnight               -- self._cron.add_block(dt.time(0, 0, 0), self)
  | reload                    -- self._cron.reload()
  | readClock                 -- self._cron.dtnow()
  | recalc (reading : Nat)    -- self.recalc(<that reading>)
  deriving Repr, DecidableEq
'''


def translate_reconfig(cls, which):
    """action list; conditions `self._times is not None` refer to the configuration stored at that point"""
    node = ast.parse(textwrap.dedent(inspect.getsource(cls._event_reconfig))).body[0]
    check_plain_function(node, '_event_reconfig', allow_kwonly=True)
    if [a.arg for a in node.args.args] != ['self'] or node.args.defaults:
        raise Untranslatable('_event_reconfig: positional parameters')
    # the keyword-only parameters and their defaults decide what an absent item of the event data means
    defaults = [(a.arg, ast.unparse(d) if d is not None else '<required>')
                for a, d in zip(node.args.kwonlyargs, node.args.kw_defaults)]
    # init_from_value / _restore_state must be this very reconfiguration
    init = ast.parse(textwrap.dedent(inspect.getsource(cls.init_from_value))).body[0]
    check_plain_function(init, 'init_from_value')
    ibody = [s for s in init.body if not (isinstance(s, ast.Expr) and isinstance(s.value, ast.Constant))]
    want = {'td': 'self._event_reconfig(**value)', 'ts': 'self._event_reconfig(span=value)'}[which]
    if [a.arg for a in init.args.args] != ['self', 'value'] or init.args.defaults or len(ibody) != 1 or \
            not isinstance(ibody[0], ast.Expr) or ast.unparse(ibody[0].value) != want:
        raise Untranslatable(f'init_from_value is not `{want}`')
    if cls.__dict__.get('_restore_state') is not cls.__dict__.get('init_from_value') or \
            cls._restore_state is not cls.init_from_value:
        raise Untranslatable('_restore_state is not init_from_value')
    body = [s for s in node.body if not (isinstance(s, ast.Expr) and isinstance(s.value, ast.Constant))]
    cfg_attr = {'td': 'self._times', 'ts': 'self._span'}[which]
    state = {'stored': False, 'readings': 0}
    names = {}          # local -> ('reading', n) | ('date', n)

    def endpoints_loop(s):
        """for x in <cfg>.range_endpoints(): self._cron.(add|remove)_block(<time of x>, self) [under `if x.date() >= d`]"""
        if not (isinstance(s.iter, ast.Call) and try_path(s.iter.func) == f'{cfg_attr}.range_endpoints'
                and not s.iter.args and isinstance(s.target, ast.Name) and not s.orelse and len(s.body) == 1):
            raise Untranslatable('loop')
        var = s.target.id
        inner = s.body[0]
        cond = None
        if isinstance(inner, ast.If):
            if inner.orelse or len(inner.body) != 1:
                raise Untranslatable('conditional registration')
            t = inner.test
            if not (isinstance(t, ast.Compare) and len(t.ops) == 1 and isinstance(t.ops[0], ast.GtE)
                    and isinstance(t.left, ast.Call) and try_path(t.left.func) == f'{var}.date'
                    and isinstance(t.comparators[0], ast.Name) and names.get(t.comparators[0].id, ('', 0))[0] == 'date'):
                raise Untranslatable('the filter of the registration loop')
            cond = names[t.comparators[0].id][1]
            inner = inner.body[0]
        c = inner.value if isinstance(inner, ast.Expr) else None
        if not (isinstance(c, ast.Call) and try_path(c.func) in ('self._cron.add_block', 'self._cron.remove_block')
                and len(c.args) == 2 and try_path(c.args[1]) == 'self'):
            raise Untranslatable('loop body')
        a = c.args[0]
        key_ok = (which == 'td' and try_path(a) == var) or \
            (which == 'ts' and isinstance(a, ast.Call) and try_path(a.func) == f'{var}.time' and not a.args)
        if not key_ok:
            raise Untranslatable('the registered time is not the end point')
        add = try_path(c.func).endswith('add_block')
        if add and not state['stored']:
            raise Untranslatable('end points of the OLD configuration are added')
        if not add and state['stored']:
            raise Untranslatable('end points of the NEW configuration are removed')
        if not add and cond is not None:
            raise Untranslatable('conditional removal')
        if add:
            return f'.addFutureEndpoints {cond}' if cond is not None else '.addNewEndpoints'
        return '.removeOldEndpoints'

    def is_dtnow(e):
        return isinstance(e, ast.Call) and try_path(e.func) == 'self._cron.dtnow' and not e.args

    def acts(stmts):
        out = []
        for s in stmts:
            if isinstance(s, ast.If) and not s.orelse:
                t = s.test
                if not (isinstance(t, ast.Compare) and len(t.ops) == 1 and isinstance(t.ops[0], ast.IsNot)
                        and try_path(t.left) == cfg_attr and isinstance(t.comparators[0], ast.Constant)
                        and t.comparators[0].value is None):
                    raise Untranslatable('condition')
                which_cfg = 'newSome' if state['stored'] else 'oldSome'
                inner = acts(s.body)
                out.append(f'(if {which_cfg} then {" ++ ".join(inner)} else [])')
                continue
            if isinstance(s, ast.For):
                out.append(f'[{endpoints_loop(s)}]')
                continue
            if isinstance(s, ast.Assign) and len(s.targets) == 1:
                tg = s.targets[0]
                tp = [try_path(x) for x in tg.elts] if isinstance(tg, ast.Tuple) else [try_path(tg)]
                if which == 'td' and tp == ['self._times', 'self._dates', 'self._weekdays'] and \
                        isinstance(s.value, ast.Call) and try_path(s.value.func) == 'self._parse3' and \
                        [try_path(a) for a in s.value.args] == ['times', 'dates', 'weekdays']:
                    state['stored'] = True
                    out.append('[.storeNew]')
                    continue
                if which == 'ts' and tp == ['self._span'] and isinstance(s.value, ast.Call) and \
                        try_path(s.value.func) == 'ti.DateTimeInterval' and [try_path(a) for a in s.value.args] == ['span']:
                    state['stored'] = True
                    out.append('[.storeNew]')
                    continue
                if isinstance(tg, ast.Name) and is_dtnow(s.value):
                    names[tg.id] = ('reading', state['readings'])
                    state['readings'] += 1
                    out.append('[.readClock]')
                    continue
                if isinstance(tg, ast.Name) and isinstance(s.value, ast.Call) and isinstance(s.value.func, ast.Attribute) \
                        and s.value.func.attr == 'date' and not s.value.args and \
                        names.get(try_path(s.value.func.value), ('', 0))[0] == 'reading':
                    names[tg.id] = ('date', names[try_path(s.value.func.value)][1])
                    continue
            c = s.value if isinstance(s, ast.Expr) else None
            if isinstance(c, ast.Call):
                fp = try_path(c.func)
                if fp == 'self._cron.add_block' and len(c.args) == 2 and try_path(c.args[1]) == 'self' and \
                        isinstance(c.args[0], ast.Call) and try_path(c.args[0].func) == 'dt.time' and \
                        all(isinstance(a, ast.Constant) and a.value == 0 for a in c.args[0].args) and \
                        1 <= len(c.args[0].args) <= 4 and not c.args[0].keywords:
                    out.append('[.addMidnight]')
                    continue
                if fp == 'self._cron.reload' and not c.args:
                    out.append('[.reload]')
                    continue
                if fp == 'self.recalc' and len(c.args) == 1:
                    a = c.args[0]
                    if is_dtnow(a):
                        n = state['readings']
                        state['readings'] += 1
                        out.append(f'[.readClock, .recalc {n}]')
                        continue
                    if isinstance(a, ast.Name) and names.get(a.id, ('', 0))[0] == 'reading':
                        out.append(f'[.recalc {names[a.id][1]}]')
                        continue
            raise Untranslatable(f'{which} _event_reconfig: {ast.dump(s)[:100]}')
        return out
    parts = acts(body)
    nm = {'td': 'tdReconfig', 'ts': 'tsReconfig'}[which]
    doc = {'td': 'TimeDate', 'ts': 'TimeSpan'}[which]
    params = '(oldSome newSome : Bool)' if which == 'td' else ''
    return [f'/-- translated from `blocklib.timedate.{doc}._event_reconfig`' +
            (' (`oldSome`/`newSome`: `self._times is not None` before / after the new configuration is stored)'
             if which == 'td' else '') + ' -/',
            f'def {nm} {params} : List RAct :=', '  ' + ' ++\n  '.join(parts), '',
            f'/-- keyword-only parameters of `{doc}._event_reconfig` with their defaults (source text); `init_from_value`',
            f'    and `_restore_state` were checked to be `{want}` -/',
            f'def {nm}Defaults : List (String × String) :=',
            '  [' + ', '.join(f'("{a}", "{d}")' for a, d in defaults) + ']', '']


# ------------------------------------------------------------------------------------------------ main

HEADER = '''/- GENERATED by tools/py2lean_cron.py from the Python source of edzed
   (blocklib/cron.py, blocklib/timedate.py, utils/flag.py) -- do not edit -/
import EdzedModel.Gen.Constants

set_option linter.unusedVariables false

namespace Edzed.Gen.TrCron

def ratAbs (x : Rat) : Rat := if x < 0 then -x else x

'''


def main_cron(outfile, py2lean):
    from edzed.blocklib import cron, timedate
    L = [HEADER]
    L.append('/-- the numeric module constants as `blocklib/cron.py` sees them (value of the NAME in its namespace) -/')
    for py, ln in CONSTS.items():
        try:
            L.append(f'def {ln} : Rat := {dec_lit(getattr(cron, py))}    -- {py}')
        except Exception as err:
            L.append(f'-- UNTRANSLATABLE constant {py}: {err}')
            print(f'UNTRANSLATABLE constant {py}: {err}')
    L.append('')

    def section(doc, name, fn):
        try:
            L.extend(fn())
        except Exception as err:     # Untranslatable, or source no longer found
            L.append(f"-- UNTRANSLATABLE `{doc}`: definition `{name}` omitted ({' '.join(str(err).split())[:200]})")
            L.append('')
            print(f'UNTRANSLATABLE {name} ({doc}): {err}')
    # the class bound to the name `Flag` in the cron module (not "the" Flag of utils.flag)
    section('Flag as imported by blocklib.cron', 'Flag_…', lambda: translate_flag(cron.Flag))
    L.append(TAB_HEADER)
    for m, n in (('add_block', 'addBlock'), ('remove_block', 'removeBlock'), ('reload', 'reload')):
        section(f'blocklib.cron.Cron.{m}', n, lambda m=m: translate_tab(cron.Cron, m))
    L.append(MT_HEADER)
    section('blocklib.cron.Cron._maintask', 'mtStep', lambda: translate_maintask(cron.Cron))
    L.append(TD_HEADER)
    section('blocklib.timedate.TimeDate.recalc', 'tdRecalc', lambda: translate_recalc(timedate.TimeDate, timedate.TimeSpan))
    section('blocklib.timedate.TimeDate._event_reconfig', 'tdReconfig', lambda: translate_reconfig(timedate.TimeDate, 'td'))
    section('blocklib.timedate.TimeSpan._event_reconfig', 'tsReconfig', lambda: translate_reconfig(timedate.TimeSpan, 'ts'))
    L.append('end Edzed.Gen.TrCron')
    py2lean.write_if_changed(outfile, '\n'.join(L) + '\n')
