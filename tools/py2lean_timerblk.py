"""
Translator for the library block `Timer` (edzed/blocklib/fsms.py) and the remaining small pieces of the class
`FSM` (edzed/fsm.py):   -> lean/EdzedModel/Gen/TranslatedTimerBlk.lean

    Timer.__init__      the rewriting of the keyword arguments (t_period -> t_on / t_off), the default of
                        `restartable`, the call of FSM.__init__ and `self._restartable = bool(restartable)`
    Timer.cond_start / cond_stop / calc_output          value translations
    FSM.calc_output, FSM.state, FSM.init_from_value      value translations / the event it sends
    class FSM            the class attributes of the body with their defaults and the declared `_ct_*` tables
    FSM.__init_subclass__  the order of its actions: super().__init_subclass__, _build_tables, and what happens
                        when _build_tables raises (note added, the SAME error re-raised)

Called from tools/py2lean.py (same conventions: anything outside the supported subset is OMITTED with an
`UNTRANSLATABLE` comment, so that exactly the theorems mentioning it stop compiling).

Declared (the mapping call path / test = primitive or parameter); everything else comes from the AST:
    'k' in kwargs / kwargs.pop('k') / kwargs['k'] = v      has / pop / set on an abstract mapping M of duration values
    utils.time_period(x)     may-raise primitive (tied in C19);   x / 2     may-raise primitive (None / 2 raises)
    super().__init__(*args, **kwargs)    may-raise primitive receiving the rewritten kwargs
    bool(restartable)        the truth value of an arbitrary object (primitive)
    self._restartable : bool     self._state : a state name or UNDEF (Option String)
Discrimination rules as in tools/py2lean_fsm.py: `==` / `!=` against a string literal on the state only (never `is`),
`or` / `and` only over bools, every operator kept, chained assignment evaluated once and assigned left to right.
"""
import ast
import builtins
import copy

H = None


def U(msg):
    return H.Untranslatable(msg)


def lit(s):
    return '"' + s.replace('\\', '\\\\').replace('"', '\\"') + '"'


# ----------------------------------------------------------------------------- small value translations

def strip_doc(body):
    return [s for s in body
            if not (isinstance(s, ast.Expr) and isinstance(s.value, ast.Constant) and isinstance(s.value.value, str))]


def inline_locals(body, params, pure):
    """`x = <pure expression>` statements before the last statement are substituted into what follows (every local is
    assigned once, before its use, does not hide a parameter and is not assigned in the last statement); returns the
    last statement"""
    env = {}

    class Sub(ast.NodeTransformer):
        def visit_Name(self, node):
            if isinstance(node.ctx, ast.Load) and node.id in env:
                return copy.deepcopy(env[node.id])
            if not isinstance(node.ctx, ast.Load) and node.id in env:
                raise U(f'local {node.id} assigned again')
            return node

    for st in body[:-1]:
        if not (isinstance(st, ast.Assign) and len(st.targets) == 1 and isinstance(st.targets[0], ast.Name)):
            raise U('statement before the last one: ' + ast.unparse(st)[:60])
        n = st.targets[0].id
        if n in env or n in params:
            raise U(f'local {n} assigned twice or hides a parameter')
        v = Sub().visit(copy.deepcopy(st.value))
        if not pure(v):
            raise U(f'local {n} = {ast.unparse(v)[:40]}: not a plain value')
        env[n] = v
    if not body:
        raise U('empty body')
    return ast.fix_missing_locations(Sub().visit(copy.deepcopy(body[-1])))


def pure_attr(v):
    """constants, names, attribute chains, and and/or/not/comparisons of them: no effect, cannot raise here"""
    if isinstance(v, (ast.Constant, ast.Name)):
        return True
    if isinstance(v, ast.Attribute):
        return pure_attr(v.value)
    if isinstance(v, ast.BoolOp):
        return all(pure_attr(x) for x in v.values)
    if isinstance(v, ast.UnaryOp) and isinstance(v.op, ast.Not):
        return pure_attr(v.operand)
    if isinstance(v, ast.Compare):
        return pure_attr(v.left) and all(pure_attr(x) for x in v.comparators)
    return False

class TrVal:
    """bool-valued one-liners over `self._restartable` (Bool) and `self._state` (Option String)"""

    NAMES = {'self._restartable': ('restartable', 'B'), 'self._state': ('state', 'SQ')}

    def expr(self, node):
        if isinstance(node, ast.Attribute):
            p = H.node_path(node)
            if p in self.NAMES:
                return self.NAMES[p]
            raise U(f'unknown name {p}')
        if isinstance(node, ast.Constant) and isinstance(node.value, str):
            return (lit(node.value), 'Str')
        if isinstance(node, ast.Constant) and isinstance(node.value, bool):
            return ('true' if node.value else 'false', 'B')
        if isinstance(node, ast.BoolOp):
            parts = [self.expr(v) for v in node.values]
            if not all(ty == 'B' for _, ty in parts):
                raise U('and/or over non-bool operands: ' + ast.unparse(node))
            op = ' && ' if isinstance(node.op, ast.And) else ' || '
            return ('(' + op.join(t for t, _ in parts) + ')', 'B')
        if isinstance(node, ast.UnaryOp) and isinstance(node.op, ast.Not):
            t, ty = self.expr(node.operand)
            if ty != 'B':
                raise U('not on ' + ty)
            return (f'(!{t})', 'B')
        if isinstance(node, ast.Compare) and len(node.ops) == 1 and isinstance(node.ops[0], (ast.Eq, ast.NotEq)):
            a, aty = self.expr(node.left)
            b, bty = self.expr(node.comparators[0])
            if (aty, bty) == ('SQ', 'Str'):
                t = f'decide ({a} = some {b})'
            elif (aty, bty) == ('Str', 'SQ'):
                t = f'decide (some {a} = {b})'
            else:
                raise U('comparison of ' + aty + ' and ' + bty)
            return (t if isinstance(node.ops[0], ast.Eq) else f'(!{t})', 'B')
        raise U('expression ' + ast.unparse(node)[:80])

    def fn(self, fn, name, params, rtype='B'):
        if fn.decorator_list and not (name == 'fsmState' and [ast.unparse(d) for d in fn.decorator_list] == ['property']):
            raise U('decorated')
        a = fn.args
        if [x.arg for x in a.args] != ['self'] or a.vararg or a.kwarg or a.kwonlyargs or a.posonlyargs:
            raise U('signature')
        last = inline_locals(strip_doc(fn.body), {'self'}, pure_attr)
        if not isinstance(last, ast.Return) or last.value is None:
            raise U('body does not end with return <value>')
        t, ty = self.expr(last.value)
        if ty != rtype:
            raise U(f'returns {ty}')
        lt = {'B': 'Bool', 'SQ': 'Option String'}[rtype]
        return f'def {name} {params} : {lt} :=\n  {t}'


# ----------------------------------------------------------------------------- Timer.__init__

def translate_timer_init(fn):
    a = fn.args
    if ([x.arg for x in a.args] != ['self'] or a.vararg is None or a.kwarg is None or a.posonlyargs
            or [x.arg for x in a.kwonlyargs] != ['restartable'] or fn.decorator_list):
        raise U('signature of Timer.__init__')
    dflt = a.kw_defaults[0]
    if not (isinstance(dflt, ast.Constant) and isinstance(dflt.value, bool)):
        raise U('default of restartable')
    va, kw = a.vararg.arg, a.kwarg.arg
    counter = [0]

    def fresh(p='v'):
        counter[0] += 1
        return f'{p}{counter[0] - 1}'

    def key(node):
        if isinstance(node, ast.Constant) and isinstance(node.value, str):
            return lit(node.value)
        raise U('key ' + ast.unparse(node))

    def test(node):
        if isinstance(node, ast.Compare) and len(node.ops) == 1 and isinstance(node.ops[0], (ast.In, ast.NotIn)) \
                and isinstance(node.comparators[0], ast.Name) and node.comparators[0].id == kw:
            t = f'has kwargs {key(node.left)}'
            return t if isinstance(node.ops[0], ast.In) else f'!({t})'
        if isinstance(node, ast.BoolOp):
            op = ' && ' if isinstance(node.op, ast.And) else ' || '
            return '(' + op.join(test(v) for v in node.values) + ')'
        if isinstance(node, ast.UnaryOp) and isinstance(node.op, ast.Not):
            return f'!({test(node.operand)})'
        raise U('test ' + ast.unparse(node)[:80])

    def value(node, env, k, ind):
        """evaluate a duration-valued expression (may raise, may change kwargs); k(text) continues"""
        pad = '  ' * ind
        if isinstance(node, ast.Name) and node.id in env:
            return k(env[node.id], ind)
        if (isinstance(node, ast.Call) and H.node_path(node.func) == f'{kw}.pop' and len(node.args) == 1
                and not node.keywords):
            v = fresh()
            return (f'{pad}match pop kwargs {key(node.args[0])} with\n{pad}| none => .error (exc "KeyError")\n'
                    f'{pad}| some ({v}, kwargs) =>\n' + k(v, ind + 1))
        if (isinstance(node, ast.Call) and H.node_path(node.func) == 'utils.time_period' and len(node.args) == 1
                and not node.keywords):
            def k2(t, ind2):
                p2 = '  ' * ind2
                v = fresh()
                return f'{p2}match timePeriod {t} with\n{p2}| .error e => .error e\n{p2}| .ok {v} =>\n' + k(v, ind2 + 1)
            return value(node.args[0], env, k2, ind)
        if (isinstance(node, ast.BinOp) and isinstance(node.op, ast.Div) and isinstance(node.right, ast.Constant)
                and node.right.value == 2 and type(node.right.value) is int):
            def k2(t, ind2):
                p2 = '  ' * ind2
                v = fresh()
                return f'{p2}match divTwo {t} with\n{p2}| .error e => .error e\n{p2}| .ok {v} =>\n' + k(v, ind2 + 1)
            return value(node.left, env, k2, ind)
        raise U('value ' + ast.unparse(node)[:80])

    # exactly one call of FSM.__init__ and one assignment of _restartable, both at the top level of the body
    top = [ast.unparse(x) for x in fn.body]
    if (sum(1 for n in ast.walk(fn) if isinstance(n, ast.Call) and ast.unparse(n.func) == 'super().__init__') != 1
            or f'super().__init__(*{va}, **{kw})' not in top
            or sum(1 for n in ast.walk(fn) if isinstance(n, ast.Attribute) and n.attr == '_restartable'
                   and isinstance(n.ctx, ast.Store)) != 1
            or 'self._restartable = bool(restartable)' not in top):
        raise U('super().__init__ / _restartable are not single top-level statements')

    def block(stmts, env, ind, fall):
        pad = '  ' * ind
        if not stmts:
            return fall(env, ind)
        s, rest = stmts[0], list(stmts[1:])
        if isinstance(s, ast.Expr) and isinstance(s.value, ast.Constant) and isinstance(s.value.value, str):
            return block(rest, env, ind, fall)
        if isinstance(s, ast.If):
            # the rest is translated after either branch (no duplication problem: branches end or fall through)
            c = test(s.test)
            then_ = block(list(s.body), env, ind + 1, lambda e, i: block(rest, e, i, fall))
            else_ = block(list(s.orelse), env, ind + 1, lambda e, i: block(rest, e, i, fall))
            return f'{pad}if {c} then\n{then_}\n{pad}else\n{else_}'
        if isinstance(s, ast.Raise):
            if isinstance(s.exc, ast.Call) and isinstance(s.exc.func, ast.Name) and s.cause is None \
                    and all(isinstance(x, ast.Constant) for x in s.exc.args):
                return f'{pad}.error (exc "{s.exc.func.id}")'
            raise U('raise ' + ast.unparse(s)[:60])
        if isinstance(s, ast.Assign) and len(s.targets) == 1 and isinstance(s.targets[0], ast.Name):
            name = s.targets[0].id
            if name in env or name in (kw, va, 'restartable'):
                raise U(f'{name} is assigned twice')
            return value(s.value, env, lambda t, i: block(rest, {**env, name: t}, i, fall), ind)
        if isinstance(s, ast.Assign) and all(
                isinstance(t, ast.Subscript) and isinstance(t.value, ast.Name) and t.value.id == kw for t in s.targets):
            # kwargs[K1] = kwargs[K2] = value : the value once, the targets left to right
            def k(t, i):
                p2 = '  ' * i
                sets = ''.join(f'{p2}let kwargs := set kwargs {key(tg.slice)} {t}\n' for tg in s.targets)
                return sets + block(rest, env, i, fall)
            return value(s.value, env, k, ind)
        if (isinstance(s, ast.Expr) and isinstance(s.value, ast.Call)
                and ast.unparse(s.value) == f'super().__init__(*{va}, **{kw})'):
            return (f'{pad}match superInit kwargs with\n{pad}| .error e => .error e\n{pad}| .ok passed =>\n'
                    + block(rest, {**env, '@passed': 'passed'}, ind + 1, fall))
        if (isinstance(s, ast.Assign) and len(s.targets) == 1 and H.node_path(s.targets[0]) == 'self._restartable'):
            v = s.value
            if (isinstance(v, ast.Call) and H.node_path(v.func) == 'bool' and len(v.args) == 1 and not v.keywords
                    and isinstance(v.args[0], ast.Name) and v.args[0].id == 'restartable'):
                return f'{pad}let flag : Option Bool := some (truthy restartable)\n' + block(rest, {**env, '@flag': 'flag'}, ind, fall)
            raise U('_restartable = ' + ast.unparse(v))
        raise U('statement ' + ast.unparse(s)[:80])

    def fall(env, ind):
        pad = '  ' * ind
        passed = env.get('@passed')
        flag = env.get('@flag')
        return f'{pad}.ok ({"some " + passed if passed else "none"}, {flag if flag else "none"})'

    body = block(list(fn.body), {}, 1, fall)
    return (
        f'def timerRestartableDefault : Bool := {"true" if dflt.value else "false"}\n\n'
        '/-- translated from `fsms.Timer.__init__`: what is handed to `FSM.__init__` (`none`: it is not called) and the\n'
        '    value stored in `_restartable` (`none`: never assigned), or the exception -/\n'
        'def timerInit {M Dv R P X : Type} (exc : String → X) (has : M → String → Bool)\n'
        '    (pop : M → String → Option (Dv × M)) (set : M → String → Dv → M)\n'
        '    (timePeriod : Dv → Except X Dv) (divTwo : Dv → Except X Dv) (superInit : M → Except X P)\n'
        '    (truthy : R → Bool) (restartable : R) (kwargs : M) : Except X (Option P × Option Bool) :=\n' + body)


# ----------------------------------------------------------------------------- class FSM

def translate_fsm_class(cls_node, module_names=frozenset()):
    """the simple statements of the class body: attributes with defaults, declared tables (bare annotations)"""
    defaults, declared = [], []
    for s in cls_node.body:
        if isinstance(s, ast.Expr) and isinstance(s.value, ast.Constant) and isinstance(s.value.value, str):
            continue
        if isinstance(s, (ast.FunctionDef, ast.AsyncFunctionDef)):
            continue
        if isinstance(s, ast.AnnAssign) and isinstance(s.target, ast.Name):
            if s.value is None:
                declared.append((s.target.id, ast.unparse(s.annotation)))
                continue
            v = s.value
            call0 = (ast.unparse(v.func) if isinstance(v, ast.Call) and isinstance(v.func, ast.Name)
                     and not v.args and not v.keywords else None)     # tuple() / list() / dict(): the builtins
            if call0 is not None and call0 in ('tuple', 'list', 'dict') and hasattr(builtins, call0) \
                    and call0 not in module_names:
                kind = {'tuple': 'emptyTuple', 'list': 'emptyList', 'dict': 'emptyDict'}[call0]
            elif isinstance(v, ast.Tuple) and not v.elts:
                kind = 'emptyTuple'
            elif isinstance(v, ast.List) and not v.elts:
                kind = 'emptyList'
            elif isinstance(v, ast.Dict) and not v.keys:
                kind = 'emptyDict'
            else:
                kind = None
            if kind is not None:
                defaults.append((s.target.id, kind))
                continue
            raise U(f'default of {s.target.id}: {ast.unparse(v)[:40]}')
        raise U('statement in the class body: ' + ast.unparse(s)[:60])
    d = ', '.join(f'({lit(n)}, ClassDefault.{k})' for n, k in sorted(defaults))     # constants: order immaterial
    if len({n for n, _ in declared}) != len(declared) or len({n for n, _ in defaults}) != len(defaults):
        raise U('an attribute of the class body is defined twice')
    # a bare annotation has no effect at run time: the order of the declarations is immaterial, they are sorted
    t = ', '.join(f'({lit(n)}, {lit(a)})' for n, a in sorted(declared))
    return (
        'inductive ClassDefault where\n  | emptyTuple    -- `()` / `tuple()`\n  | emptyList     -- `[]` / `list()`\n'
        '  | emptyDict     -- `{}` / `dict()`\n'
        '  deriving DecidableEq, Repr\n\n'
        '/-- translated from the body of `class FSM`: the class attributes a subclass is expected to define, with the\n'
        '    defaults they have when it does not -/\n'
        f'def fsmClassDefaults : List (String × ClassDefault) := [{d}]\n\n'
        '/-- translated from the body of `class FSM`: the control tables declared there (name, annotation); they get\n'
        '    their values from `_build_tables` -/\n'
        f'def fsmDeclaredTables : List (String × String) := [{t}]')


def translate_init_subclass(fn):
    """order of actions of FSM.__init_subclass__"""
    if fn.decorator_list:      # an implicit classmethod
        raise U('decorators of __init_subclass__')
    a = fn.args
    if [x.arg for x in a.args] != ['cls'] or a.vararg is None or a.kwarg is None or a.kwonlyargs:
        raise U('signature of __init_subclass__')
    body = [s for s in fn.body
            if not (isinstance(s, ast.Expr) and isinstance(s.value, ast.Constant) and isinstance(s.value.value, str))]

    def acts(stmts, ind, caught=None):
        pad = '  ' * ind
        if not stmts:
            return pad + '[]'
        s, rest = stmts[0], stmts[1:]
        if isinstance(s, ast.Expr) and isinstance(s.value, ast.Call):
            txt = ast.unparse(s.value)
            if txt == f'super().__init_subclass__(*{a.vararg.arg}, **{a.kwarg.arg})':
                return f'{pad}SubclassAct.superInitSubclass ::\n' + acts(rest, ind)
            if txt == 'cls._build_tables()':
                return f'{pad}SubclassAct.buildTables ::\n' + acts(rest, ind)
            if H.node_path(s.value.func) == 'add_note' and len(s.value.args) == 2 and not s.value.keywords \
                    and isinstance(s.value.args[0], ast.Name):
                if caught is None or s.value.args[0].id != caught:
                    raise U('add_note outside the handler or on another object')
                return f'{pad}SubclassAct.addNote ::\n' + acts(rest, ind, caught)
            raise U('call ' + txt[:60])
        if isinstance(s, ast.Raise) and s.cause is None and caught is not None and (
                s.exc is None or (isinstance(s.exc, ast.Name) and s.exc.id == caught)):
            # bare `raise` / `raise err` with the name of the handler: the error caught goes on
            return f'{pad}[SubclassAct.reraise]'
        if (isinstance(s, ast.Try) and not s.finalbody and not s.orelse and len(s.handlers) == 1
                and H.node_path(s.handlers[0].type) == 'Exception' and len(s.body) == 1
                and isinstance(s.body[0], ast.Expr) and ast.unparse(s.body[0].value) == 'cls._build_tables()'):
            h = s.handlers[0]
            if h.name is None:
                raise U('handler without a name')
            for x in ast.walk(ast.Module(body=list(h.body), type_ignores=[])):
                if isinstance(x, ast.Name) and x.id == h.name and not isinstance(x.ctx, ast.Load):
                    raise U('the name of the handler is assigned')
            return (f'{pad}SubclassAct.buildTables ::\n{pad}if buildRaises then\n' + acts(list(h.body), ind + 1, h.name)
                    + f'\n{pad}else\n' + acts(rest, ind + 1))
        raise U('statement ' + ast.unparse(s)[:60])

    return (
        'inductive SubclassAct where\n'
        '  | superInitSubclass     -- `super().__init_subclass__(*args, **kwargs)`: SBlock builds `_ct_handlers`\n'
        '  | buildTables           -- `cls._build_tables()`\n'
        '  | addNote               -- `add_note(err, …)` on the error caught\n'
        '  | reraise               -- `raise` / `raise err`: the error caught goes on\n'
        '  deriving DecidableEq, Repr\n\n'
        '/-- translated from `fsm.FSM.__init_subclass__`: its actions in program order (`buildRaises`: `_build_tables`\n'
        '    raises an `Exception`) -/\n'
        'def initSubclassActs (buildRaises : Bool) : List SubclassAct :=\n' + acts(body, 1))


def translate_init_from_value(fn):
    a = fn.args
    if [x.arg for x in a.args] != ['self', 'value'] or a.vararg or a.kwarg or a.kwonlyargs or fn.decorator_list:
        raise U('signature')
    def pure(v):      # Goto(…) only stores its argument
        return pure_attr(v) or (isinstance(v, ast.Call) and isinstance(v.func, ast.Name) and v.func.id == 'Goto'
                                and len(v.args) == 1 and not v.keywords and pure_attr(v.args[0]))
    last = inline_locals(strip_doc(fn.body), {'self', 'value'}, pure)
    if isinstance(last, ast.Expr) and ast.unparse(last.value) == 'self.event(Goto(value))':
        return ('def fsmInitFromValue {E Q D : Type} (goto : Q → E) (noData : D) (value : Q) : E × D :=\n'
                '  (goto value, noData)')
    raise U('body of init_from_value')


def check_targets(fsm_mod, fsms_mod):
    import edzed
    from edzed import utils
    from edzed.utils import timeunits
    T = fsms_mod.Timer
    missing = set()       # methods that are not defined where the tie expects them: only their definitions are omitted
    for n in ('__init__', 'cond_start', 'cond_stop', 'calc_output'):
        if n not in vars(T):
            missing.add(f'Timer.{n}')
    if T.__mro__[1] is not fsm_mod.FSM:
        raise U('Timer is not a direct subclass of FSM')
    if fsms_mod.utils is not utils or utils.time_period is not timeunits.time_period or fsms_mod.fsm is not fsm_mod:
        raise U('module globals of fsms.py')
    for n in ('calc_output', 'init_from_value', 'state', '__init_subclass__'):
        if n not in vars(fsm_mod.FSM):
            missing.add(f'FSM.{n}')
    if 'FSM.state' not in missing and not isinstance(vars(fsm_mod.FSM)['state'], property):
        raise U('FSM.state is not a property')
    if vars(fsm_mod).get('Goto') is not edzed.Goto or edzed.Goto.__module__ != fsm_mod.__name__ \
            or vars(fsm_mod).get('add_note') is not edzed.exceptions.add_note:
        raise U('module globals of fsm.py (Goto, add_note)')
    if edzed.Timer is not T:
        raise U('edzed.Timer')
    return missing


def main_timerblk(outfile, helpers):
    global H
    H = helpers
    import inspect
    import textwrap
    from edzed import fsm
    from edzed.blocklib import fsms
    L = ['/- GENERATED by tools/py2lean_timerblk.py from the Python source of edzed (blocklib/fsms.py: Timer; '
         'fsm.py: class FSM) -- do not edit -/', '', 'namespace Edzed.Gen.TrB', '']
    missing = set()
    try:
        missing = check_targets(fsm, fsms)
        err0 = None
    except Exception as err:
        err0 = err

    def guarded(f, doc):
        def g(_t):
            if err0 is not None:
                raise err0
            for m in missing:
                if doc.split(' ')[0].endswith(m):
                    raise U(f'{m} is not defined in the class itself')
            return f()
        return g

    tv = TrVal()
    T = fsms.Timer
    items = [
        ('timerInit', 'fsms.Timer.__init__', lambda: translate_timer_init(H.fn_ast(T.__init__))),
        ('timerCondStart', 'fsms.Timer.cond_start',
         lambda: tv.fn(H.fn_ast(T.cond_start), 'timerCondStart', '(restartable : Bool) (state : Option String)')),
        ('timerCondStop', 'fsms.Timer.cond_stop',
         lambda: tv.fn(H.fn_ast(T.cond_stop), 'timerCondStop', '(restartable : Bool) (state : Option String)')),
        ('timerCalcOutput', 'fsms.Timer.calc_output',
         lambda: tv.fn(H.fn_ast(T.calc_output), 'timerCalcOutput', '(state : Option String)')),
        ('fsmCalcOutput', 'fsm.FSM.calc_output',
         lambda: tv.fn(H.fn_ast(fsm.FSM.calc_output), 'fsmCalcOutput', '(state : Option String)', 'SQ')),
        ('fsmState', 'fsm.FSM.state (property)',
         lambda: tv.fn(H.fn_ast(vars(fsm.FSM)['state'].fget), 'fsmState', '(state : Option String)', 'SQ')),
        ('fsmInitFromValue', 'fsm.FSM.init_from_value',
         lambda: translate_init_from_value(H.fn_ast(fsm.FSM.init_from_value))),
        ('fsmClassDefaults', 'class fsm.FSM (body)',
         lambda: translate_fsm_class(ast.parse(textwrap.dedent(inspect.getsource(fsm.FSM))).body[0], frozenset(vars(fsm)))),
        ('initSubclassActs', 'fsm.FSM.__init_subclass__',
         lambda: translate_init_subclass(H.fn_ast(vars(fsm.FSM)['__init_subclass__'].__func__))),
    ]
    for name, doc, f in items:
        H.emit(L, dict(name=name, doc=doc), guarded(f, doc), '')
    L.append('end Edzed.Gen.TrB')
    H.write_if_changed(outfile, '\n'.join(L) + '\n')
