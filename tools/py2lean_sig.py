"""
Translator module for `CBlock.check_signature` (called from tools/py2lean.py: main()).

Regenerates lean/EdzedModel/Gen/TranslatedSig.lean from the CURRENT source of the inner helper
`valuediff_msg(name, value, expected)` of `CBlock.check_signature` (edzed/block.py): the decision
"does this signature item differ from what was expected".

    value     None (single input) | int (size of the group)            Lean: Option Nat
    expected  None | int | (cmin, cmax) with None | int bounds          Lean: Option (Nat ⊕ (Option Nat × Option Nat))
    result    a message (str / f-string) | None                         Lean: Bool (true = a message = mismatch)

The translation is statement by statement with *narrowing*: `X is None` / `X is not None` /
`isinstance(X, int)` / truthiness of an Optional become `match`es that bind the narrowed value;
an ordering / equality comparison is accepted only between operands known to be numbers at that
point (otherwise Python could raise TypeError and the function is reported UNTRANSLATABLE).
`try: cmin, cmax = expected  except …: raise …` binds the two bounds (the handler may only raise:
a malformed `expected` is outside the translated domain).  Anything else: UNTRANSLATABLE, the
definition is omitted and the theorem `TrTie.translated_valuediff_is_model` (EdzedProps/C15.lean)
stops compiling.
"""
import ast
import inspect
import os
import textwrap


class Untranslatable(Exception):
    pass


def find_helper():
    from edzed import block
    tree = ast.parse(textwrap.dedent(inspect.getsource(block.CBlock.check_signature)))
    for node in ast.walk(tree):
        if isinstance(node, ast.FunctionDef) and node.name == 'valuediff_msg':
            return node
    raise Untranslatable('no inner function valuediff_msg in CBlock.check_signature')


class TrSig:
    """env: python name -> (lean name, type); types: opt (Option Nat), nat, exp (Option (Nat ⊕ pair)),
    sum (Nat ⊕ pair), pair, none (known to be None), skip (not used in the value computed)"""

    def __init__(self):
        self.fresh = 0

    def new(self, base):
        self.fresh += 1
        return f'{base}{self.fresh}'

    def block(self, stmts, env, ind):
        pad = '  ' * ind
        if not stmts:
            return pad + 'false'                      # falling off the end returns None
        s, rest = stmts[0], stmts[1:]
        if isinstance(s, ast.Expr) and isinstance(s.value, ast.Constant) and isinstance(s.value.value, str):
            return self.block(rest, env, ind)         # docstring
        if isinstance(s, ast.Return):
            v = s.value
            if v is None or (isinstance(v, ast.Constant) and v.value is None):
                return pad + 'false'
            if isinstance(v, ast.JoinedStr) or (isinstance(v, ast.Constant) and isinstance(v.value, str)):
                return pad + 'true'
            raise Untranslatable('return of ' + ast.dump(v)[:80])
        if isinstance(s, ast.If):
            return self.cond(s.test, env, ind,
                             lambda e, i: self.block(list(s.body) + rest, e, i),
                             lambda e, i: self.block(list(s.orelse) + rest, e, i))
        if isinstance(s, ast.Try):
            for h in s.handlers:
                if not (len(h.body) == 1 and isinstance(h.body[0], ast.Raise)):
                    raise Untranslatable('try handler that does not just raise')
            if s.orelse or s.finalbody or len(s.body) != 1:
                raise Untranslatable('try statement shape')
            a = s.body[0]
            if not (isinstance(a, ast.Assign) and len(a.targets) == 1 and isinstance(a.targets[0], ast.Tuple)
                    and len(a.targets[0].elts) == 2 and all(isinstance(x, ast.Name) for x in a.targets[0].elts)
                    and isinstance(a.value, ast.Name)):
                raise Untranslatable('try body is not `a, b = name`')
            src, ty = env.get(a.value.id, (None, None))
            if ty != 'pair':
                raise Untranslatable(f'unpacking {a.value.id} of type {ty}')
            n1, n2 = (x.id for x in a.targets[0].elts)
            env2 = dict(env)
            env2[n1] = (n1, 'opt')
            env2[n2] = (n2, 'opt')
            return f'{pad}match {src} with\n{pad}| ({n1}, {n2}) =>\n' + self.block(rest, env2, ind + 1)
        raise Untranslatable('statement ' + ast.dump(s)[:80])

    def num(self, node, env):
        if isinstance(node, ast.Name):
            lean, ty = env.get(node.id, (None, None))
            if ty == 'nat':
                return lean
            raise Untranslatable(f'{node.id} may not be a number here (type {ty})')
        if isinstance(node, ast.Constant) and isinstance(node.value, int) and not isinstance(node.value, bool) \
                and node.value >= 0:
            return str(node.value)
        raise Untranslatable('operand ' + ast.dump(node)[:60])

    def cond(self, test, env, ind, kthen, kelse):
        pad = '  ' * ind
        if isinstance(test, ast.UnaryOp) and isinstance(test.op, ast.Not):
            return self.cond(test.operand, env, ind, kelse, kthen)
        if isinstance(test, ast.BoolOp):
            first, others = test.values[0], test.values[1:]
            restt = others[0] if len(others) == 1 else ast.BoolOp(op=test.op, values=others)
            if isinstance(test.op, ast.And):
                return self.cond(first, env, ind, lambda e, i: self.cond(restt, e, i, kthen, kelse), kelse)
            return self.cond(first, env, ind, kthen, lambda e, i: self.cond(restt, e, i, kthen, kelse))
        if isinstance(test, ast.Compare) and len(test.ops) == 1:
            op, left, right = test.ops[0], test.left, test.comparators[0]
            if isinstance(op, (ast.Is, ast.IsNot)) and isinstance(right, ast.Constant) and right.value is None \
                    and isinstance(left, ast.Name):
                if isinstance(op, ast.IsNot):
                    kthen, kelse = kelse, kthen
                lean, ty = env.get(left.id, (None, None))
                if ty == 'none':
                    return kthen(env, ind)
                if ty in ('nat', 'sum', 'pair'):
                    return kelse(env, ind)
                if ty in ('opt', 'exp'):
                    nm = self.new(left.id)
                    e1, e2 = dict(env), dict(env)
                    e1[left.id] = (lean, 'none')
                    e2[left.id] = (nm, 'nat' if ty == 'opt' else 'sum')
                    return (f'{pad}match {lean} with\n{pad}| none =>\n{kthen(e1, ind + 1)}\n'
                            f'{pad}| some {nm} =>\n{kelse(e2, ind + 1)}')
                raise Untranslatable(f'is None on {left.id}: {ty}')
            sym = {ast.Lt: '<', ast.Gt: '>', ast.LtE: '≤', ast.GtE: '≥', ast.Eq: '=', ast.NotEq: '≠'}.get(type(op))
            if sym:
                a, b = self.num(left, env), self.num(right, env)
                return (f'{pad}if {a} {sym} {b} then\n{kthen(env, ind + 1)}\n{pad}else\n{kelse(env, ind + 1)}')
            raise Untranslatable('comparison ' + ast.dump(test)[:80])
        if isinstance(test, ast.Call) and isinstance(test.func, ast.Name) and test.func.id == 'isinstance' \
                and len(test.args) == 2 and isinstance(test.args[0], ast.Name) \
                and isinstance(test.args[1], ast.Name) and test.args[1].id == 'int':
            lean, ty = env.get(test.args[0].id, (None, None))
            if ty != 'sum':
                raise Untranslatable(f'isinstance(…, int) on {ty}')
            n1, n2 = self.new(test.args[0].id), self.new(test.args[0].id)
            e1, e2 = dict(env), dict(env)
            e1[test.args[0].id] = (n1, 'nat')
            e2[test.args[0].id] = (n2, 'pair')
            return (f'{pad}match {lean} with\n{pad}| .inl {n1} =>\n{kthen(e1, ind + 1)}\n'
                    f'{pad}| .inr {n2} =>\n{kelse(e2, ind + 1)}')
        if isinstance(test, ast.Name):                  # truthiness
            lean, ty = env.get(test.id, (None, None))
            if ty == 'none':
                return kelse(env, ind)
            if ty == 'nat':
                return f'{pad}if {lean} ≠ 0 then\n{kthen(env, ind + 1)}\n{pad}else\n{kelse(env, ind + 1)}'
            if ty == 'opt':
                nm = self.new(test.id)
                e1, e2 = dict(env), dict(env)
                e1[test.id] = (lean, 'none')
                e2[test.id] = (nm, 'nat')
                return (f'{pad}match {lean} with\n{pad}| none =>\n{kelse(e1, ind + 1)}\n'
                        f'{pad}| some {nm} =>\n{pad}  if {nm} ≠ 0 then\n{kthen(e2, ind + 2)}\n'
                        f'{pad}  else\n{kelse(e2, ind + 2)}')
            if ty in ('sum', 'pair'):
                raise Untranslatable(f'truthiness of {test.id}: {ty}')
            if ty == 'exp':
                raise Untranslatable('truthiness of `expected` (0, None and () are all falsy)')
        raise Untranslatable('condition ' + ast.dump(test)[:80])


def translate():
    fn = find_helper()
    args = [a.arg for a in fn.args.args]
    if args != ['name', 'value', 'expected'] or fn.args.vararg or fn.args.kwarg or fn.args.kwonlyargs:
        raise Untranslatable(f'signature of valuediff_msg: {args}')
    env = {'name': ('name', 'skip'), 'value': ('value', 'opt'), 'expected': ('expected', 'exp')}
    body = TrSig().block(fn.body, env, 1)
    return ('def sigValueDiff (value : Option Nat) (expected : Option (Nat ⊕ (Option Nat × Option Nat))) : Bool :=\n'
            + body)


def main_sig(outfile, write_if_changed=None):
    L = ['/- GENERATED by tools/py2lean_sig.py (via tools/py2lean.py) from the Python source of edzed -- do not edit -/',
         '', 'namespace Edzed.Gen.Tr', '']
    doc = 'CBlock.check_signature.<locals>.valuediff_msg'
    try:
        text = translate()
        L.append(f'/-- translated from `{doc}`: `true` = a message is returned (the item does not match) -/')
        L.append(text)
    except Exception as err:
        L.append(f"-- UNTRANSLATABLE `{doc}`: definition `sigValueDiff` omitted ({' '.join(str(err).split())[:200]})")
        print(f'UNTRANSLATABLE sigValueDiff ({doc}): {err}')
    L += ['', 'end Edzed.Gen.Tr']
    text = '\n'.join(L) + '\n'
    if write_if_changed is not None:
        write_if_changed(outfile, text)
        return
    try:
        with open(outfile, encoding='utf-8') as f:
            if f.read() == text:
                return
    except FileNotFoundError:
        pass
    tmp = outfile + '.tmp'
    with open(tmp, 'w', encoding='utf-8') as f:
        f.write(text)
    os.replace(tmp, outfile)


if __name__ == '__main__':
    import sys
    sys.path.insert(0, os.environ.get('EDZED_SRC', '/repo'))
    main_sig(sys.argv[1])
