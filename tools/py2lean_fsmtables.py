"""
Translator module for the class-creation and instance-creation side of the FSM (called from tools/py2lean.py: main()).

Regenerates lean/EdzedModel/Gen/TranslatedFsmTables.lean from the CURRENT source of edzed/fsm.py:

    FSM._check_state, FSM._build_tables (with its local function add_transition), FSM.__init__,
    FSM._send_events, FSM._run_cb, FSM._event

Every method becomes a PROGRAM in a small monad (state = the attributes of the class / the block, exceptions,
early `return`, `break` / `continue`); statement order, conditions, loops, `try/except/else` with its exception
classes, raises and the arguments of calls all come from the AST.  Declared is only the meaning of the leaves:

    cls.X / self.X                      a field of the record `Obj` (table FIELDS: name and static type)
    dict / set / defaultdict / str ops  operations on association lists (the fixed prelude) or primitives
    block.check_name, utils.time_period, block.event_tuple, str.split/strip/startswith/removeprefix/slicing,
    callable, cb() / cb(self), event.send(self, …), super().__init__, kwargs.pop / setdefault,
    contextvars.copy_context().run, self._ctx_event             primitives (structure `Prims`) / fixed prelude
    self.log_*(…)                       ignored when the arguments are effect-free

Typing is part of the declaration and decides how a test is translated, so that no two Python tests that differ
on a reachable value share a Lean term: truthiness per static type (sequence, dict, list, bool; refused elsewhere),
`is None` only for None-or-value types, `is UNDEF` only for UNDEF-or-value types, `==` only on strings,
`in` per container type (set, dict keys, the containers `_ct_prefixes` refers to, `self._duration` through its
alias), `isinstance` only where the static type is a declared union.  Every operation that can raise
(subscripts, unpacking, the primitives) is may-raise, so its position relative to `try` is part of the program.
Aliasing that matters is modelled: `self._duration = self._ct_default_duration` (no copy) shares the class's dict,
`cb_dict = cls._ct_methods[cb_type]` is a place, the `_ct_prefixes` tuples hold references to the tables.

Anything outside this subset: UNTRANSLATABLE, the definition (and every definition that calls it) is omitted and
the theorems `TrTie.translated_fsm03_…` of EdzedProps/C03.lean that mention it stop compiling.
"""
import ast
import inspect
import json
import os
import textwrap


class Untranslatable(Exception):
    pass


def U(msg, node=None):
    where = f' (line {node.lineno})' if node is not None and hasattr(node, 'lineno') else ''
    return Untranslatable(msg + where)


# ---------------------------------------------------------------- types

def L(t):
    return ('List', t)


def T(*ts):
    return ('Tup', tuple(ts))


def D(k, v):
    return ('Dict', k, v)


LEAN_ATOM = {
    'Str': 'String', 'OStr': 'Option String', 'UStr': 'Option String', 'Nat': 'Nat', 'Bool': 'Bool', 'Unit': 'Unit',
    'StatesAttr': 'StatesAttr', 'FromSpec': 'FromSpec', 'TimEv': 'TimEv', 'DurSpec': 'δ', 'ODu': 'Option Du',
    'Du': 'Du', 'Attr': 'α', 'Kw': 'κ', 'OKw': 'Option κ', 'Val': 'Val', 'Ev': 'ε', 'Msg': 'String',
    'TableRef': 'TableRef', 'DurRef': 'DurRef Du', 'Set': 'List String', 'EType': 'η', 'Data': 'Data',
}


def lty(t):
    if isinstance(t, str):
        return LEAN_ATOM[t]
    if t[0] == 'List':
        return f'List ({lty(t[1])})'
    if t[0] == 'Tup':
        return ' × '.join(f'({lty(x)})' if not isinstance(x, str) else lty(x) for x in t[1])
    if t[0] == 'Dict':
        return f'List (({lty(t[1])}) × ({lty(t[2])}))'
    raise U(f'type {t}')


# attribute of cls / self -> (field of Obj, type)
FIELDS = {
    'STATES': ('STATES', 'StatesAttr'),
    'EVENTS': ('EVENTS', L(T('Str', 'FromSpec', 'OStr'))),
    'TIMERS': ('TIMERS', D('Str', T('DurSpec', 'TimEv'))),
    '_ct_handlers': ('ctHandlers', D('Str', 'Attr')),
    '_ct_states': ('ctStates', 'Set'),
    '_ct_events': ('ctEvents', 'Set'),
    '_ct_transition': ('ctTransition', D(T('Str', 'OStr'), 'OStr')),
    '_ct_default_duration': ('ctDefaultDuration', D('Str', 'ODu')),
    '_ct_timed_event': ('ctTimedEvent', D('Str', 'TimEv')),
    '_ct_methods': ('ctMethods', D('Str', D('Str', 'Attr'))),
    '_ct_prefixes': ('ctPrefixes', L(T('Str', 'Nat', 'TableRef'))),
    '_ct_default_state': ('ctDefaultState', 'Str'),
    '_ct_chainlimit': ('ctChainlimit', 'Nat'),
    '_duration': ('duration', 'DurRef'),
    '_fsm_functions': ('fsmFunctions', D('Str', D('Str', 'Kw'))),
    '_state_events': ('stateEvents', D('Str', D('Str', L('Ev')))),
    '_on_notrans': ('onNotrans', L('Ev')),
    '_state': ('state', 'UStr'),
    '_output': ('output', 'Val'),
    'sdata': ('sdata', D('Str', 'Val')),
    '_timers_enabled': ('timersEnabled', 'Bool'),
    '_fsm_event_active': ('fsmEventActive', 'Bool'),
}
# attributes that are only ever reset: `self.X = None` sets the flag
NONE_FLAGS = {'_active_timer': 'activeTimerNone', '_next_event': 'nextEventNone'}
REF_OF_FIELD = {'ctDefaultDuration': 'TableRef.defaultDuration', 'ctEvents': 'TableRef.events',
                'ctStates': 'TableRef.states'}

# translated methods: python name -> (lean name, parameter types after self/cls, return type ρ)
METHODS = {
    '_check_state': ('checkState', ['Str'], 'Unit'),
    'add_transition': ('addTransition', ['Str', 'OStr', 'OStr'], 'Unit'),
    '_build_tables': ('buildTables', [], 'Unit'),
    '__init__': ('init', [], 'Unit'),
    '_send_events': ('sendEvents', ['Str'], 'Unit'),
    '_run_cb': ('runCb', ['Str', 'Str'], L('Val')),
    '_event': ('event', ['EType', 'Data'], 'Bool'),
}
SELF = ('self', 'cls')
LOGGING = ('log_debug', 'log_info', 'log_warning', 'log_error', 'log_msg')


def strlit(s):
    return json.dumps(s, ensure_ascii=False)


class Var:
    def __init__(self, lean, ty, place=None, slot=None):
        self.lean, self.ty, self.place, self.slot = lean, ty, place, slot


class X:
    """a translated expression: kind 'p' pure, 's' reads the state `o`, 'x' Except-valued (may read `o`),
    'm' a term of the monad"""
    def __init__(self, kind, text, ty, place=None):
        self.kind, self.text, self.ty, self.place = kind, text, ty, place


ORDER = {'p': 0, 's': 1, 'x': 2, 'm': 3}


class Tr:
    def __init__(self, fname, rty, known):
        self.fname, self.rty, self.known = fname, rty, known
        self.n = 0
        self.slots = set()
        self.depth = 0
        self.aux = []

    def fresh(self):
        self.n += 1
        return f'v{self.n}'

    # ------------------------------------------------------------ effect-free check (ignored constructs)
    def effect_free(self, node):
        for sub in ast.walk(node):
            if isinstance(sub, ast.Call):
                f = sub.func
                ok = (isinstance(f, ast.Name) and f.id in ('type', 'repr', 'str', 'len')) or \
                     (isinstance(f, ast.Attribute) and f.attr == 'join' and isinstance(f.value, ast.Constant))
                if not ok:
                    return False
            elif isinstance(sub, (ast.Await, ast.Yield, ast.YieldFrom, ast.NamedExpr, ast.Lambda)):
                return False
            elif isinstance(sub, ast.BinOp) and not isinstance(sub.op, ast.Add):
                return False        # eager `%` formatting can raise
        return True

    # ------------------------------------------------------------ combining
    def combine(self, args, build, kind='p', ty=None):
        """apply an operation of the given kind to translated arguments, evaluated left to right;
        `build(texts)` gives the Lean text of the result (Except-valued for 'x', monadic for 'm')"""
        top = max([ORDER[a.kind] for a in args] + [ORDER[kind]])
        if top <= 1:
            return X('s' if top == 1 else 'p', build([par(a.text) for a in args]), ty)
        if top == 2:
            names, wraps = [], []
            for a in args:
                if a.kind == 'x':
                    v = self.fresh()
                    wraps.append(f'Except.bind ({a.text}) fun {v} => ')
                    names.append(v)
                else:
                    names.append(par(a.text))
            inner = build(names)
            if kind != 'x':
                inner = f'Except.ok ({inner})'
            return X('x', ''.join(wraps) + inner, ty)
        names, wraps = [], []
        for a in args:
            if a.kind == 'p':
                names.append(par(a.text))
                continue
            v = self.fresh()
            wraps.append(f'bind ({self.as_m(a)}) fun {v} => ')
            names.append(v)
        inner = build(names)
        if kind in ('p', 's'):
            inner = f'gets fun o => ({inner})'
        elif kind == 'x':
            inner = f'liftE fun o => ({inner})'
        return X('m', ''.join(wraps) + inner, ty)

    def as_m(self, a):
        if a.kind == 'm':
            return a.text
        if a.kind == 'x':
            return f'liftE fun o => ({a.text})'
        return f'gets fun o => ({a.text})'

    # ------------------------------------------------------------ expressions
    def self_attr(self, node):
        return isinstance(node, ast.Attribute) and isinstance(node.value, ast.Name) and node.value.id in SELF

    def expr(self, node, env, want=None):
        if isinstance(node, ast.Constant):
            v = node.value
            if v is None:
                if want in ('OStr', 'OKw', 'ODu'):
                    return X('p', 'none', want)
                if want == 'FromSpec':
                    return X('p', 'FromSpec.none', want)
                raise U('None without a declared optional type', node)
            if isinstance(v, bool):
                return X('p', 'true' if v else 'false', 'Bool')
            if isinstance(v, str):
                return X('p', strlit(v), 'Str')
            if isinstance(v, int) and v >= 0:
                return X('p', str(v), 'Nat')
            raise U(f'constant {v!r}', node)
        if isinstance(node, ast.Name):
            if node.id in env:
                var = env[node.id]
                if var.slot:
                    raise U(f'local container {node.id} used as a value', node)
                return X('p', var.lean, var.ty, var.place)
            raise U(f'unknown name {node.id}', node)
        if isinstance(node, ast.Attribute):
            if self.self_attr(node):
                if node.attr not in FIELDS:
                    raise U(f'attribute {node.attr}', node)
                f, ty = FIELDS[node.attr]
                return X('s', f'o.{f}', ty, place=('field', f))
            if ast.unparse(node) == 'block.UNDEF':
                if want == 'UStr':
                    return X('p', 'none', 'UStr')
                raise U('UNDEF without a declared UNDEF-or-value type', node)
            if node.attr == 'state':
                a = self.expr(node.value, env)
                if a.ty == 'TimEv':
                    return self.combine([a], lambda t: f'TimEv.state {t[0]}', 'x', 'Str')
            raise U(f'attribute access {ast.unparse(node)}', node)
        if isinstance(node, ast.Tuple):
            items = [self.expr(e, env) for e in node.elts]
            return self.combine(items, lambda t: '(' + ', '.join(t) + ')', 'p', T(*[i.ty for i in items]))
        if isinstance(node, ast.JoinedStr):
            if not self.effect_free(node):
                raise U('message with effects', node)
            return X('p', '"…"', 'Msg')
        if isinstance(node, ast.UnaryOp) and isinstance(node.op, ast.Not):
            a = self.truth(node.operand, env)
            return self.combine([a], lambda t: f'!({t[0]})', 'p', 'Bool')
        if isinstance(node, ast.BoolOp):
            parts = [self.truth(v, env) for v in node.values]
            if any(p.kind in ('x', 'm') for p in parts[1:]):
                raise U('and/or with a may-raise right operand', node)
            op = ' && ' if isinstance(node.op, ast.And) else ' || '
            return self.combine(parts, lambda t: '(' + op.join(t) + ')', 'p', 'Bool')
        if isinstance(node, ast.IfExp):
            c = self.truth(node.test, env)
            a, b = self.expr(node.body, env, want), self.expr(node.orelse, env, want)
            if a.ty != b.ty:
                raise U('conditional expression of two types', node)
            return self.combine([c, a, b], lambda t: f'(if {t[0]} then {t[1]} else {t[2]})', 'p', a.ty)
        if isinstance(node, ast.BinOp) and isinstance(node.op, ast.Mult):
            a, b = self.expr(node.left, env), self.expr(node.right, env)
            if a.ty == b.ty == 'Nat':
                return self.combine([a, b], lambda t: f'({t[0]} * {t[1]})', 'p', 'Nat')
        if isinstance(node, ast.BinOp) and isinstance(node.op, ast.Add) and self.effect_free(node):
            a, b = self.expr(node.left, env), self.expr(node.right, env)
            if a.ty == b.ty == 'Msg':
                return X('p', '"…"', 'Msg')
        if isinstance(node, ast.Compare):
            return self.compare(node, env)
        if isinstance(node, ast.Subscript):
            return self.subscript(node, env)
        if isinstance(node, ast.Call):
            return self.call(node, env, want)
        if isinstance(node, ast.Dict):
            return self.dict_literal(node, env, want)
        if isinstance(node, ast.DictComp):
            return self.dictcomp(node, env)
        if isinstance(node, ast.List):
            items = [self.expr(e, env) for e in node.elts]
            if not items:
                raise U('empty list literal as a value', node)
            if len({repr(i.ty) for i in items}) != 1:
                raise U('list of mixed types', node)
            return self.combine(items, lambda t: '[' + ', '.join(t) + ']', 'p', L(items[0].ty))
        raise U(f'expression {ast.unparse(node)[:60]}', node)

    def truth(self, node, env):
        """the truth value of an expression, by its static type"""
        if isinstance(node, (ast.Compare, ast.BoolOp)) or \
                (isinstance(node, ast.UnaryOp) and isinstance(node.op, ast.Not)):
            return self.expr(node, env)
        a = self.expr(node, env)
        if a.ty == 'Bool':
            return a
        if a.ty == 'StatesAttr':
            return self.combine([a], lambda t: f'({t[0]}).truthy', 'p', 'Bool')
        if isinstance(a.ty, tuple) and a.ty[0] in ('List', 'Dict'):
            return self.combine([a], lambda t: f'!(({t[0]}).isEmpty)', 'p', 'Bool')
        raise U(f'truth value of type {a.ty}', node)

    def compare(self, node, env):
        if len(node.ops) != 1:
            raise U('comparison chain', node)
        op, left, right = node.ops[0], node.left, node.comparators[0]
        neg = isinstance(op, (ast.IsNot, ast.NotIn, ast.NotEq))
        wrap = (lambda s: f'!({s})') if neg else (lambda s: s)
        if isinstance(op, (ast.Is, ast.IsNot)):
            src = ast.unparse(node)
            if ast.unparse(left) == 'type(self)' and ast.unparse(right) == 'FSM':
                return X('s', wrap('o.typeIsFSM'), 'Bool')
            if isinstance(right, ast.Constant) and right.value is None:
                a = self.expr(left, env)
                if a.ty in ('OStr', 'OKw', 'ODu', 'FromSpec'):
                    return self.combine([a], lambda t: wrap(f'({t[0]}).isNone'), 'p', 'Bool')
                raise U(f'`is None` on type {a.ty}', node)
            if ast.unparse(right) == 'block.UNDEF':
                a = self.expr(left, env)
                if a.ty == 'UStr':
                    return self.combine([a], lambda t: wrap(f'({t[0]}).isNone'), 'p', 'Bool')
                raise U(f'`is UNDEF` on type {a.ty}', node)
            raise U(f'identity test {src}', node)
        if isinstance(op, (ast.Eq, ast.NotEq)):
            a, b = self.expr(left, env), self.expr(right, env)
            if a.ty == b.ty == 'Str':
                return self.combine([a, b], lambda t: wrap(f'({t[0]} == {t[1]})'), 'p', 'Bool')
            raise U(f'== on types {a.ty}, {b.ty}', node)
        if isinstance(op, (ast.In, ast.NotIn)):
            a = self.expr(left, env)
            b = self.expr(right, env)
            if b.ty == 'Set' and a.ty == 'Str':
                f = lambda t: wrap(f'({t[1]}).contains {t[0]}')
            elif b.ty == 'Set' and a.ty == 'TimEv':
                f = lambda t: wrap(f'TimEv.inSet {t[0]} {t[1]}')
            elif isinstance(b.ty, tuple) and b.ty[0] == 'Dict' and a.ty == b.ty[1]:
                f = lambda t: wrap(f'dhas {t[1]} {t[0]}')
            elif b.ty == 'DurRef' and a.ty == 'Str':
                return self.combine([a], lambda t: wrap(f'dhas (durDict o) {t[0]}'), 's', 'Bool')
            elif b.ty == 'TableRef' and a.ty == 'Str':
                return self.combine([a, b], lambda t: wrap(f'refContains o {t[1]} {t[0]}'), 's', 'Bool')
            else:
                raise U(f'`in` on types {a.ty}, {b.ty}', node)
            return self.combine([a, b], f, 'p', 'Bool')
        raise U(f'comparison {ast.unparse(node)}', node)

    def subscript(self, node, env):
        if isinstance(node.slice, ast.Slice):
            sl = node.slice
            if sl.lower is not None and sl.upper is None and sl.step is None:
                a, n = self.expr(node.value, env), self.expr(sl.lower, env)
                if a.ty == 'Str' and n.ty == 'Nat':
                    return self.combine([a, n], lambda t: f'p.dropPrefix {t[0]} {t[1]}', 'p', 'Str')
            raise U('slice', node)
        if isinstance(node.value, ast.Name) and node.value.id in env and env[node.value.id].slot == 'tmpDD':
            k = self.expr(node.slice, env)
            if k.ty != 'Str':
                raise U('defaultdict key', node)
            return self.combine([k], lambda t: f'ddget o.tmpDD {t[0]}', 's', L(T('Str', 'Str')))
        a = self.expr(node.value, env)
        if a.ty == 'StatesAttr' and isinstance(node.slice, ast.Constant) and node.slice.value == 0:
            return self.combine([a], lambda t: f'({t[0]}).first', 'x', 'Str')
        if isinstance(a.ty, tuple) and a.ty[0] == 'Dict':
            k = self.expr(node.slice, env)
            place = None
            if a.place and a.place[0] == 'field':
                place = ('sub', a.place[1], k.text)
            base = a
            if a.place and a.place[0] == 'sub':     # read through the alias: the current inner dict
                base = X('s', f'(dlookup o.{a.place[1]} {a.place[2]}).getD []', a.ty)
            if k.ty == a.ty[1]:
                r = self.combine([base, k], lambda t: f'dget {t[0]} {t[1]}', 'x', a.ty[2])
            elif k.ty == 'UStr' and a.ty[1] == 'Str':
                r = self.combine([base, k], lambda t: f'dgetO {t[0]} {t[1]}', 'x', a.ty[2])
            else:
                raise U(f'key of type {k.ty} for {a.ty}', node)
            r.place = place
            return r
        raise U(f'subscript of type {a.ty}', node)

    def dict_literal(self, node, env, want):
        if not node.keys:
            return X('p', '[]', want or 'EmptyDict')
        keys = []
        for k in node.keys:
            if not (isinstance(k, ast.Constant) and isinstance(k.value, str)):
                raise U('dict literal key', node)
            keys.append(strlit(k.value))
        vty = want[2] if isinstance(want, tuple) and want[0] == 'Dict' else None
        vals = [self.expr(v, env, vty) for v in node.values]
        for v in vals:
            if v.ty == 'EmptyDict':
                v.ty = vty
        if len({repr(v.ty) for v in vals}) != 1:
            raise U('dict literal of mixed types', node)
        return self.combine(vals, lambda t: '[' + ', '.join(f'({k}, {x})' for k, x in zip(keys, t)) + ']',
                            'p', D('Str', vals[0].ty))

    def pattern(self, target, ty, env):
        """a loop / comprehension target: Lean pattern and the extended environment"""
        env = dict(env)
        if isinstance(target, ast.Name):
            v = self.fresh()
            env[target.id] = Var(v, ty)
            return v, env
        if isinstance(target, ast.Tuple) and isinstance(ty, tuple) and ty[0] == 'Tup' and len(ty[1]) == len(target.elts):
            pats = []
            for el, t in zip(target.elts, ty[1]):
                p, env = self.pattern(el, t, env)
                pats.append(p)
            return '(' + ', '.join(pats) + ')', env
        raise U(f'target {ast.unparse(target)} for type {ty}', target)

    def iterable(self, node, env):
        """the list a `for` iterates over and its element type"""
        if isinstance(node, ast.Call) and isinstance(node.func, ast.Attribute) and node.func.attr == 'items' \
                and not node.args:
            a = self.expr(node.func.value, env)
            if isinstance(a.ty, tuple) and a.ty[0] == 'Dict':
                return a, T(a.ty[1], a.ty[2])
            raise U('.items() of a non-dict', node)
        if isinstance(node, ast.Name) and node.id == 'kwargs':
            return X('s', 'o.kwargs.map (·.1)', L('Str')), 'Str'
        a = self.expr(node, env)
        if a.ty == 'Set':
            return a, 'Str'
        if a.ty == 'FromSpec':
            return self.combine([a], lambda t: f'FromSpec.items {t[0]}', 'x', L('Str')), 'Str'
        if isinstance(a.ty, tuple) and a.ty[0] == 'List':
            return a, a.ty[1]
        if isinstance(a.ty, tuple) and a.ty[0] == 'Dict':
            return self.combine([a], lambda t: f'({t[0]}).map (·.1)', 'p', L(a.ty[1])), a.ty[1]
        raise U(f'iteration over type {a.ty}', node)

    def dictcomp(self, node, env):
        if len(node.generators) != 1 or node.generators[0].is_async:
            raise U('comprehension', node)
        g = node.generators[0]
        it, elty = self.iterable(g.iter, env)
        pat, env2 = self.pattern(g.target, elty, env)
        conds = [self.truth(c, env2) for c in g.ifs]
        if any(c.kind not in ('p',) for c in conds):
            raise U('comprehension condition reading the state', node)
        k, v = self.expr(node.key, env2), self.expr(node.value, env2)
        if k.kind != 'p':
            raise U('comprehension key', node)
        src = f'{{IT}}'
        flt = ''.join(f'.filter (fun {pat} => {c.text})' for c in conds)
        ty = D(k.ty, v.ty)
        if v.kind == 'p':
            return self.combine([it], lambda t: f'dofPairs ((({t[0]}){flt}).map fun {pat} => ({k.text}, {v.text}))',
                                'p', ty)
        body = f'bind ({self.as_m(v)}) fun r => pure ({k.text}, r)'
        r = self.combine([it], lambda t: f'bind (forMapM (({t[0]}){flt}) fun {pat} => {body}) fun l => pure (dofPairs l)',
                         'm', ty)
        return r

    def call(self, node, env, want=None):
        f = node.func
        src = ast.unparse(f)
        args = node.args
        nkw = len(node.keywords)
        if isinstance(f, ast.Name):
            if f.id == 'isinstance' and len(args) == 2 and not nkw:
                a, cls = self.expr(args[0], env), ast.unparse(args[1])
                if cls == 'str' and a.ty in ('StatesAttr', 'FromSpec'):
                    return self.combine([a], lambda t: f'({t[0]}).isStr', 'p', 'Bool')
                if cls == 'Goto' and a.ty == 'TimEv':
                    return self.combine([a], lambda t: f'({t[0]}).isGoto', 'p', 'Bool')
                raise U(f'isinstance({a.ty}, {cls})', node)
            if f.id == 'callable' and len(args) == 1:
                a = self.expr(args[0], env)
                if a.ty == 'Attr':
                    return self.combine([a], lambda t: f'p.callable {t[0]}', 'p', 'Bool')
            if f.id == 'len' and len(args) == 1:
                a = self.expr(args[0], env)
                if a.ty == 'Set' or (isinstance(a.ty, tuple) and a.ty[0] in ('List', 'Dict')):
                    return self.combine([a], lambda t: f'({t[0]}).length', 'p', 'Nat')
            if f.id == 'set':
                if not args:
                    return X('p', '([] : List String)', 'Set')
                a = self.expr(args[0], env)
                if a.ty == 'StatesAttr':
                    return self.combine([a], lambda t: f'sofList ({t[0]}).items', 'p', 'Set')
            if f.id == 'vars' and len(args) == 1 and isinstance(args[0], ast.Name) and args[0].id in SELF:
                return X('s', 'o.classVars', D('Str', 'Attr'))
            if f.id == 'next' and len(args) == 1 and isinstance(args[0], ast.Call) \
                    and ast.unparse(args[0].func) == 'iter' and len(args[0].args) == 1:
                a = self.expr(args[0].args[0], env)
                if isinstance(a.ty, tuple) and a.ty[0] == 'Dict':
                    return self.combine([a], lambda t: f'dfirstKey {t[0]}', 'x', a.ty[1])
            if f.id in self.known and f.id in env and env[f.id].ty == 'Fn':
                return self.call_method(f.id, args, env, node)
            if f.id in env and not args and not nkw and env[f.id].ty == 'Kw':
                return X('m', f'callFunc p {env[f.id].lean}', 'Val')
            if f.id in env and len(args) == 1 and isinstance(args[0], ast.Name) and args[0].id == 'self' \
                    and env[f.id].ty == 'Attr':
                return X('m', f'callMeth p {env[f.id].lean}', 'Val')
            raise U(f'call of {f.id}', node)
        if src == 'block.check_name' and len(args) == 2 and isinstance(args[1], ast.Constant):
            a = self.expr(args[0], env)
            if a.ty == 'Str':
                return self.combine([a], lambda t: f'p.checkName {t[0]} {strlit(args[1].value)}', 'x', 'Unit')
        if src == 'utils.time_period' and len(args) == 1:
            a = self.expr(args[0], env)
            if a.ty == 'DurSpec':
                return self.combine([a], lambda t: f'p.timePeriod {t[0]}', 'x', 'ODu')
            if a.ty == 'Kw':
                return self.combine([a], lambda t: f'p.timePeriodKw {t[0]}', 'x', 'ODu')
        if src == 'block.event_tuple' and len(args) == 1:
            a = self.expr(args[0], env, 'OKw')
            if a.ty == 'Kw':
                return self.combine([a], lambda t: f'p.eventTuple (some {t[0]})', 'x', L('Ev'))
            if a.ty == 'OKw':
                return self.combine([a], lambda t: f'p.eventTuple {t[0]}', 'x', L('Ev'))
        if src == 'kwargs.pop' and len(args) == 1:
            a = self.expr(args[0], env)
            if a.ty == 'Str':
                return self.combine([a], lambda t: f'kwPop {t[0]}', 'm', 'Kw')
        if src == 'contextvars.copy_context().run' and len(args) == 3 and ast.unparse(args[0]) == 'self._ctx_event':
            a, b = self.expr(args[1], env), self.expr(args[2], env)
            if (a.ty, b.ty) == ('EType', 'Data'):
                return self.combine([a, b], lambda t: f'copyContextRun (ctxEventCall p {t[0]} {t[1]})', 'm', 'Bool')
        if src == 'self._ctx_event' and len(args) == 2:
            a, b = self.expr(args[0], env), self.expr(args[1], env)
            if (a.ty, b.ty) == ('EType', 'Data'):
                return self.combine([a, b], lambda t: f'ctxEventCall p {t[0]} {t[1]}', 'm', 'Bool')
        if isinstance(f, ast.Attribute) and isinstance(f.value, ast.Name) and f.value.id in SELF \
                and f.attr in self.known:
            return self.call_method(f.attr, args, env, node)
        if isinstance(f, ast.Attribute):
            m = f.attr
            if m == 'join' and self.effect_free(node):
                return X('p', '"…"', 'Msg')
            a = self.expr(f.value, env)
            cargs = [] if m == 'send' else [self.expr(x, env) for x in args]
            if a.ty == 'Str' and m == 'split' and len(cargs) == 1 and cargs[0].ty == 'Str':
                return self.combine([a, cargs[0]], lambda t: f'p.split {t[0]} {t[1]}', 'p', L('Str'))
            if a.ty == 'FromSpec' and m == 'split' and len(cargs) == 1 and cargs[0].ty == 'Str':
                return self.combine([a, cargs[0]], lambda t: f'FromSpec.split p.split {t[0]} {t[1]}', 'x', L('Str'))
            if a.ty == 'Str' and m == 'split' and len(cargs) == 2 and isinstance(args[1], ast.Constant) \
                    and args[1].value == 1:
                return self.combine([a, cargs[0]], lambda t: f'p.splitOnce {t[0]} {t[1]}', 'p', L('Str'))
            if a.ty == 'Str' and m == 'strip' and not cargs:
                return self.combine([a], lambda t: f'p.strip {t[0]}', 'p', 'Str')
            if a.ty == 'Str' and m == 'startswith' and len(cargs) == 1 and cargs[0].ty == 'Str':
                return self.combine([a, cargs[0]], lambda t: f'p.startsWith {t[0]} {t[1]}', 'p', 'Bool')
            if a.ty == 'Str' and m == 'removeprefix' and len(cargs) == 1 and cargs[0].ty == 'Str':
                return self.combine([a, cargs[0]], lambda t: f'p.removePrefix {t[0]} {t[1]}', 'p', 'Str')
            if a.ty == 'Set' and m == 'union' and len(cargs) == 1:
                b = cargs[0]
                if b.ty == 'Set':
                    return self.combine([a, b], lambda t: f'sunion {t[0]} {t[1]}', 'p', 'Set')
                if isinstance(b.ty, tuple) and b.ty[0] == 'Dict' and b.ty[1] == 'Str':
                    return self.combine([a, b], lambda t: f'sunion {t[0]} (({t[1]}).map (·.1))', 'p', 'Set')
            if m == 'copy' and not cargs and a.place == ('field', 'ctDefaultDuration') and want == 'DurRef':
                return X('s', 'DurRef.own o.ctDefaultDuration', 'DurRef')
            if a.ty == 'Ev' and m == 'send' and len(args) == 1 and ast.unparse(args[0]) == 'self':
                kws = []
                for kw in node.keywords:
                    if kw.arg is None:
                        raise U('**kw in send', node)
                    v = self.expr(kw.value, env)
                    con = {'Str': 'Arg.str', 'UStr': 'Arg.ostr', 'OStr': 'Arg.ostr', 'Val': 'Arg.val',
                           repr(D('Str', 'Val')): 'Arg.sdata'}.get(v.ty if isinstance(v.ty, str) else repr(v.ty))
                    if con is None:
                        raise U(f'send item of type {v.ty}', node)
                    kws.append((kw.arg, con, v))
                return self.combine([a] + [v for _, _, v in kws],
                                    lambda t: f'sendEvent {t[0]} [' + ', '.join(
                                        f'({strlit(n)}, {c} ({x}))' for (n, c, _), x in zip(kws, t[1:])) + ']',
                                    'm', 'Unit')
        raise U(f'call {src}', node)

    def call_method(self, name, args, env, node):
        lean, ptys, rty = METHODS[name]
        if rty != 'Unit':
            raise U(f'call of {name} as a procedure', node)
        if len(args) != len(ptys):
            raise U(f'arguments of {name}', node)
        targs = []
        for a, pt in zip(args, ptys):
            x = self.expr(a, env, pt)
            if x.ty != pt:
                if pt == 'OStr' and x.ty == 'Str':
                    x = self.combine([x], lambda t: f'(some {t[0]})', 'p', 'OStr')
                else:
                    raise U(f'argument of type {x.ty} for {pt} in call of {name}', node)
            targs.append(x)
        return self.combine(targs, lambda t: f'callProc ({lean} p ' + ' '.join(f'({x})' for x in t) + ')', 'm', 'Unit')

    # ------------------------------------------------------------ statements
    def block(self, stmts, env, k):
        """translate a statement list; `k(env)` gives the text of what follows (type M σ ρ Unit)"""
        if not stmts:
            return k(env)
        s, rest = stmts[0], stmts[1:]
        nxt = lambda e: self.block(rest, e, k)
        if isinstance(s, ast.Expr) and isinstance(s.value, ast.Constant) and isinstance(s.value.value, str):
            return nxt(env)
        if isinstance(s, ast.Pass):
            return nxt(env)
        if isinstance(s, ast.AnnAssign) and s.value is None:
            return nxt(env)
        if isinstance(s, ast.Expr) and isinstance(s.value, ast.Call):
            c = s.value
            if isinstance(c.func, ast.Attribute) and self.self_attr(c.func) and c.func.attr in LOGGING:
                if not all(self.effect_free(a) for a in list(c.args) + [kw.value for kw in c.keywords]):
                    raise U('logging call with effects', s)
                return nxt(env)
            return self.seq(self.expr_stmt(c, env), nxt(env))
        if isinstance(s, ast.Assert):
            c = self.truth(s.test, env)
            if s.msg is not None and not self.effect_free(s.msg):
                raise U('assert message with effects', s)
            return self.seq(self.cond(c, 'skip', 'raise "AssertionError"'), nxt(env))
        if isinstance(s, ast.Raise):
            return self.raise_(s)
        if isinstance(s, ast.Return):
            if s.value is None or (isinstance(s.value, ast.Constant) and s.value.value is None):
                if self.rty != 'Unit':
                    raise U('return None', s)
                return 'ret ()'
            if isinstance(s.value, ast.Name) and s.value.id in env and env[s.value.id].slot == 'tmpList':
                return 'bind (gets fun o => o.tmpList) fun r => ret r'
            v = self.expr(s.value, env)
            if v.ty != self.rty:
                raise U(f'return of type {v.ty}', s)
            r = self.fresh()
            return f'bind ({self.as_m(v)}) fun {r} => ret {r}'
        if isinstance(s, ast.Continue):
            return 'cont'
        if isinstance(s, ast.Break):
            return 'brk'
        if isinstance(s, (ast.Assign, ast.AnnAssign)):
            targets = s.targets if isinstance(s, ast.Assign) else [s.target]
            if len(targets) != 1:
                raise U('multiple assignment', s)
            return self.assign(targets[0], s.value, env, nxt, s)
        if isinstance(s, ast.If):
            return self.if_(s, env, rest, k)
        if isinstance(s, ast.For):
            if s.orelse:
                raise U('for-else', s)
            it, elty = self.iterable(s.iter, env)
            pat, env2 = self.pattern(s.target, elty, env)
            top = self.depth == 0
            self.depth += 1
            body = self.block(s.body, env2, lambda e: 'skip')
            self.depth -= 1
            v = self.fresh()
            if top:
                # the body of a top-level loop becomes a definition of its own
                name = f'{self.fname}Loop{len(self.aux)}'
                locs = [(x.lean, lty(x.ty)) for x in env.values() if not x.slot and x.ty != 'Fn']
                sig = ''.join(f' ({n} : {t})' for n, t in locs)
                self.aux.append(
                    f'/-- part of `{self.fname}`: the body of a `for` statement -/\n'
                    f'def {name} (p : Prims δ Du κ α ε χ η){sig} :\n'
                    f'    ({lty(elty)}) → M (Obj δ Du κ α ε χ) ({lty(self.rty)}) Unit :=\n'
                    f'  fun {pat} =>\n{ind(body, 4)}')
                call = f'{name} p' + ''.join(f' {n}' for n, _ in locs)
                loop = f'bind ({self.as_m(it)}) fun {v} => forEach {v} ({call})'
            else:
                loop = f'bind ({self.as_m(it)}) fun {v} => forEach {v} fun {pat} =>\n{ind(body)}'
            return self.seq(loop, nxt(env))
        if isinstance(s, ast.Try):
            return self.try_(s, env, rest, k)
        if isinstance(s, ast.FunctionDef):
            env = dict(env)
            env[s.name] = Var(s.name, 'Fn')
            return nxt(env)
        raise U(f'statement {type(s).__name__}', s)

    def seq(self, a, b):
        return f'seq ({a})\n({b})'

    def cond(self, c, a, b):
        if c.kind in ('p', 's'):
            return f'fun o => if {c.text} then ({a}) o else ({b}) o'
        v = self.fresh()
        return f'bind ({self.as_m(c)}) fun {v} => if {v} then ({a}) else ({b})'

    def raise_(self, s):
        if s.exc is None:
            raise U('bare raise', s)
        e = s.exc
        if isinstance(e, ast.Call) and isinstance(e.func, ast.Name):
            if not all(self.effect_free(a) for a in e.args):
                raise U('exception message with effects', s)
            name = e.func.id
        elif isinstance(e, ast.Name):
            name = e.id
        else:
            raise U('raise', s)
        if s.cause is not None and not (isinstance(s.cause, ast.Constant) and s.cause.value is None):
            raise U('raise … from', s)
        return f'raise {strlit(name)}'

    def expr_stmt(self, c, env):
        f = c.func
        src = ast.unparse(f)
        if isinstance(f, ast.Attribute) and f.attr == 'append' and len(c.args) == 1:
            tgt = f.value
            if isinstance(tgt, ast.Name) and tgt.id in env and env[tgt.id].slot == 'tmpList':
                v = self.expr(c.args[0], env)
                if v.ty != 'Val':
                    raise U(f'append of type {v.ty}', c)
                x = self.fresh()
                return f'bind ({self.as_m(v)}) fun {x} => modify fun o => {{ o with tmpList := o.tmpList ++ [{x}] }}'
            if isinstance(tgt, ast.Subscript) and isinstance(tgt.value, ast.Name) and tgt.value.id in env \
                    and env[tgt.value.id].slot == 'tmpDD':
                kx, v = self.expr(tgt.slice, env), self.expr(c.args[0], env)
                if kx.ty != 'Str' or v.ty != T('Str', 'Str') or kx.kind != 'p' or v.kind != 'p':
                    raise U('defaultdict append', c)
                return f'modify fun o => {{ o with tmpDD := ddappend o.tmpDD {kx.text} {v.text} }}'
        if isinstance(f, ast.Attribute) and f.attr == 'add' and len(c.args) == 1 and self.self_attr(f.value):
            fld, ty = FIELDS.get(f.value.attr, (None, None))
            v = self.expr(c.args[0], env)
            if ty == 'Set' and v.ty == 'Str' and v.kind == 'p':
                return f'modify fun o => {{ o with {fld} := sadd o.{fld} {v.text} }}'
        if src == 'kwargs.setdefault' and len(c.args) == 2 and isinstance(c.args[0], ast.Constant) \
                and c.args[0].value == 'initdef':
            v = self.expr(c.args[1], env)
            if v.ty == 'Str':
                x = self.fresh()
                return f'bind ({self.as_m(v)}) fun {x} => kwSetdefaultInitdef {x}'
        if src == 'super().__init__' and [ast.unparse(a) for a in c.args] == ['*args'] \
                and [(kw.arg, ast.unparse(kw.value)) for kw in c.keywords] == [(None, 'kwargs')]:
            return 'superInit'
        v = self.expr(c, env)
        if v.ty not in ('Unit', 'Val'):
            raise U(f'expression statement of type {v.ty}', c)
        return f'bind ({self.as_m(v)}) fun _ => skip'

    def assign(self, target, value, env, nxt, s):
        # local containers
        if isinstance(target, ast.Name):
            if isinstance(value, ast.List) and not value.elts:
                return self.slot(target.id, 'tmpList', '[]', env, nxt, s)
            if isinstance(value, ast.Call) and ast.unparse(value) == 'collections.defaultdict(list)':
                return self.slot(target.id, 'tmpDD', '[]', env, nxt, s)
            v = self.expr(value, env)
            if isinstance(v.ty, str) and v.ty in ('EmptyDict', 'Fn'):
                raise U('untyped local', s)
            name = self.fresh()
            env = dict(env)
            env[target.id] = Var(name, v.ty, v.place)
            return f'bind ({self.as_m(v)}) fun {name} =>\n{nxt(env)}'
        if isinstance(target, ast.Tuple) and all(isinstance(e, ast.Name) for e in target.elts):
            v = self.expr(value, env)
            if len(target.elts) == 2 and v.ty == L('Str'):
                v = self.combine([v], lambda t: f'unpack2 {t[0]}', 'x', T('Str', 'Str'))
            pat, env2 = self.pattern(target, v.ty, env)
            return f'bind ({self.as_m(v)}) fun {pat} =>\n{nxt(env2)}'
        if isinstance(target, ast.Attribute) and self.self_attr(target):
            if target.attr in NONE_FLAGS:
                if isinstance(value, ast.Constant) and value.value is None:
                    return self.seq(f'modify fun o => {{ o with {NONE_FLAGS[target.attr]} := true }}', nxt(env))
                raise U(f'{target.attr} = …', s)
            if target.attr not in FIELDS:
                raise U(f'assignment to attribute {target.attr}', s)
            fld, ty = FIELDS[target.attr]
            if ty == 'DurRef' and self.self_attr(value) and FIELDS.get(value.attr, ('',))[0] == 'ctDefaultDuration':
                return self.seq(f'modify fun o => {{ o with {fld} := DurRef.shared }}', nxt(env))
            if isinstance(value, ast.List) and isinstance(ty, tuple) and ty == L(T('Str', 'Nat', 'TableRef')):
                v = self.prefixes(value, env)
            else:
                v = self.expr(value, env, ty)
            if v.ty == 'EmptyDict':
                v.ty = ty
            if v.ty != ty:
                raise U(f'{target.attr} = value of type {v.ty}', s)
            x = self.fresh()
            return self.seq(f'bind ({self.as_m(v)}) fun {x} => modify fun o => {{ o with {fld} := {x} }}', nxt(env))
        if isinstance(target, ast.Subscript):
            base = target.value
            kx = self.expr(target.slice, env)
            if self.self_attr(base) and base.attr in FIELDS:
                fld, ty = FIELDS[base.attr]
                if ty == 'DurRef':
                    v = self.expr(value, env)
                    if kx.ty == 'Str' and v.ty in ('ODu', 'Du'):
                        val = v if v.ty == 'ODu' else self.combine([v], lambda t: f'(some {t[0]})', 'p', 'ODu')
                        r = self.combine([kx, val], lambda t: f'modify fun o => durSet o {t[0]} {t[1]}', 'm', 'Unit')
                        return self.seq(r.text, nxt(env))
                if isinstance(ty, tuple) and ty[0] == 'Dict':
                    v = self.expr(value, env, ty[2])
                    if kx.ty == ty[1] and v.ty == ty[2]:
                        r = self.combine([kx, v], lambda t: f'modify fun o => {{ o with {fld} := dset o.{fld} {t[0]} {t[1]} }}',
                                         'm', 'Unit')
                        return self.seq(r.text, nxt(env))
            if isinstance(base, ast.Name) and base.id in env and env[base.id].place \
                    and env[base.id].place[0] == 'sub':
                _, fld, k1 = env[base.id].place
                inner = env[base.id].ty
                v = self.expr(value, env)
                if kx.ty == inner[1] and v.ty == inner[2]:
                    r = self.combine([kx, v], lambda t: f'modify fun o => {{ o with {fld} := dset2 o.{fld} {k1} {t[0]} {t[1]} }}',
                                     'm', 'Unit')
                    return self.seq(r.text, nxt(env))
        raise U(f'assignment {ast.unparse(target)} = …', s)

    def slot(self, name, slot, init, env, nxt, s):
        if slot in self.slots:
            raise U(f'second local container of kind {slot}', s)
        self.slots.add(slot)
        env = dict(env)
        env[name] = Var(name, slot, slot=slot)
        return self.seq(f'modify fun o => {{ o with {slot} := {init} }}', nxt(env))

    def prefixes(self, value, env):
        rows = []
        for el in value.elts:
            if not (isinstance(el, ast.Tuple) and len(el.elts) == 3):
                raise U('_ct_prefixes row', el)
            a, b, c = el.elts
            if not (isinstance(a, ast.Constant) and isinstance(a.value, str)
                    and isinstance(b, ast.Constant) and isinstance(b.value, int) and self.self_attr(c)):
                raise U('_ct_prefixes row', el)
            ref = REF_OF_FIELD.get(FIELDS.get(c.attr, ('',))[0])
            if ref is None:
                raise U(f'_ct_prefixes refers to {c.attr}', el)
            rows.append(f'({strlit(a.value)}, {b.value}, {ref})')
        return X('p', '[' + ', '.join(rows) + ']', L(T('Str', 'Nat', 'TableRef')))

    def assigned_locals(self, stmts):
        out = []
        for s in stmts:
            for sub in ast.walk(s):
                if isinstance(sub, (ast.Assign, ast.AnnAssign)):
                    for t in (sub.targets if isinstance(sub, ast.Assign) else [sub.target]):
                        for n in ast.walk(t):
                            if isinstance(n, ast.Name) and isinstance(n.ctx, ast.Store) and n.id not in out:
                                out.append(n.id)
        return out

    def inner(self, stmts, env, k):
        """a block nested in a compound statement"""
        self.depth += 1
        try:
            return self.block(stmts, env, k)
        finally:
            self.depth -= 1

    def outer(self, stmts, env, k):
        """what follows a compound statement, translated inside one of its branches"""
        d, self.depth = self.depth, max(self.depth - 1, 0)
        try:
            return self.block(stmts, env, k)
        finally:
            self.depth = d

    def if_(self, s, env, rest, k):
        # narrowing of an optional local: `if x is [not] None:`
        t = s.test
        if isinstance(t, ast.Compare) and len(t.ops) == 1 and isinstance(t.ops[0], (ast.Is, ast.IsNot)) \
                and isinstance(t.left, ast.Name) and t.left.id in env and env[t.left.id].ty == 'OStr' \
                and isinstance(t.comparators[0], ast.Constant) and t.comparators[0].value is None:
            var = env[t.left.id]
            some_body, none_body = (s.body, s.orelse) if isinstance(t.ops[0], ast.IsNot) else (s.orelse, s.body)
            if self.assigned_locals(s.body + s.orelse):
                raise U('assignment under an `is None` test', s)
            v = self.fresh()
            env_some = dict(env)
            env_some[t.left.id] = Var(v, 'Str')
            a = self.inner(some_body, env_some, lambda e: 'skip')
            b = self.inner(none_body, env, lambda e: 'skip')
            m = f'match {var.lean} with\n  | some {v} =>\n{ind(a, 4)}\n  | none =>\n{ind(b, 4)}'
            return self.seq(m, self.block(rest, env, k))
        c = self.truth(t, env)
        later = {n.id for st in rest for n in ast.walk(st) if isinstance(n, ast.Name) and isinstance(n.ctx, ast.Load)}
        if later & set(self.assigned_locals(s.body + s.orelse)):
            # a local is (re)bound in a branch: what follows is translated once per branch, with its types
            a = self.inner(s.body, env, lambda e: self.outer(rest, e, k))
            b = self.inner(s.orelse, env, lambda e: self.outer(rest, e, k))
            return self.cond(c, a, b)
        a = self.inner(s.body, env, lambda e: 'skip')
        b = self.inner(s.orelse, env, lambda e: 'skip')
        return self.seq(self.cond(c, a, b), self.block(rest, env, k))

    def terminal(self, stmts):
        return bool(stmts) and isinstance(stmts[-1], (ast.Continue, ast.Return, ast.Raise, ast.Break))

    def try_(self, s, env, rest, k):
        if s.finalbody:
            raise U('try-finally', s)
        clauses = []
        for h in s.handlers:
            if h.type is None:
                raise U('bare except', s)
            names = [h.type] if not isinstance(h.type, ast.Tuple) else list(h.type.elts)
            if not all(isinstance(n, ast.Name) for n in names):
                raise U('except clause', s)
            henv = dict(env)
            if h.name:
                henv[h.name] = Var('e', 'Msg')
            test = ' || '.join(f'excIsA e {strlit(n.id)}' for n in names)
            clauses.append((test, self.inner(h.body, henv, lambda e: 'skip')))
        handler = 'fun e => ' + ' else '.join(f'if {t} then some ({b})' for t, b in clauses) + ' else none'
        all_terminal = all(self.terminal(h.body) for h in s.handlers)
        bound = self.assigned_locals(s.body)
        # the body hands the locals it binds to `else:` (and, when every handler leaves, to what follows)
        holder = {}

        def body_end(e):
            holder['env'] = e
            vals = [e[n].lean for n in bound]
            return 'pure (' + ', '.join(vals) + ')' if vals else 'pure ()'
        body = self.inner(s.body, env, body_end)
        benv = holder.get('env')
        if benv is None:
            raise U('try body never falls through', s)
        pats, env2 = [], dict(env)
        renamed = {}
        for n in bound:
            v = self.fresh()
            pats.append(v)
            renamed[benv[n].lean] = v
        for n, v in zip(bound, pats):
            place = benv[n].place
            if place and place[0] == 'sub' and place[2] in renamed:
                place = ('sub', place[1], renamed[place[2]])
            env2[n] = Var(v, benv[n].ty, place)
        pat = '(' + ', '.join(pats) + ')' if pats else '_'
        if all_terminal:
            els = self.inner(s.orelse, env2, lambda e: self.outer(rest, e, k))
            return f'tryElse ({body})\n  ({handler})\n  (fun {pat} =>\n{ind(els, 4)})'
        els = self.inner(s.orelse, env2, lambda e: 'skip')
        t = f'tryElse ({body})\n  ({handler})\n  (fun {pat} =>\n{ind(els, 4)})'
        return self.seq(t, self.block(rest, env, k))


def par(text):
    """parenthesise a term that is not atomic"""
    t = text.strip()
    if ' ' not in t or (t[0] == '(' and t[-1] == ')' and balanced(t[1:-1])) or (t[0] == '[' and t[-1] == ']') \
            or (t[0] == '"' and t[-1] == '"' and t.count('"') == 2):
        return t
    return f'({t})'


def balanced(t):
    d = 0
    for ch in t:
        d += ch == '('
        d -= ch == ')'
        if d < 0:
            return False
    return d == 0


def ind(text, n=2):
    return textwrap.indent(text, ' ' * n)


# ---------------------------------------------------------------- targets

def method_ast(cls, name):
    """the function that really runs as `cls.name` (refuses decorated / overridden / re-bound targets)"""
    raw = cls.__dict__.get(name)
    if raw is None:
        raise Untranslatable(f'{cls.__name__}.{name} is not defined in the class itself')
    fn = raw.__func__ if isinstance(raw, classmethod) else raw
    if not inspect.isfunction(fn) or fn.__name__ != name:
        raise Untranslatable(f'{cls.__name__}.{name} is not a plain function')
    tree = ast.parse(textwrap.dedent(inspect.getsource(fn)))
    node = tree.body[0]
    decos = [ast.unparse(d) for d in node.decorator_list]
    implicit = name in ('__init_subclass__', '__class_getitem__')
    if decos != (['classmethod'] if isinstance(raw, classmethod) and not implicit else []):
        raise Untranslatable(f'{cls.__name__}.{name} is decorated')
    return node


def translate_fn(node, pyname, known, extra_params=()):
    lean, ptys, rty = METHODS[pyname]
    a = node.args
    params = [x.arg for x in a.posonlyargs + a.args]
    if pyname != 'add_transition':
        if not params or params[0] not in SELF:
            raise Untranslatable(f'{pyname}: first parameter')
        params = params[1:]
    env = {}
    if pyname == '__init__':
        if params or a.vararg is None or a.kwarg is None or a.kwarg.arg != 'kwargs' \
                or [x.arg for x in a.kwonlyargs] != ['on_notrans'] \
                or not (isinstance(a.kw_defaults[0], ast.Constant) and a.kw_defaults[0].value is None):
            raise Untranslatable('__init__: signature')
        env['on_notrans'] = Var('onNotrans', 'OKw')
        sig = ' (onNotrans : Option κ)'
    else:
        if len(params) != len(ptys) or a.vararg or a.kwarg or a.kwonlyargs or a.defaults:
            raise Untranslatable(f'{pyname}: signature')
        sig = ''
        for i, (pn, pt) in enumerate(zip(params, ptys)):
            env[pn] = Var(f'a{i}', pt)
            sig += f' (a{i} : {lty(pt)})'
    tr = Tr(lean, rty, known)
    body = tr.block(node.body, env, lambda e: 'skip')
    return ''.join(a + '\n\n' for a in tr.aux), (f'def {lean} (p : Prims δ Du κ α ε χ η){sig} : M (Obj δ Du κ α ε χ) ({lty(rty)}) Unit :=\n{ind(body)}')


def check_not_overridden(fsm, name):
    """the translated method must be the one that runs in the library's own FSMs"""
    import edzed.blocklib.fsms, edzed.blocklib.sblocks2       # noqa: F401  (defines Timer, InputExp)
    todo, seen = list(fsm.FSM.__subclasses__()), set()
    while todo:
        sub = todo.pop()
        if sub in seen:
            continue
        seen.add(sub)
        todo.extend(sub.__subclasses__())
        if (sub.__module__ or '').startswith('edzed') and name in sub.__dict__:
            raise Untranslatable(f'{sub.__name__} overrides {name}')


def check_init_subclass(fsm):
    """`__init_subclass__` must build the tables (declared assumption, checked on the AST)"""
    node = method_ast(fsm.FSM, '__init_subclass__')
    calls = [ast.unparse(n) for n in ast.walk(node) if isinstance(n, ast.Call)]
    if 'cls._build_tables()' not in calls:
        raise Untranslatable('__init_subclass__ does not call cls._build_tables()')


def main_fsmtables(outfile, write_if_changed):
    from edzed import fsm
    here = os.path.dirname(os.path.abspath(__file__))
    with open(os.path.join(here, 'py2lean_fsmtables_prelude.lean.txt'), encoding='utf-8') as f:
        out = [f.read()]
    out.append('variable {δ Du κ α ε χ η : Type}\n')
    done = set()

    def emit(pyname, get_node, doc, needs=()):
        try:
            missing = [n for n in needs if n not in done]
            if missing:
                raise Untranslatable(f'depends on {missing}')
            aux, text = translate_fn(get_node(), pyname, done)
        except Exception as err:      # Untranslatable, or the method is gone
            msg = ' '.join(str(err).split())[:200]
            out.append(f'-- UNTRANSLATABLE `{doc}`: definition `{METHODS[pyname][0]}` omitted ({msg})\n')
            print(f'UNTRANSLATABLE {METHODS[pyname][0]} ({doc}): {err}')
            return
        done.add(pyname)
        out.append(f'{aux}/-- translated from `{doc}` -/\n{text}\n')

    def add_transition_node():
        bt = method_ast(fsm.FSM, '_build_tables')
        fns = [n for n in bt.body if isinstance(n, ast.FunctionDef)]
        if len(fns) != 1 or fns[0].name != 'add_transition' or fns[0].decorator_list:
            raise Untranslatable('local functions of _build_tables')
        # a local function must not be re-bound inside the method
        stores = [n for n in ast.walk(bt) if isinstance(n, ast.Name) and isinstance(n.ctx, ast.Store)
                  and n.id == 'add_transition']
        if stores:
            raise Untranslatable('add_transition is re-bound')
        return fns[0]

    def build_tables_node():
        check_init_subclass(fsm)
        check_not_overridden(fsm, '_build_tables')
        return method_ast(fsm.FSM, '_build_tables')

    def plain(name):
        def get():
            check_not_overridden(fsm, name)
            return method_ast(fsm.FSM, name)
        return get

    emit('_check_state', plain('_check_state'), 'fsm.FSM._check_state')
    emit('add_transition', add_transition_node, 'fsm.FSM._build_tables: add_transition', needs=('_check_state',))
    emit('_build_tables', build_tables_node, 'fsm.FSM._build_tables', needs=('_check_state', 'add_transition'))
    emit('__init__', lambda: method_ast(fsm.FSM, '__init__'), 'fsm.FSM.__init__')
    emit('_send_events', plain('_send_events'), 'fsm.FSM._send_events')
    emit('_run_cb', plain('_run_cb'), 'fsm.FSM._run_cb')
    emit('_event', plain('_event'), 'fsm.FSM._event')
    out.append('end Edzed.Gen.TrFT\n')
    write_if_changed(outfile, '\n'.join(out))
