#!/bin/sh
# commit everything in /verif with the generated Lean files regenerated from /repo itself
# (a development run with EDZED_SRC=<other tree> leaves its generated files in the working tree)
# usage: tools/commit.sh "message"
set -e
cd "$(dirname "$0")/.."
EDZED_SRC=/repo PYTHONPATH=/repo /venv/bin/python tools/extract.py lean/EdzedModel/Gen/Constants.lean
EDZED_SRC=/repo PYTHONPATH=/repo /venv/bin/python tools/py2lean.py lean/EdzedModel/Gen/Translated.lean
git add -A
git commit -qm "$1" || true
git log --oneline | head -1
