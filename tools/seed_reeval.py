#!/usr/bin/env python3
"""Re-run tools/seed_eval.py for a stored seeded change:  tools/seed_reeval.py <name> [--note "..."] [--checks C01,C02]"""
import json, os, shutil, subprocess, sys, tempfile
ROOT = os.path.dirname(os.path.dirname(os.path.abspath(__file__)))
name = sys.argv[1]
extra = sys.argv[2:]
d = os.path.join(ROOT, 'seeded', name)
m = json.load(open(os.path.join(d, 'meta.json')))
tmp = tempfile.mkdtemp(prefix='reeval-')
try:
    shutil.copy(os.path.join(d, 'patch.diff'), os.path.join(tmp, 'patch.diff'))
    shutil.copy(os.path.join(d, 'demo.py'), os.path.join(tmp, 'demo.py'))
    cmd = [sys.executable, os.path.join(ROOT, 'tools', 'seed_eval.py'), m['property'], name,
           os.path.join(tmp, 'patch.diff'), os.path.join(tmp, 'demo.py'), '--needs', m['needs']]
    if '--note' not in extra and m.get('note'):
        cmd += ['--note', m['note']]
    if '--checks' not in extra:
        others = [c for c in m.get('checks', {}) if c != m['property']]
        if others:
            cmd += ['--checks', ','.join(others)]
    sys.exit(subprocess.run(cmd + extra).returncode)
finally:
    shutil.rmtree(tmp, ignore_errors=True)
