"""
Translator module for `InitAsync.init_regular` (called from tools/py2lean.py: main()).

Regenerates lean/EdzedModel/Gen/TranslatedInit.lean from the CURRENT source of
`edzed.blocklib.sblocks2.InitAsync.init_regular` -- the guard under which the routine does nothing, and the
list of actions it performs otherwise -- and of `Block.is_initialized`, which the guard calls.

    def init_regular(self):
        if <guard>:
            return
        self._output_events = ()         -> Act.clearOutputEvents
        self.set_output(<constant>)      -> Act.setOutput <value>

Guard / `is_initialized` body: `and` / `or` / `not` over the atoms (X = `self.initdef` : Val, `self._output` : Val)
    self.is_initialized()                -> isInitialized output      (translated from Block.is_initialized)
    X is [not] UNDEF                     -> [!] X.isUndef             (identity with the singleton)
    X                                    -> X.truthy                  (exact Python truth value on Val:
                                                                       UNDEF, None, 0, 0.0, False, '', () are false)
    X is [not] None                      -> [!] (X == Val.none)       (structural equality with the atom None)
`==` / `!=`, `bool(X)`, comparisons with other constants, reversed operands, a bare method object, other
statements, `try`, a second exit, decorators, `async def`, extra parameters: UNTRANSLATABLE -- the definition is
omitted and the theorem `TrTie.translated_initasync_regular_is_model` (EdzedProps/C05.lean) stops compiling.

Names are resolved, not matched by spelling (audit of the trusted base):
  * `UNDEF` / `block.UNDEF` must evaluate, in the globals of the translated function, to edzed.block.UNDEF;
  * `self.is_initialized`, `self.set_output` must resolve through the MRO of InitAsync to Block.is_initialized /
    SBlock.set_output (an override would make the declared primitive a different function);
  * `self._output_events` must be an attribute that SBlock.set_output iterates to send events (otherwise the
    assignment is dead code);
  * `self.initdef` must be assigned in SBlock.__init__ as `kwargs.pop('initdef', UNDEF)` ("UNDEF = not given").
"""
import ast
import inspect
import textwrap


class Untranslatable(Exception):
    pass


def path(node):
    if isinstance(node, ast.Name):
        return node.id
    if isinstance(node, ast.Attribute):
        return path(node.value) + '.' + node.attr
    raise Untranslatable(f'not an access path: {ast.dump(node)[:80]}')


def resolves_to(node, glob, obj):
    """does the access path evaluate to `obj` in the globals of the translated function?"""
    if not isinstance(node, (ast.Name, ast.Attribute)):
        return False
    parts = path(node).split('.')
    if parts[0] == 'self' or parts[0] not in glob:
        return False
    cur = glob[parts[0]]
    for name in parts[1:]:
        if not hasattr(cur, name):
            return False
        cur = getattr(cur, name)
    return cur is obj


class Expr:
    """conditions over Val-typed attributes of `self`; `vars`: access path -> Lean variable (type Val)"""

    def __init__(self, fn_obj, vars_, calls):
        from edzed import block
        self.glob = fn_obj.__globals__
        self.undef = block.UNDEF
        self.vars = vars_
        self.calls = calls          # access path of a nullary method -> Lean Bool expression

    def var(self, node):
        if isinstance(node, ast.Attribute) and path(node) in self.vars:
            return self.vars[path(node)]
        return None

    def cond(self, node):
        if isinstance(node, ast.BoolOp):
            op = ' || ' if isinstance(node.op, ast.Or) else ' && '
            return '(' + op.join(self.cond(v) for v in node.values) + ')'
        if isinstance(node, ast.UnaryOp) and isinstance(node.op, ast.Not):
            return '(!' + self.cond(node.operand) + ')'
        if isinstance(node, ast.Call) and not node.args and not node.keywords \
                and isinstance(node.func, ast.Attribute) and path(node.func) in self.calls:
            return self.calls[path(node.func)]
        if self.var(node) is not None:
            return f'{self.var(node)}.truthy'
        if isinstance(node, ast.Compare) and len(node.ops) == 1 and self.var(node.left) is not None \
                and isinstance(node.ops[0], (ast.Is, ast.IsNot)):
            x, right = self.var(node.left), node.comparators[0]
            if resolves_to(right, self.glob, self.undef):
                base = f'{x}.isUndef'
            elif isinstance(right, ast.Constant) and right.value is None:
                base = f'({x} == Val.none)'
            else:
                raise Untranslatable(f'identity test with {ast.unparse(right)!r} (not UNDEF / None)')
            return base if isinstance(node.ops[0], ast.Is) else f'(!{base})'
        raise Untranslatable(f'condition {ast.unparse(node)!r}')


def plain_method(fn_obj, name):
    """AST of a method that is a plain `def name(self)` without decorators"""
    fn = ast.parse(textwrap.dedent(inspect.getsource(fn_obj))).body[0]
    if not isinstance(fn, ast.FunctionDef):
        raise Untranslatable(f'{name} is not a plain `def` ({type(fn).__name__})')
    if fn.decorator_list:
        raise Untranslatable(f'{name} has decorators')
    a = fn.args
    if [x.arg for x in a.args] != ['self'] or a.posonlyargs or a.kwonlyargs or a.vararg or a.kwarg or a.defaults:
        raise Untranslatable(f'{name} takes more than `self`')
    body = [s for s in fn.body
            if not (isinstance(s, ast.Expr) and isinstance(s.value, ast.Constant) and isinstance(s.value.value, str))]
    return body


def check_names():
    """the declared primitives are the functions / attributes the model assumes"""
    from edzed import block
    from edzed.blocklib import sblocks2
    cls = sblocks2.InitAsync
    if cls.is_initialized is not block.Block.is_initialized:
        raise Untranslatable('InitAsync.is_initialized is not Block.is_initialized')
    if cls.set_output is not block.SBlock.set_output:
        raise Untranslatable('InitAsync.set_output is not SBlock.set_output')
    so = ast.parse(textwrap.dedent(inspect.getsource(block.SBlock.set_output)))
    iterated = {path(n.iter) for n in ast.walk(so)
                if isinstance(n, ast.For) and isinstance(n.iter, ast.Attribute)}
    if 'self._output_events' not in iterated:
        raise Untranslatable('SBlock.set_output does not iterate self._output_events')
    init = ast.parse(textwrap.dedent(inspect.getsource(block.SBlock.__init__)))
    ok = False
    for n in ast.walk(init):
        if isinstance(n, ast.Assign) and len(n.targets) == 1 and isinstance(n.targets[0], ast.Attribute) \
                and path(n.targets[0]) == 'self.initdef':
            v = n.value
            ok = (isinstance(v, ast.Call) and isinstance(v.func, ast.Attribute) and path(v.func) == 'kwargs.pop'
                  and len(v.args) == 2 and isinstance(v.args[0], ast.Constant) and v.args[0].value == 'initdef'
                  and resolves_to(v.args[1], block.SBlock.__init__.__globals__, block.UNDEF))
    if not ok:
        raise Untranslatable("SBlock.__init__ does not set self.initdef = kwargs.pop('initdef', UNDEF)")


def value(node):
    if isinstance(node, ast.Constant):
        v = node.value
        if v is None:
            return 'Val.none'
        if v is True or v is False:
            return f'(Val.bool {str(v).lower()})'
        if isinstance(v, int):
            return f'(Val.int ({v}))'
        if isinstance(v, str):
            return f'(Val.str {json_str(v)})'
    raise Untranslatable(f'set_output argument {ast.unparse(node)!r}')


def json_str(s):
    import json
    return json.dumps(s)


def action(stmt):
    if isinstance(stmt, ast.Assign) and len(stmt.targets) == 1 and isinstance(stmt.targets[0], ast.Attribute) \
            and path(stmt.targets[0]) == 'self._output_events' \
            and isinstance(stmt.value, ast.Tuple) and not stmt.value.elts:
        return 'Act.clearOutputEvents'
    if isinstance(stmt, ast.Expr) and isinstance(stmt.value, ast.Call) \
            and path(stmt.value.func) == 'self.set_output' and len(stmt.value.args) == 1 \
            and not stmt.value.keywords:
        return f'Act.setOutput {value(stmt.value.args[0])}'
    raise Untranslatable(f'statement {ast.unparse(stmt)!r}')


def translate_is_initialized():
    from edzed import block
    body = plain_method(block.Block.is_initialized, 'Block.is_initialized')
    if len(body) != 1 or not isinstance(body[0], ast.Return) or body[0].value is None:
        raise Untranslatable('expected a single `return <condition>`')
    ex = Expr(block.Block.is_initialized, {'self._output': 'output'}, {})
    return f"def isInitialized (output : Val) : Bool :=\n  {ex.cond(body[0].value)}"


def translate():
    from edzed.blocklib import sblocks2
    check_names()
    fn_obj = sblocks2.InitAsync.init_regular
    body = plain_method(fn_obj, 'InitAsync.init_regular')
    if not body or not isinstance(body[0], ast.If) or body[0].orelse:
        raise Untranslatable('expected `if <guard>: return` as the first statement')
    first = body[0]
    ret = first.body[0] if len(first.body) == 1 else None
    if not isinstance(ret, ast.Return) or not (
            ret.value is None or (isinstance(ret.value, ast.Constant) and ret.value.value is None)):
        raise Untranslatable('the guarded branch must be a bare `return`')
    acts = [action(s) for s in body[1:]]
    ex = Expr(fn_obj, {'self.initdef': 'initdef'}, {'self.is_initialized': 'isInitialized output'})
    return (f"def initAsyncRegular (output : Val) (initdef : Val) : List Act :=\n"
            f"  if {ex.cond(first.test)} then [] else [{', '.join(acts)}]")


def main_init(outfile, host):
    L = ['/- GENERATED by tools/py2lean_init.py from the Python source of edzed -- do not edit -/',
         'import EdzedModel.Basic.Val', '', 'namespace Edzed.Gen.TrInit', '',
         '/-- what an initialisation routine does, in order -/',
         'inductive Act where',
         '  | clearOutputEvents             -- `self._output_events = ()`',
         '  | setOutput (v : Val)           -- `self.set_output(v)`',
         '  deriving DecidableEq, Repr', '']
    host.emit(L, {'name': 'isInitialized', 'doc': 'Block.is_initialized'}, lambda _t: translate_is_initialized(),
              ' -- `output` = `self._output`')
    host.emit(L, {'name': 'initAsyncRegular', 'doc': 'InitAsync.init_regular'}, lambda _t: translate(),
              ' -- `output` = `self._output`, `initdef` = `self.initdef` (UNDEF when not given)')
    L.append('end Edzed.Gen.TrInit')
    host.write_if_changed(outfile, '\n'.join(L) + '\n')
