"""
Translator module for the filter OBJECTS of edzed/blocklib/filters.py (called from tools/py2lean.py: main()).

Regenerates lean/EdzedModel/Gen/TranslatedFilterObjs.lean from the CURRENT source of

    Edge.__init__             -> edgeInit          (what the constructor stores: the model's EdgeFlags)
                                 edgeInitDefaults  (the defaults of its signature: the model's EdgeArgs)
    Delta.__init__            -> deltaInit         (`_delta`, `_last` of the new object)
    Delta.__call__            -> deltaCall         (new `_last` and the result)
    IfOutput.__call__         -> ifOutputCall
    IfNotIitialized.__call__  -> ifNotInitCall
    SBlock.is_initialized     -> isInitialized
    DataEdit.__call__         -> dataEditCall      (+ dataEditCall_for1: the `for func in self._editlist` loop
                                                     as structural recursion over the list)

    DataEdit.__init__, the 8 operation methods -> dataEditOpSignatures (each verified to append exactly one edit
                                 function and return self; the parameters in order)

    _dualmethod.__get__       -> dualGet           (class access creates a new object, instance access binds it)
    DataEdit class attributes -> dataEditSentinels (DELETE / REJECT)
    IfOutput/IfNotIitialized.__init__ -> ifOutputInit / ifNotInitInit (attribute stored, attribute and block
                                 type registered with the resolver; resolverDefaultBlockType from
                                 _BlockResolver.register), …Asserts (the assert of their __call__)

(`Edge.__call__`, `not_from_undef` and the eight edit functions of `DataEdit` are translated by py2lean.py
itself, the filter loop of `Event.send` by py2lean_dispatch.py.)

The scheme is continuation passing over the statement list, so that statement ORDER, conditions,
short-circuit evaluation, early returns, `break`/`continue` and the places where an exception can arise all
come from the AST:

  statements   docstring; `assert isinstance(<declared attribute>, <declared class>)` without a computed message and
               logging calls whose arguments are harmless (constants, names, attributes, `type(x)`: they are
               evaluated eagerly) are ignored, also an `if` whose body only logs and whose test calls nothing; `x = data['lit']` (KeyError when missing);
               `x = func(data)` with the loop variable of the edit list (an exception of the call propagates);
               `x = <pure expression>`; `self._attr = <pure expression>` for a declared attribute (later reads
               see the new value; for `Delta` the attribute at the moment of the return/raise is part of the
               result); if / else; return; for … in <declared list> with break / continue / else (a recursive
               definition over the list; the variables assigned in the body that exist before the loop are
               its arguments and must have the same type at the loop head on every path that continues); falling off the end = `return None`
  conditions   not / and / or (short circuit); `isinstance(x, MutableMapping)` on the result of a call
               (narrows `x` to a mapping in the true branch); one ordering comparison whose operands are numeric
               expressions over Python values: names, `a - b`, `abs(a)` in `Filters.XNum` (exact rationals and the
               floats +inf, -inf, NaN; `>=`, `>`, `<=`, `<` are `XNum.le` / `XNum.lt` with swapped operands, a
               negation swaps the branches: `a >= b` and `not (a < b)` are DIFFERENT terms, they differ on NaN) --
               a value that is not a number raises TypeError at that point (`Filters.xnumOf?`);
               everything else through the value scheme `Tr` of py2lean.py (is [not] UNDEF / None, bool(x),
               conditional expressions with `is [not] None` narrowing of an Optional bool, truthiness)
  results      True / False / None -> `.other …`; a mapping -> `.mapping d`; the unknown result of a call as it
               is; a raise -> `.raise e`   (type `Filters.FRes`, the model's domain of filter results)

Declared per target (and nothing else): which access path is which parameter and its type, which attribute
is state, that `func(data)` is the parameter `applyEdit`.  Anything outside the subset: the definition is
OMITTED with an `UNTRANSLATABLE` comment, so that exactly the `translated_filters_…` theorems of
EdzedProps/C16.lean that mention it stop compiling.
"""
import ast
import json
import os

LEAN_T = {'bool': 'Bool', 'optbool': 'Option Bool', 'val': 'Val', 'rat': 'Rat', 'xnum': 'XNum', 'data': 'Data',
          'pyres': 'FRes'}
ORDER = {ast.GtE: ('≤', True), ast.LtE: ('≤', False), ast.Gt: ('<', True), ast.Lt: ('<', False)}


class TrObj:
    def __init__(self, h, target):
        self.h = h                                  # the py2lean module (Tr, Untranslatable, node_path, …)
        self.t = target
        self.U = h.Untranslatable
        self.fresh = {}
        self.loops = []                             # generated loop functions (text)
        outer = self

        class TrV(h.Tr):                            # the value scheme + narrowing of an Optional bool
            def narrowing(self, test, env):
                if (isinstance(test, ast.Compare) and len(test.ops) == 1
                        and isinstance(test.ops[0], (ast.Is, ast.IsNot))
                        and isinstance(test.comparators[0], ast.Constant) and test.comparators[0].value is None):
                    try:
                        p = self.path(test.left)
                    except outer.U:
                        return None
                    if p in env and env[p][1] == 'optbool':
                        inner = env[p][0] + 'V'
                        env_some = dict(env)
                        env_some[p] = (inner, 'bool')
                        return env[p][0], inner, env_some, isinstance(test.ops[0], ast.Is)
                return super().narrowing(test, env)

            def compare(self, left, op, right, env):
                # `x is None` / `x is not None` on an arbitrary Python value (identity with the singleton);
                # deliberately a different term from the truth value `(x).truthy` and from `x == None`
                if (isinstance(op, (ast.Is, ast.IsNot)) and isinstance(right, ast.Constant)
                        and right.value is None):
                    t, ty = self.expr(left, env)
                    if ty == 'val':
                        return f'(!({t} == Val.none))' if isinstance(op, ast.IsNot) else f'({t} == Val.none)'
                return super().compare(left, op, right, env)
        self.tr = TrV(target)

    # ---- helpers ------------------------------------------------------------------
    def new(self, base):
        base = base.replace('self._', '').replace('.', '_')
        self.fresh[base] = self.fresh.get(base, 0) + 1
        return f'{base}{self.fresh[base]}'

    def wrap(self, result, env):
        """the value of the whole call: the result, together with the state attributes for a stateful filter"""
        st = self.t.get('state', ())
        if not st:
            return result
        return '(' + ', '.join([env[a][0] for a in st] + [result]) + ')'

    def path(self, node):
        try:
            return self.h.node_path(node)
        except self.U:
            return None

    def pure(self, node, env):
        return self.tr.expr(node, env)

    @staticmethod
    def calls_nothing(node):
        return not any(isinstance(n, (ast.Call, ast.NamedExpr, ast.Await, ast.Yield)) for n in ast.walk(node))

    @classmethod
    def harmless(cls, node):
        """an expression whose evaluation can neither fail nor do anything: constants, names, attribute chains,
        `type(x)`; NOT `%`-formatting, f-strings, calls, subscripts (an eagerly evaluated log argument)"""
        if isinstance(node, ast.Constant) or isinstance(node, ast.Name):
            return True
        if isinstance(node, ast.Attribute):
            return cls.harmless(node.value)
        if (isinstance(node, ast.Call) and isinstance(node.func, ast.Name) and node.func.id == 'type'
                and len(node.args) == 1 and not node.keywords):
            return cls.harmless(node.args[0])
        return False

    def is_logging(self, s):
        """a call of a logging method that is ignored: its arguments are evaluated eagerly, so they must be harmless"""
        if isinstance(s, ast.Expr) and isinstance(s.value, ast.Call):
            p = self.path(s.value.func)
            if p is not None and p.split('.')[0] in ('_logger', 'logging'):
                c = s.value
                if all(self.harmless(a) for a in c.args) and all(self.harmless(k.value) for k in c.keywords):
                    return True
                raise self.U('logging call with an eagerly evaluated argument: ' + ast.unparse(c)[:80])
        return False

    # ---- numeric expressions over Python values (may raise TypeError) ------------------
    def num(self, node, env, ind, k):
        """Python float/int arithmetic INCLUDING the non-finite floats: the operands are `Filters.XNum`
        (exact rationals, +inf, -inf, NaN), `-` is `XNum.sub`, `abs` is `XNum.abs`"""
        pad = '  ' * ind
        if isinstance(node, ast.BinOp) and isinstance(node.op, ast.Sub):
            return self.num(node.left, env, ind, lambda a, i: self.num(
                node.right, env, i, lambda b, j: k(f'(XNum.sub {a} {b})', j)))
        if (isinstance(node, ast.Call) and isinstance(node.func, ast.Name) and node.func.id == 'abs'
                and len(node.args) == 1 and not node.keywords):
            return self.num(node.args[0], env, ind, lambda a, i: k(f'(XNum.abs {a})', i))
        text, ty = self.pure(node, env)
        if ty == 'xnum':
            return k(text, ind)
        if ty == 'val' and isinstance(node, (ast.Name, ast.Attribute)):
            q = self.new(text + 'q')
            return (f'{pad}match xnumOf? {text} with\n'
                    f'{pad}| none => {self.wrap(".raise .typeError", env)}\n'
                    f'{pad}| some {q} =>\n{k(q, ind + 1)}')
        raise self.U(f'numeric operand {ast.unparse(node)} of type {ty}')

    # ---- conditions -----------------------------------------------------------------
    def cond(self, test, env, ind, kthen, kelse):
        pad = '  ' * ind
        if isinstance(test, ast.UnaryOp) and isinstance(test.op, ast.Not):
            return self.cond(test.operand, env, ind, kelse, kthen)
        if isinstance(test, ast.BoolOp):
            first, others = test.values[0], test.values[1:]
            restt = others[0] if len(others) == 1 else ast.BoolOp(op=test.op, values=others)
            if isinstance(test.op, ast.And):
                return self.cond(first, env, ind, lambda e, i: self.cond(restt, e, i, kthen, kelse), kelse)
            return self.cond(first, env, ind, kthen, lambda e, i: self.cond(restt, e, i, kthen, kelse))
        if (isinstance(test, ast.Call) and isinstance(test.func, ast.Name) and test.func.id == 'isinstance'
                and len(test.args) == 2 and not test.keywords):
            if not (isinstance(test.args[1], ast.Name) and test.args[1].id == 'MutableMapping'):
                raise self.U(f'isinstance(…, {ast.unparse(test.args[1])}): only MutableMapping is understood')
            p = self.path(test.args[0])
            if p not in env:
                raise self.U(f'isinstance on {ast.unparse(test.args[0])}')
            lean, ty = env[p]
            if ty == 'data':
                return kthen(env, ind)
            if ty != 'pyres':
                raise self.U(f'isinstance(…, MutableMapping) on a value of type {ty}')
            d = self.new(p)
            e1 = dict(env)
            e1[p] = (d, 'data')
            return (f'{pad}match {lean} with\n{pad}| .mapping {d} =>\n{kthen(e1, ind + 1)}\n'
                    f'{pad}| _ =>\n{kelse(env, ind + 1)}')
        if (isinstance(test, ast.Compare) and len(test.ops) == 1 and isinstance(test.ops[0], (ast.Is, ast.IsNot))
                and isinstance(test.comparators[0], ast.Constant) and test.comparators[0].value is None
                and self.path(test.left) in env and env[self.path(test.left)][1] in ('optinst', 'inst', 'noinst')):
            # `x is None` on the `instance` argument of a descriptor (None = accessed through the class)
            p = self.path(test.left)
            lean, ty = env[p]
            if isinstance(test.ops[0], ast.IsNot):
                kthen, kelse = kelse, kthen
            if ty == 'noinst':
                return kthen(env, ind)
            if ty == 'inst':
                return kelse(env, ind)
            v = self.new(p)
            e1, e2 = dict(env), dict(env)
            e1[p] = ('none', 'noinst')
            e2[p] = (v, 'inst')
            return (f'{pad}match {lean} with\n{pad}| none =>\n{kthen(e1, ind + 1)}\n'
                    f'{pad}| some {v} =>\n{kelse(e2, ind + 1)}')
        if isinstance(test, ast.Compare) and len(test.ops) == 1 and type(test.ops[0]) in ORDER:
            sym, swap = ORDER[type(test.ops[0])]
            left, right = test.left, test.comparators[0]

            def fin(a, b, i):
                # `a >= b` is `b <= a`, `a > b` is `b < a`; `<=` and `<` stay two different tests and a
                # negation stays a swap of the branches: with a NaN operand `a >= b` and `not (a < b)` differ
                x, y = (b, a) if swap else (a, b)
                p2 = '  ' * i
                fn = 'XNum.le' if sym == '≤' else 'XNum.lt'
                return f'{p2}if {fn} {x} {y} then\n{kthen(env, i + 1)}\n{p2}else\n{kelse(env, i + 1)}'
            return self.num(left, env, ind, lambda a, i: self.num(right, env, i, lambda b, j: fin(a, b, j)))
        text, ty = self.pure(test, env)
        return (f'{pad}if {self.tr.truthy(text, ty)} then\n{kthen(env, ind + 1)}\n'
                f'{pad}else\n{kelse(env, ind + 1)}')

    # ---- what a `return` hands back ---------------------------------------------------
    def result(self, node, env, ind):
        pad = '  ' * ind
        if node is None or (isinstance(node, ast.Constant) and node.value is None):
            return pad + self.wrap('.other Val.none', env)
        if isinstance(node, ast.Constant) and isinstance(node.value, bool):
            return pad + self.wrap(f'.other (Val.bool {"true" if node.value else "false"})', env)
        if isinstance(node, ast.IfExp):
            return self.cond(node.test, env, ind, lambda e, i: self.result(node.body, e, i),
                             lambda e, i: self.result(node.orelse, e, i))
        if isinstance(node, ast.Call) and self.path(node.func) in self.t.get('binds', {}):
            # `self.__wrapped__.__get__(instance, cls)`: the wrapped function bound to an object
            lean, atys = self.t['binds'][self.path(node.func)]
            if node.keywords or len(node.args) != len(atys):
                raise self.U('call ' + ast.unparse(node))
            args = []
            for a, want in zip(node.args, atys):
                if (want == 'inst' and isinstance(a, ast.Call) and not a.args and not a.keywords
                        and self.path(a.func) in env and env[self.path(a.func)][1] == 'cls'):
                    args.append(self.t['new'])          # `cls()` written in place
                    continue
                ap = self.path(a) if isinstance(a, (ast.Name, ast.Attribute)) else None
                if ap not in env or env[ap][1] != want:
                    raise self.U(f'{ast.unparse(node)}: {ast.unparse(a)} is {env.get(ap, (None, "unknown"))[1]}, '
                                 f'{want} needed')
                if want != 'cls':
                    args.append(env[ap][0])
            return pad + lean + ''.join(' ' + a for a in args)
        p = self.path(node) if isinstance(node, (ast.Name, ast.Attribute)) else None
        if p in env:
            lean, ty = env[p]
            if ty == 'data':
                return pad + self.wrap(f'.mapping {lean}', env)
            if ty == 'pyres':
                return pad + self.wrap(lean, env)
            if ty == 'val':
                return pad + self.wrap(f'.other {lean}', env)
            if ty == 'bool':
                return pad + self.wrap(f'.other (Val.bool {lean})', env)
        raise self.U('return of ' + ast.unparse(node))

    # ---- statements -------------------------------------------------------------------
    def stmts(self, ss, env, ind, K):
        """K: {'fall': what happens after the last statement, 'brk', 'cont': inside a loop}"""
        pad = '  ' * ind
        if not ss:
            return K['fall'](env, ind)
        s, rest = ss[0], list(ss[1:])

        def go(e, i):
            return self.stmts(rest, e, i, K)
        if isinstance(s, ast.Expr) and isinstance(s.value, ast.Constant) and isinstance(s.value.value, str):
            return go(env, ind)
        if self.is_logging(s) or isinstance(s, ast.Pass):
            return go(env, ind)
        if isinstance(s, ast.Assert):
            tst = s.test
            # only the declared sanity check `assert isinstance(<attribute>, <class>)` is ignored; another class
            # (a narrower one rejects control blocks that are accepted today) or a message expression is not
            want = self.t.get('asserted', {})
            if (isinstance(tst, ast.Call) and isinstance(tst.func, ast.Name) and tst.func.id == 'isinstance'
                    and len(tst.args) == 2 and not tst.keywords and self.path(tst.args[0]) in want
                    and ast.unparse(tst.args[1]) == want[self.path(tst.args[0])]
                    and (s.msg is None or isinstance(s.msg, ast.Constant))):
                return go(env, ind)
            raise self.U('assert ' + ast.unparse(s)[7:])
        if (isinstance(s, ast.If) and not s.orelse and all(self.is_logging(x) for x in s.body)
                and self.calls_nothing(s.test)):
            return go(env, ind)
        if isinstance(s, ast.Return):
            return self.result(s.value, env, ind)
        if isinstance(s, ast.Break):
            if 'brk' not in K:
                raise self.U('break outside a loop')
            return K['brk'](env, ind)
        if isinstance(s, ast.Continue):
            if 'cont' not in K:
                raise self.U('continue outside a loop')
            return K['cont'](env, ind)
        if isinstance(s, ast.If):
            def branch(body):
                return lambda e, i: self.stmts(list(body), e, i, dict(K, fall=go))
            return self.cond(s.test, env, ind, branch(s.body), branch(s.orelse))
        if isinstance(s, ast.For):
            return self.for_loop(s, rest, env, ind, K)
        if isinstance(s, (ast.Assign, ast.AnnAssign)):
            targets = s.targets if isinstance(s, ast.Assign) else [s.target]
            if len(targets) != 1 or s.value is None:
                raise self.U('assignment ' + ast.unparse(s))
            tgt, val = targets[0], s.value
            tp = self.path(tgt) if isinstance(tgt, (ast.Name, ast.Attribute)) else None
            if tp is None:
                raise self.U('assignment target ' + ast.unparse(tgt))
            if isinstance(tgt, ast.Attribute) and tp not in self.t.get('attrs', ()):
                raise self.U(f'assignment to the undeclared attribute {tp}')
            # x = data['lit']
            if (isinstance(val, ast.Subscript) and isinstance(val.slice, ast.Constant)
                    and isinstance(val.slice.value, str) and self.path(val.value) in env
                    and env[self.path(val.value)][1] == 'data'):
                d = env[self.path(val.value)][0]
                v = self.new(tp)
                e2 = dict(env)
                e2[tp] = (v, 'val')
                return (f'{pad}match Data.get? {d} "{val.slice.value}" with\n'
                        f'{pad}| none => {self.wrap(".raise .keyError", env)}\n'
                        f'{pad}| some {v} =>\n{go(e2, ind + 1)}')
            # x = func(arg): an edit function of the list
            if isinstance(val, ast.Call) and self.path(val.func) in env and env[self.path(val.func)][1] == 'edit':
                if len(val.args) != 1 or val.keywords:
                    raise self.U('call ' + ast.unparse(val))
                a, aty = self.pure(val.args[0], env)
                if aty != 'data':
                    raise self.U(f'{ast.unparse(val)}: the argument is not known to be a mapping here ({aty})')
                v = self.new(tp)
                e2 = dict(env)
                e2[tp] = (v, 'pyres')
                return (f'{pad}match {self.t["apply"]} {env[self.path(val.func)][0]} {a} with\n'
                        f'{pad}| .raise e => {self.wrap(".raise e", env)}\n'
                        f'{pad}| {v} =>\n{go(e2, ind + 1)}')
            # x = y for the `instance` argument (an alias, no new object)
            if (isinstance(val, ast.Name) and val.id in env and env[val.id][1] in ('optinst', 'inst', 'noinst')
                    and isinstance(tgt, ast.Name)):
                e2 = dict(env)
                e2[tp] = env[val.id]
                return go(e2, ind)
            # x = cls(): a new object of the class, constructed without arguments
            if (isinstance(val, ast.Call) and not val.args and not val.keywords
                    and self.path(val.func) in env and env[self.path(val.func)][1] == 'cls'):
                v = self.new(tp)
                e2 = dict(env)
                e2[tp] = (v, 'inst')
                return f'{pad}let {v} := {self.t["new"]}\n' + go(e2, ind)
            text, ty = self.pure(val, env)
            want = self.t.get('attrs', {}).get(tp)
            if want is not None and ty != want:
                raise self.U(f'{tp} = … of type {ty}, declared {want}')
            v = self.new(tp)
            e2 = dict(env)
            e2[tp] = (v, ty)
            return f'{pad}let {v} : {LEAN_T[ty]} := {text}\n' + go(e2, ind)
        raise self.U('statement ' + ast.unparse(s)[:80])

    # ---- for x in <declared list>: a recursive definition over the list ---------------------
    def for_loop(self, s, rest, env, ind, K):
        pad = '  ' * ind
        if 'brk' in K:
            raise self.U('nested loops')
        ip = self.path(s.iter)
        if ip not in env or env[ip][1] != 'edits' or not isinstance(s.target, ast.Name):
            raise self.U('for … in ' + ast.unparse(s.iter))
        carried = sorted({self.path(n.targets[0]) for n in ast.walk(ast.Module(body=s.body, type_ignores=[]))
                          if isinstance(n, ast.Assign) and len(n.targets) == 1
                          and isinstance(n.targets[0], ast.Name)})
        carried = [c for c in carried if c in env]      # the others are local to one iteration
        fname = f"{self.t['name']}_for{len(self.loops) + 1}"
        lead = [(n, ty) for n, ty in self.t['params'] if n not in [env[c][0] for c in carried] and n != env[ip][0]]
        # inside the loop function: the leading parameters, the carried variables (under their Python names)
        env0 = {p: v for p, v in self.t['names'].items() if v[0] in [n for n, _ in lead]}
        head = {c: (c, env[c][1]) for c in carried}
        env0.update(head)
        call = fname + ''.join(' ' + n for n, _ in lead)

        def again(e, i):
            for c in carried:
                if e[c][1] != head[c][1]:
                    raise self.U(f'the loop continues with {c} of type {e[c][1]}, {head[c][1]} at the loop head')
            return '  ' * i + call + ' rest_' + ''.join(' ' + e[c][0] for c in carried)

        def after(e, i):
            return self.stmts(rest, e, i, K)
        envb = dict(env0)
        envb[s.target.id] = (s.target.id, 'edit')
        body = self.stmts(list(s.body), envb, 2, {'fall': again, 'cont': again, 'brk': after})
        done = self.stmts(list(s.orelse) + rest, env0, 2, K)
        cv = ''.join(', ' + c for c in carried)
        sig = ' '.join(f'({n} : {ty})' for n, ty in lead)
        types = ' → '.join([f'List {self.t["elem"]}'] + [LEAN_T[head[c][1]] for c in carried] + [self.t['out']])
        self.loops.append(
            f"/- the `for {s.target.id} in {ast.unparse(s.iter)}` loop of `{self.t['doc']}` -/\n"
            f"def {fname} {self.t.get('generic', '')}{sig} : {types}\n"
            f"  | []{cv} =>\n{done}\n"
            f"  | {s.target.id} :: rest_{cv} =>\n{body}")
        return pad + call + ' ' + env[ip][0] + ''.join(' ' + env[c][0] for c in carried)

    def function(self, fn):
        env = dict(self.t['names'])
        fall = self.t.get('fall') or (lambda e, i: self.result(None, e, i))
        return self.stmts(list(fn.body), env, 1, {'fall': fall})


def targets(h):
    from edzed.blocklib import filters
    from edzed import block

    def edge_final(e, i):
        f = {k: e[a][0] for k, a in (('rise', 'self._rise'), ('fall', 'self._fall'), ('urise', 'self._urise'),
                                      ('ufall', 'self._ufall'))}
        return '  ' * i + '{ ' + ', '.join(f'{k} := {v}' for k, v in f.items()) + ' }'
    B, V = 'bool', 'val'

    def delta_final(e, i):
        return '  ' * i + f"({e['self._delta'][0]}, {e['self._last'][0]})"
    return [
        # the arguments are arbitrary Python objects (`Edge(rise=1)`): `bool(x)` is `(x).truthy`, a bare `x` is not
        # a Bool and cannot be stored in a flag, `x is None` is not `not x`
        dict(name='edgeInit', doc='filters.Edge.__init__', node=lambda: h.fn_ast(filters.Edge.__init__),
             params=[('rise', 'Val'), ('fall', 'Val'), ('u_rise', 'Val'), ('u_fall', 'Val')],
             names={'rise': ('rise', V), 'fall': ('fall', V), 'u_rise': ('u_rise', V), 'u_fall': ('u_fall', V)},
             attrs={'self._rise': B, 'self._fall': B, 'self._urise': B, 'self._ufall': B},
             out='EdgeFlags', fall=edge_final, header=': the attributes the constructor stores'),
        dict(name='deltaInit', doc='filters.Delta.__init__', node=lambda: h.fn_ast(filters.Delta.__init__),
             params=[('delta', 'XNum')], names={'delta': ('delta', 'xnum')},
             attrs={'self._delta': 'xnum', 'self._last': V}, out='XNum × Val', fall=delta_final,
             header=': `(self._delta, self._last)` of the new object'),
        dict(name='deltaCall', doc='filters.Delta.__call__', node=lambda: h.fn_ast(filters.Delta.__call__),
             params=[('delta', 'XNum'), ('last', 'Val'), ('data', 'Data')],
             names={'self._delta': ('delta', 'xnum'), 'self._last': ('last', 'val'), 'data': ('data', 'data')},
             attrs={'self._last': 'val'}, state=('self._last',), out='Val × FRes',
             header=': `self._last` afterwards and the result'),
        dict(name='ifOutputCall', doc='filters.IfOutput.__call__ (`out`: the control block\'s output)',
             node=lambda: h.fn_ast(filters.IfOutput.__call__),
             params=[('out', 'Val'), ('data', 'Data')], asserted={'self._ctrl_blk': 'block.Block'},
             names={'self._ctrl_blk.output': ('out', 'val'), 'data': ('data', 'data')}, out='FRes'),
        dict(name='ifNotInitCall',
             doc='filters.IfNotIitialized.__call__ (`inited`: the control block\'s is_initialized())',
             node=lambda: h.fn_ast(filters.IfNotIitialized.__call__),
             params=[('inited', 'Bool'), ('data', 'Data')], asserted={'self._ctrl_blk': 'block.SBlock'},
             atoms={'self._ctrl_blk.is_initialized()': ('inited', 'bool')},
             names={'data': ('data', 'data')}, out='FRes'),
        dict(name='dataEditCall',
             doc='filters.DataEdit.__call__ (`applyEdit func data`: the call `func(data)` of an edit function)',
             node=lambda: h.fn_ast(filters.DataEdit.__call__), generic='{φ : Type} ', elem='φ', apply='applyEdit',
             params=[('applyEdit', 'φ → Data → FRes'), ('editlist', 'List φ'), ('data', 'Data')],
             names={'applyEdit': ('applyEdit', 'prim'), 'self._editlist': ('editlist', 'edits'),
                    'data': ('data', 'data')}, out='FRes'),
        dict(name='dualGet',
             doc='filters._dualmethod.__get__ (`instance`: None when the operation is looked up on the class; '
                 '`newInstance` = `cls()`; `bind obj` = the wrapped function bound to `obj`)',
             node=lambda: h.fn_ast(filters._dualmethod.__get__), generic='{ι μ : Type} ', new='newInstance',
             params=[('newInstance', 'ι'), ('bind', 'ι → μ'), ('inst', 'Option ι')],
             names={'instance': ('inst', 'optinst'), 'cls': ('cls', 'cls')},
             binds={'self.__wrapped__.__get__': ('bind', ('inst', 'cls'))}, out='μ',
             fall=lambda e, i: (_ for _ in ()).throw(h.Untranslatable('__get__ returns None on some path'))),
    ], dict(name='isInitialized', doc='block.SBlock.is_initialized', node=lambda: h.fn_ast(block.SBlock.is_initialized),
            params=[('output', 'Val')], names={'self._output': ('output', 'val'), 'UNDEF': ('Val.undef', 'val')})


def edge_defaults(h):
    """the defaults of the signature of Edge.__init__ as the model's EdgeArgs"""
    from edzed.blocklib import filters
    fn = h.fn_ast(filters.Edge.__init__)
    a = fn.args
    if a.vararg or a.kwarg or a.kwonlyargs or a.posonlyargs:
        raise h.Untranslatable('signature shape of Edge.__init__')
    names = [x.arg for x in a.args][1:]
    if names != ['rise', 'fall', 'u_rise', 'u_fall'] or len(a.defaults) != 4:
        raise h.Untranslatable(f'parameters of Edge.__init__: {names}, {len(a.defaults)} defaults')
    out = []
    for field, name, d in zip(('rise', 'fall', 'uRise', 'uFall'), names, a.defaults):
        if not (isinstance(d, ast.Constant) and (d.value is None or isinstance(d.value, bool))):
            raise h.Untranslatable(f'default of {name}: {ast.unparse(d)}')
        if field == 'uRise':
            out.append(f'{field} := ' + ('none' if d.value is None else f'some {str(d.value).lower()}'))
        elif d.value is None:
            raise h.Untranslatable(f'default of {name} is None')
        else:
            out.append(f'{field} := {str(d.value).lower()}')
    return 'def edgeInitDefaults : EdgeArgs :=\n  { ' + ', '.join(out) + ' }'


def op_signatures(h):
    """
    The chainable operations of DataEdit (and its constructor): the edit functions themselves are translated by
    py2lean.py (TrEdit) from the function each operation appends -- here the REST of the method is checked to be
    nothing but: an optional inner `def` of that function, (add_output only) the two statements that resolve the
    source block, exactly one unconditional `self._editlist.append(<that function or a lambda>)`, `return self`.
    The parameters of the method in order are emitted, because the names captured by the edit function are bound
    by them (swapping `src` and `dst` in a signature swaps their meaning without changing the edit function).
    """
    from edzed.blocklib import filters
    D = filters.DataEdit
    U = h.Untranslatable
    plumbing = ['src = types.SimpleNamespace(block=source)', "simulator.get_circuit().resolve_name(src, 'block')"]

    def params(fn):
        a = fn.args
        if a.posonlyargs or a.kwonlyargs or [x.arg for x in a.args][:1] != ['self']:
            raise U('signature shape')
        pos = a.args[1:]
        dfl = [None] * (len(pos) - len(a.defaults)) + list(a.defaults)
        out = [x.arg + ('' if d is None else '=' + ast.unparse(d)) for x, d in zip(pos, dfl)]
        if a.vararg:
            out.append('*' + a.vararg.arg)
        if a.kwarg:
            out.append('**' + a.kwarg.arg)
        return out

    def shape(fn, name):
        body = [s for s in fn.body
                if not (isinstance(s, ast.Expr) and isinstance(s.value, ast.Constant) and isinstance(s.value.value, str))]
        inner, appended, state = None, 0, 'start'
        for s in body:
            if state == 'done':
                raise U('statement after `return self`')
            if isinstance(s, ast.FunctionDef) and inner is None and appended == 0:
                inner = s.name
            elif name == 'add_output' and appended == 0 and ast.unparse(s) in plumbing:
                if ast.unparse(s) != plumbing[0 if state == 'start' else 1]:
                    raise U('order of the source block resolution')
                state = 'p1' if state == 'start' else 'p2'
            elif (isinstance(s, ast.Expr) and isinstance(s.value, ast.Call) and not s.value.keywords
                  and ast.unparse(s.value.func) == 'self._editlist.append' and len(s.value.args) == 1):
                arg = s.value.args[0]
                if appended or not (isinstance(arg, ast.Lambda) or (isinstance(arg, ast.Name) and arg.id == inner)):
                    raise U('more than one / an unknown function appended')
                if name == 'add_output' and state != 'p2':
                    raise U('the source block is not resolved before the append')
                appended += 1
            elif isinstance(s, ast.Return) and isinstance(s.value, ast.Name) and s.value.id == 'self' and appended == 1:
                state = 'done'
            else:
                raise U('statement ' + ast.unparse(s).split('\n')[0][:60])
        if state != 'done':
            raise U('no `return self` after the append')

    rows, lost = [], []
    try:
        init = h.fn_ast(D.__init__)
        body = [s for s in init.body
                if not (isinstance(s, ast.Expr) and isinstance(s.value, ast.Constant))]
        if not (len(body) == 1 and isinstance(body[0], (ast.Assign, ast.AnnAssign))
                and ast.unparse(body[0].targets[0] if isinstance(body[0], ast.Assign) else body[0].target) == 'self._editlist'
                and isinstance(body[0].value, ast.List) and not body[0].value.elts):
            raise U('body is not `self._editlist = []`')
        rows.append(('__init__', params(init)))
    except Exception as err:
        lost.append(('__init__', err))
    for name in sorted(n for n, v in vars(D).items() if not n.startswith('_') and isinstance(v, filters._dualmethod)):
        try:
            fn = h.fn_ast(vars(D)[name].__wrapped__)
            shape(fn, name)
            rows.append((name, params(fn)))
        except Exception as err:
            lost.append((name, err))
    L = ['/-- `DataEdit.__init__` (creates the empty `_editlist`) and the chainable operations of DataEdit: each is',
         '    verified to append exactly ONE edit function (the one translated as `Gen.TrF.edit…`) to `_editlist`,',
         '    unconditionally, and to return `self`; listed with the parameters of the method in order -/',
         'def dataEditOpSignatures : List (String × List String) :=',
         '  [' + ',\n   '.join('(' + json.dumps(n) + ', [' + ', '.join(json.dumps(x) for x in ps) + '])' for n, ps in rows) + ']']
    for n, err in lost:
        L.insert(0, f"-- UNTRANSLATABLE `DataEdit.{n}`: left out of `dataEditOpSignatures` ({' '.join(str(err).split())[:160]})")
        print(f'UNTRANSLATABLE dataEditOpSignatures[{n}] (filters.DataEdit.{n}): {err}')
    return L


BLOCK_TYPES = {'block.Block': '.block', 'block.SBlock': '.sblock', 'block.CBlock': '.cblock'}


def resolver_default(h):
    """the default of `block_type` in `_BlockResolver.register` (= `Circuit.resolve_name`)"""
    from edzed import simulator
    fn = h.fn_ast(simulator._BlockResolver.register)
    names = [a.arg for a in fn.args.args]
    if names != ['self', 'obj', 'attr', 'block_type'] or len(fn.args.defaults) != 1 or fn.args.kwonlyargs:
        raise h.Untranslatable(f'signature of _BlockResolver.register: {names}')
    d = ast.unparse(fn.args.defaults[0])
    if d not in BLOCK_TYPES:
        raise h.Untranslatable(f'default block_type {d}')
    return f'def resolverDefaultBlockType : BlockType := {BLOCK_TYPES[d]}'


def ctrl_init(h, cls, name):
    """`__init__` of a control-block filter: `self.<attr> = <the argument>` and then
    `simulator.get_circuit().resolve_name(self, '<attr>'[, block_type=<class>])`, nothing else"""
    fn = h.fn_ast(cls.__init__)          # the constructor Python would run (an inherited one included)
    U = h.Untranslatable
    a = fn.args
    if len(a.args) != 2 or a.vararg or a.kwarg or a.kwonlyargs or a.defaults:
        raise U('signature of the constructor')
    param = a.args[1].arg
    stored = registered = btype = None
    for s in fn.body:
        if isinstance(s, ast.Expr) and isinstance(s.value, ast.Constant) and isinstance(s.value.value, str):
            continue
        if (isinstance(s, ast.Assign) and len(s.targets) == 1 and isinstance(s.targets[0], ast.Attribute)
                and isinstance(s.targets[0].value, ast.Name) and s.targets[0].value.id == 'self'
                and isinstance(s.value, ast.Name) and s.value.id == param and stored is None and registered is None):
            stored = s.targets[0].attr
        elif (isinstance(s, ast.Expr) and isinstance(s.value, ast.Call)
              and ast.unparse(s.value.func) == 'simulator.get_circuit().resolve_name' and registered is None):
            if stored is None:
                raise U('the reference is registered before it is stored')
            c = s.value
            pos = list(c.args)
            kws = {k.arg: k.value for k in c.keywords}
            if (len(pos) not in (2, 3) or not (isinstance(pos[0], ast.Name) and pos[0].id == 'self')
                    or not (isinstance(pos[1], ast.Constant) and isinstance(pos[1].value, str))
                    or set(kws) - {'block_type'} or (len(pos) == 3 and kws)):
                raise U('arguments of resolve_name: ' + ast.unparse(c))
            registered = pos[1].value
            bt = pos[2] if len(pos) == 3 else kws.get('block_type')
            if bt is None:
                btype = 'resolverDefaultBlockType'
            elif ast.unparse(bt) in BLOCK_TYPES:
                btype = BLOCK_TYPES[ast.unparse(bt)]
            else:
                raise U('block_type ' + ast.unparse(bt))
        else:
            raise U('statement ' + ast.unparse(s)[:70])
    if stored is None or registered is None:
        raise U('the reference is not stored / not registered')
    return (f'def {name} : CtrlRef :=\n  {{ stored := {json.dumps(stored)}, registered := {json.dumps(registered)}, '
            f'blockType := {btype} }}')


def ctrl_asserts(h, cls, name):
    """the sanity check at the beginning of `__call__`: `assert isinstance(self.<attr>, <class>)` (at most one)"""
    fn = h.fn_ast(cls.__call__)
    found = []
    for s in ast.walk(fn):
        if isinstance(s, ast.Assert):
            t = s.test
            if not (isinstance(t, ast.Call) and isinstance(t.func, ast.Name) and t.func.id == 'isinstance'
                    and len(t.args) == 2 and isinstance(t.args[0], ast.Attribute)
                    and isinstance(t.args[0].value, ast.Name) and t.args[0].value.id == 'self'
                    and ast.unparse(t.args[1]) in BLOCK_TYPES):
                raise h.Untranslatable('assert ' + ast.unparse(t))
            found.append((t.args[0].attr, BLOCK_TYPES[ast.unparse(t.args[1])]))
    if len(found) > 1 or (found and not isinstance(fn.body[0 if not isinstance(fn.body[0], ast.Expr) else 1], ast.Assert)):
        raise h.Untranslatable('more than one assert / not the first statement')
    val = 'none' if not found else f'some ({json.dumps(found[0][0])}, {found[0][1]})'
    return f'def {name} : Option (String × BlockType) := {val}'


def sentinels(h):
    """the class-level assignments of DataEdit: the markers a modify() function may return"""
    from edzed.blocklib import filters
    import inspect
    import textwrap
    tree = ast.parse(textwrap.dedent(inspect.getsource(filters.DataEdit)))
    rows = []
    for s in tree.body[0].body:
        if isinstance(s, (ast.Assign, ast.AnnAssign)):
            tg = s.targets if isinstance(s, ast.Assign) else [s.target]
            if len(tg) != 1 or not isinstance(tg[0], ast.Name) or s.value is None:
                raise h.Untranslatable('class-level assignment ' + ast.unparse(s))
            rows.append((tg[0].id, ast.unparse(s.value)))
    return ('def dataEditSentinels : List (String × String) :=\n  ['
            + ', '.join(f'({json.dumps(n)}, {json.dumps(v)})' for n, v in rows) + ']')


def main_filters(outfile, h):
    L = ['/- GENERATED by tools/py2lean_filters.py (via tools/py2lean.py) from the Python source of edzed',
         '   (blocklib/filters.py: Edge.__init__, Delta, IfOutput, IfNotIitialized, DataEdit.__call__;',
         '   block.SBlock.is_initialized) -- do not edit -/',
         'import EdzedModel.Filters', '', 'namespace Edzed.Gen.TrFo', 'open Edzed.Filters', '',
         '/-- how the result of a translated edit function (`Gen.TrF.edit…`, `EditOp.apply`) reads as the Python',
         '    object that the call `func(data)` produces: the dict, `None` (REJECT), or an exception -/',
         'def editResult : Except Stop Data → FRes',
         '  | .ok d => .mapping d',
         '  | .error .reject => .other Val.none',
         '  | .error (.raise e) => .raise e', '']
    objs, isinit = targets(h)

    def translate(t):
        tr = TrObj(h, t)
        body = tr.function(t['node']())
        params = ' '.join(f'({n} : {ty})' for n, ty in t['params'])
        text = f"def {t['name']} {t.get('generic', '')}{params} : {t['out']} :=\n{body}"
        return '\n\n'.join(tr.loops + [text])

    def translate_value(t):
        body, rty = h.Tr(t).function(t['node']())
        params = ' '.join(f'({n} : {ty})' for n, ty in t['params'])
        return f"def {t['name']} {params} : {h.LEAN_TYPE.get(rty, rty)} :=\n{body}"

    h.emit(L, dict(name='edgeInitDefaults', doc='filters.Edge.__init__: the defaults of the signature'),
           lambda t: edge_defaults(h), '')
    h.emit(L, isinit, translate_value, '')
    for t in objs:
        h.emit(L, t, translate, t.get('header', ''))
    L += op_signatures(h) + ['']
    from edzed.blocklib import filters
    h.emit(L, dict(name='dataEditSentinels', doc='filters.DataEdit: the class attributes (expression text); '
                   '`object()` = a fresh object, identical to nothing else'), lambda t: sentinels(h), '')
    h.emit(L, dict(name='resolverDefaultBlockType', doc='simulator._BlockResolver.register: default of block_type'),
           lambda t: resolver_default(h), '')
    for cls, nm in ((filters.IfOutput, 'ifOutput'), (filters.IfNotIitialized, 'ifNotInit')):
        h.emit(L, dict(name=nm + 'Init', doc=f'filters.{cls.__name__}.__init__'),
               lambda t, cls=cls, nm=nm: ctrl_init(h, cls, nm + 'Init'),
               ': where the control block reference is stored and how it is registered with the resolver')
        h.emit(L, dict(name=nm + 'Asserts', doc=f'filters.{cls.__name__}.__call__: the leading assert'),
               lambda t, cls=cls, nm=nm: ctrl_asserts(h, cls, nm + 'Asserts'), '')
    L.append('end Edzed.Gen.TrFo')
    h.write_if_changed(outfile, '\n'.join(L) + '\n')


if __name__ == '__main__':
    import sys
    sys.path.insert(0, os.path.dirname(os.path.abspath(__file__)))
    import py2lean
    main_filters(sys.argv[1], py2lean)
