#!/usr/bin/env python3
"""
Confirm a seeded defect and run the checks against it (development tool, not a registered check).

usage: tools/seed_eval.py <PROP> <name> <patch.diff> <demo.py> [--needs "what it needs to manifest"]
                          [--checks C01,C10] [--tier quick] [--skip-tests]

  1. scratch worktree of /repo under /tmp/sv/<name> (removed afterwards);
  2. unchanged tree: demo must pass (exit 0);
  3. patch applied: repository test suite must still pass (same failures as the baseline allows), demo must fail;
  4. ./check <PROP> (and further checks) with EDZED_SRC=<scratch> : caught or missed;
  5. writes /verif/seeded/<name>/{patch.diff, demo.py, meta.json}.
"""
import argparse
import json
import os
import re
import shutil
import subprocess
import sys

ROOT = os.path.dirname(os.path.dirname(os.path.abspath(__file__)))
FLAKY = {'test_executor', 'test_executor_args'}


def sh(cmd, **kw):
    return subprocess.run(cmd, shell=isinstance(cmd, str), capture_output=True, text=True, **kw)


def main():
    ap = argparse.ArgumentParser()
    ap.add_argument('prop')
    ap.add_argument('name')
    ap.add_argument('patch')
    ap.add_argument('demo')
    ap.add_argument('--needs', default='')
    ap.add_argument('--note', default='')
    ap.add_argument('--checks', default='')
    ap.add_argument('--tier', default='quick')
    ap.add_argument('--skip-tests', action='store_true')
    a = ap.parse_args()
    wt = f'/tmp/sv/{a.name}'
    os.makedirs('/tmp/sv', exist_ok=True)
    sh(f'git -C /repo worktree remove --force {wt}')
    r = sh(f'git -C /repo worktree add --detach {wt} HEAD')
    assert r.returncode == 0, r.stderr
    meta = {'property': a.prop, 'name': a.name, 'needs': a.needs, 'note': a.note, 'ran': []}
    try:
        env = dict(os.environ, PYTHONPATH=wt, PYTHONDONTWRITEBYTECODE='1')
        # the script's own directory is sys.path[0]: run a copy placed in the scratch tree
        demo = os.path.join(wt, '_seed_demo.py')
        shutil.copy(os.path.abspath(a.demo), demo)
        d0 = sh(['/venv/bin/python', demo], env=env, cwd=wt, timeout=300)
        meta['demo_unchanged'] = {'exit': d0.returncode, 'tail': (d0.stdout + d0.stderr)[-300:]}
        r = sh(f'git -C {wt} apply {os.path.abspath(a.patch)}')
        if r.returncode != 0:
            print('PATCH DOES NOT APPLY:', r.stderr)
            return 2
        d1 = sh(['/venv/bin/python', demo], env=env, cwd=wt, timeout=300)
        meta['demo_patched'] = {'exit': d1.returncode, 'tail': (d1.stdout + d1.stderr)[-600:]}
        if not a.skip_tests:
            t = sh(['/venv/bin/python', '-m', 'pytest', '-q', '-p', 'no:cacheprovider', '--timeout=900', 'tests'],
                   env=env, cwd=wt, timeout=1800)
            tail = (t.stdout or '').strip().split('\n')[-1]
            failed = set(re.findall(r'FAILED tests/\S+::(\w+)', t.stdout or ''))
            # timing tests fail at random on a loaded machine: re-run the failed ones alone (twice)
            ids = re.findall(r'FAILED (tests/\S+)', t.stdout or '')
            still = set()
            for tid in ids:
                if tid.split('::')[-1] in FLAKY:
                    continue
                for _ in range(3):
                    rr = sh(['/venv/bin/python', '-m', 'pytest', '-q', '-p', 'no:cacheprovider', tid], env=env, cwd=wt,
                            timeout=600)
                    if rr.returncode == 0:
                        break
                else:
                    still.add(tid)
            meta['tests_patched'] = {'summary': tail, 'failed_first_run': sorted(failed),
                                     'failed_after_rerun': sorted(still), 'ok': not still}
        results = {}
        for chk in [a.prop] + [c for c in a.checks.split(',') if c]:
            p = sh([os.path.join(ROOT, 'check'), chk, '--tier', a.tier], env=dict(os.environ, EDZED_SRC=wt), cwd=ROOT)
            viol = [l for l in p.stdout.split('\n') if l.startswith('VIOLATION')]
            detail = ''
            if viol:
                rp = viol[0].split('replay=')[1].split()[0]
                try:
                    rj = json.load(open(rp))
                    detail = ((rj.get('oracle') or {}).get('clause') or rj.get('kind') or '') + ': ' + \
                        str((rj.get('oracle') or {}).get('what') or rj.get('divergence') or rj.get('broken'))[:300]
                except Exception:
                    pass
            results[chk] = {'exit': p.returncode, 'violation_lines': viol[:3], 'detail': detail,
                            'summary': p.stdout.strip().split('\n')[-1][:300], 'stderr': p.stderr[-300:] if p.returncode == 2 else ''}
        meta['checks'] = results
        meta['caught_by'] = sorted(c for c, v in results.items() if v['exit'] == 1)
        meta['confirmed'] = (meta['demo_unchanged']['exit'] == 0 and meta['demo_patched']['exit'] != 0
                             and (a.skip_tests or meta['tests_patched']['ok']))
        meta['ran'] = [f'git worktree add {wt}; demo on the unchanged tree; git apply patch.diff; demo; '
                       f'pytest tests (PYTHONPATH=worktree); EDZED_SRC={wt} ./check <id> --tier {a.tier}']
        out = os.path.join(ROOT, 'seeded', a.name)
        os.makedirs(out, exist_ok=True)
        shutil.copy(a.patch, os.path.join(out, 'patch.diff'))
        shutil.copy(a.demo, os.path.join(out, 'demo.py'))
        json.dump(meta, open(os.path.join(out, 'meta.json'), 'w'), indent=1)
        print(json.dumps(meta, indent=1))
    finally:
        sh(f'git -C /repo worktree remove --force {wt}')
        # restore the evidence of the real tree
        for chk in [a.prop] + [c for c in a.checks.split(',') if c]:
            sh([os.path.join(ROOT, 'check'), chk, '--tier', 'quick'], cwd=ROOT)
    return 0


if __name__ == '__main__':
    sys.exit(main())
