#!/bin/sh
# integrate a builder branch: generated files are regenerated, never merged by hand
# usage: tools/merge_branch.sh <branch>
set -e
cd "$(dirname "$0")/.."
b="$1"
GEN="MANIFEST.json lean/Driver.lean lean/EdzedModel.lean lean/EdzedProofs.lean lean/EdzedProps.lean $(ls lean/EdzedModel/Gen/*.lean | tr "\n" " ")"
# local changes (evidence rewritten by check runs) would block the merge
git add -A; git commit -qm "work in progress before merging $b" || true
git merge --no-commit "$b" || true
for f in $GEN; do git checkout --ours -- "$f" 2>/dev/null || true; done
# evidence files are rewritten by every run: take the branch's version
for f in $(git diff --name-only --diff-filter=U | grep "^evidence/" || true); do git checkout --theirs -- "$f"; git add "$f"; done
# known_findings.json: union of the entries by id
if git diff --name-only --diff-filter=U | grep -q '^known_findings.json$'; then
  git show HEAD:known_findings.json > /tmp/kf_ours.json
  git show "$b":known_findings.json > /tmp/kf_theirs.json
  python3 - <<'PY'
import json
a = json.load(open('/tmp/kf_ours.json')); b = json.load(open('/tmp/kf_theirs.json'))
ids = {e['id'] for e in a}
a += [e for e in b if e['id'] not in ids]
json.dump(a, open('known_findings.json', 'w'), indent=1)
PY
  git add known_findings.json
fi
# tools/py2lean.py: every builder adds its two-line hook at the end of main(): keep both sides
if git diff --name-only --diff-filter=U | grep -q '^tools/py2lean.py$'; then
  python3 - <<'PY'
import ast, re
p = 'tools/py2lean.py'
s = re.sub(r'^<<<<<<< .*\n|^=======\n|^>>>>>>> .*\n', '', open(p).read(), flags=re.M)
ast.parse(s)
open(p, 'w').write(s)
PY
  git add tools/py2lean.py
fi
left=$(git diff --name-only --diff-filter=U | grep -v -F -e MANIFEST.json -e lean/Driver.lean -e lean/EdzedModel.lean -e lean/EdzedProofs.lean -e lean/EdzedProps.lean -e Gen/Constants.lean || true)
if [ -n "$left" ]; then echo "UNRESOLVED: $left"; exit 1; fi
python3 tools/gen_driver.py >/dev/null
python3 tools/gen_manifest.py
EDZED_SRC=/repo PYTHONPATH=/repo /venv/bin/python tools/extract.py lean/EdzedModel/Gen/Constants.lean
EDZED_SRC=/repo PYTHONPATH=/repo /venv/bin/python tools/py2lean.py lean/EdzedModel/Gen/Translated.lean
git add -A
git commit -qm "Merge $b"
echo merged "$b"
