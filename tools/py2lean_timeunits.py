"""
Translator module for `edzed/utils/timeunits.py` (called from tools/py2lean.py: main()).

Regenerates lean/EdzedModel/Gen/TranslatedTimeUnits.lean from the CURRENT source of

    time_period      -> Gen.TrTu.timePeriod      the type dispatch
    _convert         -> Gen.TrTu.convertStep     the body of the loop over the match groups
                        Gen.TrTu.convert         pattern order, the loop as a fold, the final checks
    timestr          -> Gen.TrTu.timestr
    timestr_approx   -> Gen.TrTu.timestrApprox

Statement order, conditions, early returns / raises / `continue`, the order of the patterns and of the
scale factors, every constant and every call argument come from the AST.  Declared (see
lean/EdzedModel/TimeUnitsPy.lean) is only the meaning of the leaves: built-ins (`float`, `int`, `round`,
`max`, `divmod`, `isinstance`), `str`/`re` methods (`in`, `replace`, `join`, `fullmatch`, `groups`),
format specifications and the constants of tconst.py (-> `Gen.secPer…`).

Translation scheme (plain Lean, no monad):
  * a statement list is translated in continuation-passing style; an `if` whose branches can leave the
    function (return / raise / continue) duplicates the continuation, any other `if` becomes a
    `let (assigned names) := if c then … else …` join;
  * names are numbered (SSA); a number carries its value (`Rat`) and its Python kind (`Bool`, true = float)
    because the code tests `isinstance(seconds, float)` after re-assignments;
  * a name that is bound only on some paths (`sprec`) gets the default 0 on the others (Python would raise
    NameError there; these paths do not use it);
  * `for a, b in zip(reversed(m.groups()), (c0, c1, …)): body` becomes a step function on the loop-carried
    names and `List.foldlM` over the zipped list;
  * `ValueError(msg)` is classified by key words of the message into the model's four reasons.
Anything else: UNTRANSLATABLE, the definition is omitted and the theorems
`TrTie.translated_timeunits_…` (EdzedProps/C19.lean) stop compiling.
"""
import ast
import inspect
import os
import textwrap
from fractions import Fraction


class Untranslatable(Exception):
    pass


CONSTS = {'SEC_PER_DAY': 'Gen.secPerDay', 'SEC_PER_HOUR': 'Gen.secPerHour', 'SEC_PER_MIN': 'Gen.secPerMin'}
PATTERNS = {'_RE_DURATION': '.trad', '_RE_ISO_DURATION': '.iso'}


def chars(text):
    return '[' + ', '.join("'" + {"'": "\\'", '\\': '\\\\'}.get(c, c) + "'" for c in text) + ']'


def err_of_message(node):
    """ValueError("...") -> the model's reason (declared: key words of the message)"""
    msg = ''
    if isinstance(node, ast.Call) and node.args:
        a = node.args[0]
        if isinstance(a, ast.Constant) and isinstance(a.value, str):
            msg = a.value
        elif isinstance(a, ast.JoinedStr):
            msg = ''.join(v.value for v in a.values if isinstance(v, ast.Constant))
    if 'fraction' in msg:
        return '.fraction'
    if 'calendar' in msg or 'year' in msg or 'month' in msg:
        return '.calendar'
    if 'at least one' in msg or 'must be present' in msg:
        return '.empty'
    return '.syntax'


def exc_class(node):
    """class name of `raise Cls` / `raise Cls(message)`; the message is evaluated eagerly, so it must be a
    string constant or an f-string over plain names"""
    if node is None:
        raise Untranslatable('bare raise')
    f = node.func if isinstance(node, ast.Call) else node
    if not isinstance(f, ast.Name):
        raise Untranslatable('raise of ' + ast.dump(node)[:60])
    if isinstance(node, ast.Call):
        if node.keywords or len(node.args) > 1:
            raise Untranslatable('exception arguments ' + ast.dump(node)[:60])
        for a in node.args:
            if isinstance(a, ast.Constant) and isinstance(a.value, str):
                continue
            if isinstance(a, ast.JoinedStr) and all(
                    isinstance(v, ast.Constant) or (isinstance(v, ast.FormattedValue) and v.format_spec is None
                                                     and isinstance(v.value, ast.Name)) for v in a.values):
                continue
            raise Untranslatable('exception message is not a constant / f-string over names: ' + ast.dump(a)[:60])
    return f.id


def exits(stmts):
    for s in stmts:
        for n in ast.walk(s):
            if isinstance(n, (ast.Return, ast.Raise, ast.Continue, ast.Break)):
                return True
    return False


def assigned(stmts):
    out = []

    def add(t):
        if isinstance(t, ast.Name):
            if t.id not in out:
                out.append(t.id)
        elif isinstance(t, ast.Tuple):
            for e in t.elts:
                add(e)
        else:
            raise Untranslatable('assignment target ' + ast.dump(t)[:60])
    for s in stmts:
        for n in ast.walk(s):
            if isinstance(n, ast.Assign):
                for t in n.targets:
                    add(t)
            elif isinstance(n, ast.AugAssign):
                add(n.target)
            elif isinstance(n, ast.NamedExpr):
                add(n.target)
            elif isinstance(n, ast.Call) and isinstance(n.func, ast.Attribute) and n.func.attr == 'append' \
                    and isinstance(n.func.value, ast.Name):
                add(n.func.value)
    return out


class V:
    """a translated value: ty in num | nat | bool | chars | parts | obj | g | og | onat | groups | none"""

    def __init__(self, ty, a=None, b=None, maybe=False):
        self.ty, self.a, self.b = ty, a, b     # num: a = value (Rat), b = kind (Bool); others: a
        self.maybe = maybe                     # bound on some paths only (0 on the others, see `guard`)

    def comps(self):
        return [self.a, self.b] if self.ty == 'num' else [self.a]


LEAN_TY = {'nat': 'Nat', 'bool': 'Bool', 'chars': 'List Char', 'parts': 'List (List Char)', 'g': 'Num',
           'og': 'Option Num', 'onat': 'Option Nat', 'groups': 'List (Option Num)', 'obj': 'Val'}
DEFAULTS = {'nat': '0', 'bool': 'false'}


def bor(a, b):
    if a == 'true' or b == 'true':
        return 'true'
    if a == 'false':
        return b
    if b == 'false':
        return a
    return a if a == b else f'({a} || {b})'


class Tr:
    def __init__(self, ret, raise_, cont=None):
        self.n = 0
        self.ret, self.raise_, self.cont = ret, raise_, cont
        self.prefix, self.rtype, self.stage_n, self.defs = None, None, 0, []     # staging (see rest_call)
        self.guards = []    # names tested by the conditions that guard the current position
                            # (if body, tail of `and`/`or`, arm of a conditional expression)

    def read(self, name, v):
        """A name that is bound on some paths only (`v.maybe` = the names tested by the ifs under which it
        is bound) may be read only where a condition over one of these names guards the read: Python relies
        on that guard to avoid the NameError; the translation gives the name the value 0 on the other paths."""
        if v.maybe and not any(g & v.maybe for g in self.guards):
            raise Untranslatable(f'{name} may be unbound here')
        return v

    def guarded(self, test_nodes):
        tr = self

        class G:
            def __enter__(self_):
                tr.guards.append({n.id for t in test_nodes for n in ast.walk(t) if isinstance(n, ast.Name)})

            def __exit__(self_, *exc):
                tr.guards.pop()
        return G()

    def fresh(self, base):
        self.n += 1
        return f'{base}{self.n}'

    # ------------------------------------------------------------ expressions

    def rat_const(self, value):
        f = Fraction(repr(value)) if isinstance(value, float) else Fraction(value)
        return f'({f.numerator} : Rat)' if f.denominator == 1 else f'(({f.numerator} : Rat) / {f.denominator})'

    def nat_expr(self, node, env):
        """an expression that is a natural number (a constant of tconst.py, a literal, a product, a nat name)"""
        if isinstance(node, ast.Constant) and isinstance(node.value, int) and not isinstance(node.value, bool) \
                and node.value >= 0:
            return str(node.value)
        if isinstance(node, ast.Name) and node.id in CONSTS and node.id not in env:
            return CONSTS[node.id]
        if isinstance(node, ast.Name) and node.id in env and env[node.id].ty == 'nat':
            return self.read(node.id, env[node.id]).a
        if isinstance(node, ast.BinOp) and isinstance(node.op, ast.Mult):
            a, b = self.nat_expr(node.left, env), self.nat_expr(node.right, env)
            if b.isdigit() and not a.isdigit():
                a, b = b, a                          # a literal factor is written first
            return f'({a} * {b})'
        raise Untranslatable('not a natural number: ' + ast.dump(node)[:80])

    def num(self, node, env):
        """-> (value : Rat, kind : Bool)"""
        if isinstance(node, ast.Constant) and isinstance(node.value, (int, float)) and not isinstance(node.value, bool):
            return self.rat_const(node.value), 'true' if isinstance(node.value, float) else 'false'
        if isinstance(node, ast.Name):
            if node.id in env:
                v = self.read(node.id, env[node.id])
                if v.ty == 'num':
                    return v.a, v.b
                if v.ty == 'nat':
                    return f'(({v.a} : Nat) : Rat)', 'false'
                raise Untranslatable(f'{node.id} is not a number here ({v.ty})')
            if node.id in CONSTS:
                return f'(({CONSTS[node.id]} : Nat) : Rat)', 'false'
            raise Untranslatable(f'unknown name {node.id}')
        if isinstance(node, ast.BinOp):
            try:
                n = self.nat_expr(node, env)
                return f'(({n} : Nat) : Rat)', 'false'
            except Untranslatable:
                pass
            (a, ka), (b, kb) = self.num(node.left, env), self.num(node.right, env)
            if isinstance(node.op, ast.Div):
                return f'({a} / {b})', 'true'
            sym = {ast.Add: '+', ast.Sub: '-', ast.Mult: '*'}.get(type(node.op))
            if sym:
                return f'({a} {sym} {b})', bor(ka, kb)
            raise Untranslatable('operator ' + type(node.op).__name__)
        if isinstance(node, ast.Call) and isinstance(node.func, ast.Name) and not node.keywords:
            fn, args = node.func.id, node.args
            if fn == 'float' and len(args) == 1:
                return self.num(args[0], env)[0], 'true'
            if fn == 'int' and len(args) == 1:
                return f'((Py.pyTrunc {self.num(args[0], env)[0]} : Int) : Rat)', 'false'
            if fn == 'round' and len(args) == 2:
                v, k = self.num(args[0], env)
                p = self.nat_expr(args[1], env)
                if k == 'true':
                    return f'(Py.pyRound2 {v} {p})', 'true'
                if k == 'false':
                    return v, 'false'
                return f'(if {k} then Py.pyRound2 {v} {p} else {v})', k
            if fn == 'round' and len(args) == 1:
                v, k = self.num(args[0], env)
                if k == 'false':
                    return v, 'false'
                if k != 'true':
                    raise Untranslatable('round(x) of a number of unknown kind')
                return f'((Py.pyRound1 {v} : Int) : Rat)', 'false'
            if fn == 'max' and len(args) == 2:
                (a, ka), (b, kb) = self.num(args[0], env), self.num(args[1], env)
                if ka != kb:
                    raise Untranslatable('max of numbers of different kinds')
                return f'(Py.pyMax {a} {b})', ka
        raise Untranslatable('numeric expression ' + ast.dump(node)[:80])

    def string(self, node, env):
        """-> List Char"""
        if isinstance(node, ast.Constant) and isinstance(node.value, str):
            return chars(node.value)
        if isinstance(node, ast.Name) and node.id in env and env[node.id].ty == 'chars':
            return env[node.id].a
        if isinstance(node, ast.IfExp):
            pre, c, env2 = self.cond(node.test, env)
            if pre:
                raise Untranslatable('walrus in a conditional expression')
            with self.guarded([node.test]):
                arms = (self.string(node.body, env), self.string(node.orelse, env))
            return f'(if {c} then {arms[0]} else {arms[1]})'
        if isinstance(node, ast.JoinedStr):
            out = []
            for part in node.values:
                if isinstance(part, ast.Constant):
                    out.append(chars(part.value))
                    continue
                if part.conversion != -1:
                    raise Untranslatable('f-string conversion')
                if part.format_spec is None:
                    v = part.value
                    if isinstance(v, ast.Call) and isinstance(v.func, ast.Name) and v.func.id == 'int' \
                            and len(v.args) == 1:
                        out.append(f'Py.pyIntStr (Py.pyTrunc {self.num(v.args[0], env)[0]})')
                    else:
                        a, k = self.num(v, env)
                        out.append(f'Py.pyStrNum {a} {k}')
                    continue
                spec = part.format_spec.values
                if len(spec) == 3 and isinstance(spec[0], ast.Constant) and spec[0].value == '.' \
                        and isinstance(spec[1], ast.FormattedValue) and spec[1].format_spec is None \
                        and isinstance(spec[2], ast.Constant) and spec[2].value == 'f':
                    a, _k = self.num(part.value, env)
                    out.append(f'Py.pyFormatFixed {a} {self.nat_expr(spec[1].value, env)}')
                    continue
                raise Untranslatable('format specification ' + ast.dump(part.format_spec)[:80])
            return '(' + ' ++ '.join(out or ['[]']) + ')'
        if isinstance(node, ast.Call) and isinstance(node.func, ast.Attribute) and node.func.attr == 'join' \
                and len(node.args) == 1 and isinstance(node.args[0], ast.Name) \
                and env.get(node.args[0].id, V('x')).ty == 'parts':
            return f'(joinParts {self.string(node.func.value, env)} {env[node.args[0].id].a})'
        raise Untranslatable('string expression ' + ast.dump(node)[:80])

    def cond(self, test, env):
        """-> (prelude: list of (lean name, lean type, lean expr), Bool expression, env)"""
        if isinstance(test, ast.NamedExpr):
            pre, c, env = self.cond(test.value, env)
            nm = self.fresh(test.target.id)
            env = dict(env)
            env[test.target.id] = V('bool', nm)
            return pre + [(nm, 'Bool', c)], nm, env
        if isinstance(test, ast.UnaryOp) and isinstance(test.op, ast.Not):
            pre, c, env = self.cond(test.operand, env)
            return pre, f'(!{c})', env
        if isinstance(test, ast.BoolOp):
            pre, c, env = self.cond(test.values[0], env)
            parts = [c]
            for j, v in enumerate(test.values[1:], start=1):
                with self.guarded(test.values[:j]):
                    p2, c2, e2 = self.cond(v, env)
                if p2:
                    raise Untranslatable('walrus in an operand that is not always evaluated')
                parts.append(c2)
            return pre, '(' + (' && ' if isinstance(test.op, ast.And) else ' || ').join(parts) + ')', env
        if isinstance(test, ast.Compare):
            items = [test.left] + list(test.comparators)
            out = []
            for op, l, r in zip(test.ops, items, items[1:]):
                if isinstance(op, ast.In) and isinstance(l, ast.Constant) and l.value in (',', '.') \
                        and isinstance(r, ast.Name) and env.get(r.id, V('x')).ty == 'g':
                    out.append(f'(Py.{"hasComma" if l.value == "," else "hasDot"} {env[r.id].a})')
                    continue
                sym = {ast.Lt: '<', ast.Gt: '>', ast.LtE: '≤', ast.GtE: '≥', ast.Eq: '=', ast.NotEq: '≠'}.get(type(op))
                if sym is None:
                    raise Untranslatable('comparison ' + type(op).__name__)
                out.append(f'decide ({self.num(l, env)[0]} {sym} {self.num(r, env)[0]})')
            return [], out[0] if len(out) == 1 else '(' + ' && '.join(out) + ')', env
        if isinstance(test, ast.Call) and isinstance(test.func, ast.Name) and test.func.id == 'isinstance' \
                and len(test.args) == 2 and isinstance(test.args[0], ast.Name) and isinstance(test.args[1], ast.Name):
            v = env.get(test.args[0].id)
            if v is not None and v.ty == 'num' and test.args[1].id == 'float':
                return [], v.b, env
            if v is not None and v.ty == 'num' and test.args[1].id == 'int':
                return [], f'(!{v.b})', env
            raise Untranslatable(f'isinstance({test.args[0].id}, {test.args[1].id})')
        if isinstance(test, ast.Name) and test.id in env:
            v = self.read(test.id, env[test.id])
            if v.ty == 'bool':
                return [], v.a, env
            if v.ty == 'num':
                return [], f'decide ({v.a} ≠ 0)', env
        raise Untranslatable('condition ' + ast.dump(test)[:80])

    # ------------------------------------------------------------ statements

    def bind(self, env, name, val):
        """fresh Lean names for the components of `val`; -> (lets, env)"""
        env = dict(env)
        if val.ty == 'num':
            nv = self.fresh(name + '_v')
            if val.b in ('true', 'false'):          # a kind known statically stays a literal
                env[name] = V('num', nv, val.b)
                return [(nv, 'Rat', val.a)], env
            nk = self.fresh(name + '_f')
            env[name] = V('num', nv, nk)
            return [(nv, 'Rat', val.a), (nk, 'Bool', val.b)], env
        nm = self.fresh(name)
        env[name] = V(val.ty, nm)
        return [(nm, LEAN_TY[val.ty], val.a)], env

    @staticmethod
    def lets(pad, items):
        return ''.join(f'{pad}let {n} : {t} := {e}\n' for n, t, e in items)

    def value(self, node, env):
        """the value of an assignment's right-hand side"""
        if isinstance(node, ast.List) and not node.elts:
            return V('parts', '[]')
        if isinstance(node, ast.Constant) and isinstance(node.value, bool):
            return V('bool', 'true' if node.value else 'false')
        if isinstance(node, ast.Constant) and isinstance(node.value, int) and node.value >= 0:
            return V('nat', str(node.value))         # a small non-negative int literal (`sprec = 3`)
        if isinstance(node, ast.Call) and isinstance(node.func, ast.Attribute) and node.func.attr == 'replace' \
                and isinstance(node.func.value, ast.Name) and env.get(node.func.value.id, V('x')).ty == 'g':
            a = node.args
            if len(a) == 3 and all(isinstance(x, ast.Constant) for x in a) and [x.value for x in a] == [',', '.', 1]:
                return V('g', f'(Py.commaToPoint {env[node.func.value.id].a})')
            raise Untranslatable('str.replace with other arguments')
        if isinstance(node, ast.Call) and isinstance(node.func, ast.Name) and node.func.id == 'isinstance':
            pre, c, _ = self.cond(node, env)
            return V('bool', c)
        if isinstance(node, (ast.Compare, ast.BoolOp)) or (isinstance(node, ast.UnaryOp) and isinstance(node.op, ast.Not)):
            pre, c, _ = self.cond(node, env)
            if pre:
                raise Untranslatable('walrus in an assigned condition')
            return V('bool', c)
        a, k = self.num(node, env)
        return V('num', a, k)

    def rest_call(self, rest, env, ind, k):
        """the statements after a simple statement.  With staging on, they become a definition of their own
        (parameters: every name bound so far), so that the generated function is a chain of small
        definitions, one per statement, instead of one deeply nested term."""
        if self.prefix is None or not rest:
            return self.block(rest, env, ind, k)
        params, args, env2 = [], [], {}
        for name, v in env.items():
            if v.ty == 'num':
                params.append(f'({name}_v : Rat)')
                args.append(v.a)
                if v.b in ('true', 'false'):
                    env2[name] = V('num', f'{name}_v', v.b, maybe=v.maybe)
                else:
                    params.append(f'({name}_f : Bool)')
                    args.append(v.b)
                    env2[name] = V('num', f'{name}_v', f'{name}_f', maybe=v.maybe)
            elif v.ty in LEAN_TY:
                params.append(f'({name} : {LEAN_TY[v.ty]})')
                args.append(v.a)
                env2[name] = V(v.ty, name, maybe=v.maybe)
            else:
                raise Untranslatable(f'{name} of type {v.ty} across a statement boundary')
        self.stage_n += 1
        dname = f'{self.prefix}_s{self.stage_n}'
        body = self.block(rest, env2, 1, k)
        self.defs.append(f'def {dname} {" ".join(params)} : {self.rtype} :=\n' + body.rstrip('\n'))
        return '  ' * ind + dname + ''.join(' ' + (a if a.isidentifier() or a.startswith('(') else f'({a})')
                                              for a in args) + '\n'

    def block(self, stmts, env, ind, k):
        pad = '  ' * ind
        if not stmts:
            return k(env, ind)
        s, rest = stmts[0], stmts[1:]
        if isinstance(s, ast.Expr) and isinstance(s.value, ast.Constant) and isinstance(s.value.value, str):
            return self.block(rest, env, ind, k)
        if isinstance(s, ast.Return):
            return self.ret(self, s.value, env, ind)
        if isinstance(s, ast.Raise):
            return pad + self.raise_(exc_class(s.exc), s.exc) + '\n'
        if isinstance(s, ast.Continue):
            if self.cont is None:
                raise Untranslatable('continue outside the loop')
            return self.cont(env, ind)
        if isinstance(s, ast.Pass):
            return self.block(rest, env, ind, k)
        if isinstance(s, ast.If):
            special = self.special_if(s, rest, env, ind, k)
            if special is not None:
                return special
            pre, c, env1 = self.cond(s.test, env)
            head = self.lets(pad, pre)
            env_then, env_else = env1, env1
            t = s.test
            if isinstance(t, ast.Call) and isinstance(t.func, ast.Name) and t.func.id == 'isinstance' \
                    and isinstance(t.args[0], ast.Name) and env1.get(t.args[0].id, V('x')).ty == 'num' \
                    and isinstance(t.args[1], ast.Name) and t.args[1].id == 'float':
                env_then, env_else = dict(env1), dict(env1)      # the kind is known inside the branches
                env_then[t.args[0].id] = V('num', env1[t.args[0].id].a, 'true')
                env_else[t.args[0].id] = V('num', env1[t.args[0].id].a, 'false')
            if exits(s.body) or exits(s.orelse):
                return (head + f'{pad}if {c} then\n' + self.block(list(s.body) + rest, env_then, ind + 1, k)
                        + f'{pad}else\n' + self.block(list(s.orelse) + rest, env_else, ind + 1, k))
            names = assigned(list(s.body) + list(s.orelse))
            # the types after the join: from the branch that assigns; default on the other path
            probe, kinds = {}, {}

            def probe_k(e, i):
                for n in names:
                    if n in e:
                        probe.setdefault(n, e[n].ty)
                        if e[n].ty == 'num':
                            kinds.setdefault(n, set()).add(e[n].b)
                return ''
            saved = (self.n, self.stage_n, len(self.defs), self.prefix)
            self.prefix = None
            with self.guarded([s.test]):
                self.block(list(s.body), env_then, ind + 1, probe_k)      # dry runs: only types and kinds are kept
                self.block(list(s.orelse), env_else, ind + 1, probe_k)
            self.n, self.stage_n, self.prefix = saved[0], saved[1], saved[3]
            del self.defs[saved[2]:]

            def static_kind(n):
                ks = kinds.get(n, set())
                return next(iter(ks)) if len(ks) == 1 and next(iter(ks)) in ('true', 'false') else None

            maybe_after = {}
            test_names = frozenset(n.id for n in ast.walk(s.test) if isinstance(n, ast.Name))

            def final_tuple(e, i):
                comps = []
                for n in names:
                    if n in e:
                        if e[n].maybe:
                            maybe_after[n] = maybe_after.get(n, frozenset()) | e[n].maybe
                        comps += [e[n].a] if (e[n].ty == 'num' and static_kind(n)) else e[n].comps()
                    elif probe.get(n) in DEFAULTS:
                        maybe_after[n] = maybe_after.get(n, frozenset()) | test_names
                        comps.append(DEFAULTS[probe[n]])
                    elif probe.get(n) == 'num':                # unbound on this path: 0 (an int)
                        maybe_after[n] = maybe_after.get(n, frozenset()) | test_names
                        kinds.setdefault(n, set()).add('false')
                        comps += ['(0 : Rat)'] if static_kind(n) else ['(0 : Rat)', 'false']
                    else:
                        raise Untranslatable(f'{n} is not bound on every path')
                return '  ' * i + ('(' + ', '.join(comps) + ')' if len(comps) != 1 else comps[0]) + '\n'
            comp_types = []
            for n in names:
                ty = probe.get(n)
                if ty == 'num':
                    comp_types += ['Rat'] if static_kind(n) else ['Rat', 'Bool']
                elif ty in LEAN_TY:
                    comp_types.append(LEAN_TY[ty])
            outer = (self.prefix, self.rtype)
            if self.prefix is not None:
                self.rtype = ' × '.join(comp_types)
            with self.guarded([s.test]):
                tthen = self.block(list(s.body), env_then, ind + 1, final_tuple)
                telse = self.block(list(s.orelse), env_else, ind + 1, final_tuple)
            self.prefix, self.rtype = outer
            env2 = dict(env1)
            binders = []
            for n in names:
                ty = probe.get(n)
                if ty is None:
                    raise Untranslatable(f'type of {n} after the if')
                if ty == 'num':
                    nv = self.fresh(n + '_v')
                    binders.append(nv)
                    if static_kind(n):
                        env2[n] = V('num', nv, static_kind(n), maybe=maybe_after.get(n, False))
                    else:
                        nk = self.fresh(n + '_f')
                        env2[n] = V('num', nv, nk, maybe=maybe_after.get(n, False))
                        binders.append(nk)
                else:
                    nm = self.fresh(n)
                    env2[n] = V(ty, nm, maybe=maybe_after.get(n, False))
                    binders.append(nm)
            pat = '(' + ', '.join(binders) + ')' if len(binders) != 1 else binders[0]
            return (head + f'{pad}let {pat} :=\n{pad}  if {c} then\n' + textwrap.indent(tthen, '  ')
                    + f'{pad}  else\n' + textwrap.indent(telse, '  ') + self.rest_call(rest, env2, ind, k))
        if isinstance(s, ast.Assign) and len(s.targets) > 1 and all(isinstance(t, ast.Name) for t in s.targets):
            split = [ast.Assign(targets=[t], value=s.value) for t in s.targets]      # a = b = value
            return self.block(split + rest, env, ind, k)
        if isinstance(s, ast.Assign) and len(s.targets) == 1:
            t = s.targets[0]
            if isinstance(t, ast.Tuple) and len(t.elts) == 2 and all(isinstance(e, ast.Name) for e in t.elts) \
                    and isinstance(s.value, ast.Call) and isinstance(s.value.func, ast.Name) \
                    and s.value.func.id == 'divmod' and len(s.value.args) == 2:
                a, kd = self.num(s.value.args[0], env)
                n = self.nat_expr(s.value.args[1], env)
                dm = self.fresh('dm')
                l1, env = self.bind(env, t.elts[0].id, V('num', f'{dm}.1', kd))
                l2, env = self.bind(env, t.elts[1].id, V('num', f'{dm}.2', kd))
                return (f'{pad}let {dm} : Rat × Rat := Py.pyDivmod {a} {n}\n' + self.lets(pad, l1 + l2)
                        + self.rest_call(rest, env, ind, k))
            if isinstance(t, ast.Name):
                if isinstance(s.value, ast.Call) and isinstance(s.value.func, ast.Name) \
                        and s.value.func.id == 'float' and len(s.value.args) == 1 \
                        and isinstance(s.value.args[0], ast.Name) \
                        and env.get(s.value.args[0].id, V('x')).ty == 'g':
                    nm = self.fresh(t.id)        # float(text) may raise
                    env2 = dict(env)
                    env2[t.id] = V('num', nm, 'true')
                    return (f'{pad}match Py.pyFloat {env[s.value.args[0].id].a} with\n'
                            f'{pad}| .error e => .error e\n{pad}| .ok {nm} =>\n'
                            + self.block(rest, env2, ind + 1, k))
                l, env = self.bind(env, t.id, self.value(s.value, env))
                return self.lets(pad, l) + self.rest_call(rest, env, ind, k)
        if isinstance(s, ast.AugAssign) and isinstance(s.target, ast.Name) and isinstance(s.op, ast.Add):
            node = ast.BinOp(left=ast.Name(id=s.target.id, ctx=ast.Load()), op=ast.Add(), right=s.value)
            l, env = self.bind(env, s.target.id, self.value(node, env))
            return self.lets(pad, l) + self.block(rest, env, ind, k)
        if isinstance(s, ast.Expr) and isinstance(s.value, ast.Call) and isinstance(s.value.func, ast.Attribute) \
                and s.value.func.attr == 'append' and isinstance(s.value.func.value, ast.Name) \
                and env.get(s.value.func.value.id, V('x')).ty == 'parts' and len(s.value.args) == 1:
            name = s.value.func.value.id
            l, env = self.bind(env, name, V('parts', f'({env[name].a} ++ [{self.string(s.value.args[0], env)}])'))
            return self.lets(pad, l) + self.rest_call(rest, env, ind, k)
        raise Untranslatable('statement ' + ast.dump(s)[:100])

    def special_if(self, s, rest, env, ind, k):
        """narrowing tests that bind a new value: `x is None` on an optional, and the pattern-matching idiom"""
        pad = '  ' * ind
        t = s.test
        if isinstance(t, ast.Compare) and len(t.ops) == 1 and isinstance(t.ops[0], (ast.Is, ast.IsNot)) \
                and isinstance(t.comparators[0], ast.Constant) and t.comparators[0].value is None \
                and isinstance(t.left, ast.Name) and env.get(t.left.id, V('x')).ty in ('og', 'onat'):
            v = env[t.left.id]
            nm = self.fresh(t.left.id)
            e_none, e_some = dict(env), dict(env)
            e_none[t.left.id] = V('none', v.a)
            e_some[t.left.id] = V('g' if v.ty == 'og' else 'nat', nm)
            b_none, b_some = (s.body, s.orelse) if isinstance(t.ops[0], ast.Is) else (s.orelse, s.body)
            return (f'{pad}match {v.a} with\n{pad}| none =>\n' + self.block(list(b_none) + rest, e_none, ind + 1, k)
                    + f'{pad}| some {nm} =>\n' + self.block(list(b_some) + rest, e_some, ind + 1, k))
        return None


# ---------------------------------------------------------------------------------------------- targets

BUILTINS_USED = ('float', 'int', 'round', 'max', 'divmod', 'zip', 'reversed', 'any', 'isinstance',
                 'ValueError', 'TypeError')


def check_module(timeunits):
    """the names the translation resolves by NAME must mean what the translator assumes"""
    import builtins
    import edzed.utils
    from edzed.utils import tconst
    g = vars(timeunits)
    for n in BUILTINS_USED:
        if n in g and g[n] is not getattr(builtins, n):
            raise Untranslatable(f'the module rebinds the built-in name {n}')
    for n in CONSTS:
        if n not in g or type(g[n]) is not int or g[n] != getattr(tconst, n) or type(getattr(tconst, n)) is not int:
            raise Untranslatable(f'{n} in timeunits is not the int constant of tconst.py')
    for n in PATTERNS:
        import re
        if not isinstance(g.get(n), re.Pattern):
            raise Untranslatable(f'{n} is not a compiled pattern')
    for n in ('convert', 'time_period', 'timestr', 'timestr_approx'):
        if getattr(edzed.utils, n, None) is not g.get(n):
            raise Untranslatable(f'edzed.utils.{n} is not timeunits.{n}')


def fn_ast(fn):
    """the AST of a plain function of the module: no decorator, no wrapper, defined where it is looked up"""
    if not inspect.isfunction(fn) or hasattr(fn, '__wrapped__') or fn.__module__ != 'edzed.utils.timeunits':
        raise Untranslatable(f'{getattr(fn, "__name__", fn)} is not a plain function of timeunits.py')
    node = ast.parse(textwrap.dedent(inspect.getsource(fn))).body[0]
    if not isinstance(node, ast.FunctionDef) or node.name != fn.__name__ or fn.__code__.co_name != fn.__name__:
        raise Untranslatable(f'source of {fn.__name__} is not its definition')
    if node.decorator_list:
        raise Untranslatable(f'{fn.__name__} is decorated')
    return node


def check_args(fn, names, defaults=None):
    a = fn.args
    got = [x.arg for x in a.args]
    if got != names or a.vararg or a.kwarg or a.kwonlyargs or a.posonlyargs:
        raise Untranslatable(f'signature of {fn.name}: {got}')
    if defaults is not None:
        d = [ast.literal_eval(x) for x in a.defaults]
        if d != defaults:
            raise Untranslatable(f'defaults of {fn.name}: {d}')


def tr_time_period(timeunits):
    """statement by statement with narrowing of the argument's class (`is None`, `isinstance`)"""
    fn = fn_ast(timeunits.time_period)
    check_args(fn, ['period'])
    counter = [0]

    def fresh(b):
        counter[0] += 1
        return f'{b}{counter[0]}'

    def cls_test(test, cls):
        """the truth value of a class test for an argument known to be of class `cls`; None = not a class test"""
        if isinstance(test, ast.Compare) and len(test.ops) == 1 and isinstance(test.left, ast.Name) \
                and test.left.id == 'period' and isinstance(test.comparators[0], ast.Constant) \
                and test.comparators[0].value is None and isinstance(test.ops[0], (ast.Is, ast.IsNot)):
            return (cls == 'none') == isinstance(test.ops[0], ast.Is)
        if isinstance(test, ast.Call) and isinstance(test.func, ast.Name) and test.func.id == 'isinstance' \
                and len(test.args) == 2 and isinstance(test.args[0], ast.Name) and test.args[0].id == 'period':
            names = [x.id for x in (test.args[1].elts if isinstance(test.args[1], ast.Tuple) else [test.args[1]])
                     if isinstance(x, ast.Name)]
            if not names or any(n not in ('int', 'float', 'str') for n in names):
                raise Untranslatable('isinstance against ' + ast.dump(test.args[1])[:60])
            return cls in names
        if isinstance(test, ast.UnaryOp) and isinstance(test.op, ast.Not):
            r = cls_test(test.operand, cls)
            return None if r is None else not r
        return None

    def block(stmts, cls, val, ind):
        """cls: none | int | float | str | other; val: the Lean name of the payload"""
        pad = '  ' * ind
        if not stmts:
            return pad + '.ok none\n'
        s, rest = stmts[0], stmts[1:]
        if isinstance(s, ast.Pass) or (isinstance(s, ast.Expr) and isinstance(s.value, ast.Constant)):
            return block(rest, cls, val, ind)
        if isinstance(s, ast.If):
            r = cls_test(s.test, cls)
            if r is None:
                raise Untranslatable('condition ' + ast.dump(s.test)[:80])
            return block(list(s.body if r else s.orelse) + rest, cls, val, ind)
        if isinstance(s, ast.Assign) and len(s.targets) == 1 and isinstance(s.targets[0], ast.Name) \
                and s.targets[0].id == 'period' and isinstance(s.value, ast.Call) \
                and isinstance(s.value.func, ast.Name) and s.value.func.id == 'float' and len(s.value.args) == 1 \
                and isinstance(s.value.args[0], ast.Name) and s.value.args[0].id == 'period':
            if cls not in ('int', 'float'):
                raise Untranslatable(f'float() of a {cls}')
            return block(rest, 'float', val, ind)
        if isinstance(s, ast.Return):
            v = s.value
            if v is None or (isinstance(v, ast.Constant) and v.value is None):
                return pad + '.ok none\n'
            if isinstance(v, ast.Name) and v.id == 'period':
                if cls == 'none':
                    return pad + '.ok none\n'
                if cls == 'float':
                    return pad + f'.ok (some {val})\n'
                raise Untranslatable(f'returns the argument of class {cls} (not a float)')
            if isinstance(v, ast.Call) and isinstance(v.func, ast.Name) and v.func.id == 'convert' \
                    and len(v.args) == 1 and isinstance(v.args[0], ast.Name) and v.args[0].id == 'period':
                if cls != 'str':
                    raise Untranslatable(f'convert() of a {cls}')
                return (f'{pad}match Py.callConvert {val} with\n{pad}| .error e => .error e\n'
                        f'{pad}| .ok q => .ok (some q)\n')
            if cls == 'float':
                tr = Tr(None, None)
                a, kd = tr.num(v, {'period': V('num', val, 'true')})
                if kd != 'true':
                    raise Untranslatable('returns a number that is not a float')
                return pad + f'.ok (some {a})\n'
            raise Untranslatable('return of ' + ast.dump(v)[:80])
        if isinstance(s, ast.Raise):
            c = exc_class(s.exc)
            if c == 'TypeError':
                return pad + '.error .type\n'
            if c == 'ValueError':
                return pad + f'.error (.value {err_of_message(s.exc)})\n'
            raise Untranslatable('raise ' + c)
        raise Untranslatable('statement ' + ast.dump(s)[:100])

    L = ['def timePeriod (period : Val) : Except PErr (Option Rat) :=', '  match Py.classOf period with']
    for cls, patt, val in (('none', '.none', ''), ('int', '.int q', 'q'), ('float', '.float q', 'q'),
                           ('str', '.str s', 's'), ('other', '.other', '')):
        L.append(f'  | {patt} =>')
        L.append(block(list(fn.body), cls, val, 2).rstrip('\n'))
    return '\n'.join(L)


def find_match_idiom(stmt):
    """`if not any((match := re.fullmatch(tstr)) for re in (A, B)): raise ValueError(...)`
       -> (list of pattern names in the order tried, name of the match variable, the raise)"""
    if not (isinstance(stmt, ast.If) and not stmt.orelse and len(stmt.body) == 1 and isinstance(stmt.body[0], ast.Raise)
            and isinstance(stmt.test, ast.UnaryOp) and isinstance(stmt.test.op, ast.Not)):
        return None
    call = stmt.test.operand
    if not (isinstance(call, ast.Call) and isinstance(call.func, ast.Name) and call.func.id == 'any'
            and len(call.args) == 1 and isinstance(call.args[0], ast.GeneratorExp)):
        return None
    gen = call.args[0]
    if len(gen.generators) != 1 or gen.generators[0].ifs or not isinstance(gen.generators[0].target, ast.Name):
        return None
    loopvar = gen.generators[0].target.id
    it = gen.generators[0].iter
    elt = gen.elt
    if not (isinstance(elt, ast.NamedExpr) and isinstance(elt.value, ast.Call)
            and isinstance(elt.value.func, ast.Attribute) and elt.value.func.attr == 'fullmatch'
            and isinstance(elt.value.func.value, ast.Name) and elt.value.func.value.id == loopvar
            and len(elt.value.args) == 1 and isinstance(elt.value.args[0], ast.Name)
            and elt.value.args[0].id == 'tstr' and isinstance(it, (ast.Tuple, ast.List))):
        return None
    pats = []
    for e in it.elts:
        if not (isinstance(e, ast.Name) and e.id in PATTERNS):
            raise Untranslatable('unknown pattern ' + ast.dump(e)[:60])
        pats.append(PATTERNS[e.id])
    return pats, elt.target.id, stmt.body[0]


def tr_convert(timeunits):
    fn = fn_ast(timeunits._convert)
    check_args(fn, ['tstr'])
    body = [s for s in fn.body if not (isinstance(s, ast.Expr) and isinstance(s.value, ast.Constant))]
    idiom = find_match_idiom(body[0]) if body else None
    if idiom is None:
        raise Untranslatable('the first statement is not the pattern-matching idiom')
    pats, mvar, mraise = idiom

    def harmless_assert(st):
        """`assert <match variable> is not None` right after the idiom (true by the idiom; for mypy)"""
        t = st.test if isinstance(st, ast.Assert) else None
        return (t is not None and st.msg is None and isinstance(t, ast.Compare) and len(t.ops) == 1
                and isinstance(t.ops[0], ast.IsNot) and isinstance(t.left, ast.Name) and t.left.id == mvar
                and isinstance(t.comparators[0], ast.Constant) and t.comparators[0].value is None)
    body = [body[0]] + [st for i, st in enumerate(body[1:], start=1) if not (i == 1 and harmless_assert(st))]
    if exc_class(mraise.exc) != 'ValueError':
        raise Untranslatable('no-match raises ' + exc_class(mraise.exc))
    loops = [i for i, s in enumerate(body) if isinstance(s, ast.For)]
    if len(loops) != 1:
        raise Untranslatable('expected exactly one for loop')
    li = loops[0]
    loop = body[li]
    before, after = body[1:li], body[li + 1:]
    # for a, b in zip(reversed(match.groups()), (c0, c1, ...))
    if not (isinstance(loop.target, ast.Tuple) and len(loop.target.elts) == 2
            and all(isinstance(e, ast.Name) for e in loop.target.elts) and not loop.orelse
            and isinstance(loop.iter, ast.Call) and isinstance(loop.iter.func, ast.Name)
            and loop.iter.func.id == 'zip' and len(loop.iter.args) == 2):
        raise Untranslatable('loop header ' + ast.dump(loop.iter)[:80])
    gexpr, fexpr = loop.iter.args

    def groups_expr(node):
        if isinstance(node, ast.Call) and isinstance(node.func, ast.Name) and node.func.id == 'reversed' \
                and len(node.args) == 1:
            return f'({groups_expr(node.args[0])}).reverse'
        if isinstance(node, ast.Call) and isinstance(node.func, ast.Attribute) and node.func.attr == 'groups' \
                and not node.args and isinstance(node.func.value, ast.Name) and node.func.value.id == mvar:
            return 'groups'
        raise Untranslatable('iteration over ' + ast.dump(node)[:80])
    glist = groups_expr(gexpr)
    if not isinstance(fexpr, (ast.Tuple, ast.List)):
        raise Untranslatable('scale factors are not a literal tuple')
    factors = []
    for e in fexpr.elts:
        if isinstance(e, ast.Constant) and e.value is None:
            factors.append('none')
        else:
            factors.append(f'some {Tr(None, None).nat_expr(e, {})}')
    vname, sname = (e.id for e in loop.target.elts)

    # the loop-carried names: assigned in the body and bound before the loop
    tr0 = Tr(None, None)
    env0 = {}
    pre_lets = []
    for s in before:
        if not (isinstance(s, ast.Assign) and len(s.targets) == 1 and isinstance(s.targets[0], ast.Name)):
            raise Untranslatable('statement before the loop: ' + ast.dump(s)[:80])
        l, env0 = tr0.bind(env0, s.targets[0].id, tr0.value(s.value, env0))
        pre_lets += l
    carried = [n for n in env0 if n in assigned(loop.body)]      # in the order they are bound before the loop
    for n in assigned(loop.body):
        if n not in env0 and n not in (vname, sname):
            pass                                    # body-local name

    def st_type(n):
        return 'Rat' if env0[n].ty == 'num' else LEAN_TY[env0[n].ty]
    st_ty = ' × '.join(st_type(n) for n in carried)
    # numbers carried through the loop are floats (`result = 0.0`): the kind must be static
    for n in carried:
        if env0[n].ty == 'num' and env0[n].b != 'true':
            raise Untranslatable(f'{n} is not a float before the loop')

    def tuple_of(env):
        comps = [env[n].a for n in carried]
        return '(' + ', '.join(comps) + ')' if len(comps) != 1 else comps[0]

    def cont(env, ind):
        for n in carried:
            if env0[n].ty == 'num' and env[n].b != 'true':
                raise Untranslatable(f'{n} does not stay a float')
        return '  ' * ind + f'.ok {tuple_of(env)}\n'

    def raise_(cls, node):
        if cls != 'ValueError':
            raise Untranslatable('raise ' + cls)
        return f'.error {err_of_message(node)}'
    trs = Tr(None, raise_, cont)
    envs = {n: (V('num', n, 'true') if env0[n].ty == 'num' else V(env0[n].ty, n)) for n in carried}
    envs[vname] = V('og', vname)
    envs[sname] = V('onat', sname)
    step_body = trs.block(list(loop.body), envs, 2, cont)
    pat = '(' + ', '.join(carried) + ')' if len(carried) != 1 else carried[0]
    step = (f'def convertStep (st : {st_ty}) (item : Option Num × Option Nat) : Except Err ({st_ty}) :=\n'
            f'  match st, item with\n  | {pat}, ({vname}, {sname}) =>\n' + step_body.rstrip('\n'))

    # after the loop
    def ret(tr, v, env, ind):
        a, _k = tr.num(v, env)
        return '  ' * ind + f'.ok {a}\n'
    tra = Tr(ret, raise_)
    enva = {n: (V('num', n, 'true') if env0[n].ty == 'num' else V(env0[n].ty, n)) for n in carried}

    def fall(env, ind):
        raise Untranslatable('_convert can fall off its end')
    after_text = tra.block(list(after), enva, 3, fall)
    main = ('def convert (tstr : List Char) : Except Err Rat :=\n'
            f'  match Py.firstMatch [{", ".join(pats)}] tstr with\n'
            f'  | none => .error {err_of_message(mraise.exc)}\n'
            '  | some groups =>\n'
            + Tr.lets('    ', pre_lets)
            + f'    match List.foldlM convertStep {tuple_of(env0)} (List.zip {glist} [{", ".join(factors)}]) with\n'
            '    | .error e => .error e\n'
            f'    | .ok {pat} =>\n' + after_text.rstrip('\n'))
    return step + '\n\n' + main


def tr_convert_wrapper(timeunits):
    """`convert`: `try: return _convert(tstr)  except ValueError as err: raise ValueError(f"…{err}…") from None`
    - the value or the SAME reason (the inner message is part of the new one); nothing else is caught"""
    fn = fn_ast(timeunits.convert)
    check_args(fn, ['tstr'])
    if fn_ast(timeunits._convert).name != '_convert':
        raise Untranslatable('_convert')
    body = [s for s in fn.body if not (isinstance(s, ast.Expr) and isinstance(s.value, ast.Constant))]
    if not (len(body) == 1 and isinstance(body[0], ast.Try)):
        raise Untranslatable('convert is not a single try statement')
    t = body[0]
    if t.orelse or t.finalbody or len(t.handlers) != 1 or len(t.body) != 1:
        raise Untranslatable('shape of the try statement')
    r = t.body[0]
    if not (isinstance(r, ast.Return) and isinstance(r.value, ast.Call) and isinstance(r.value.func, ast.Name)
            and r.value.func.id == '_convert' and len(r.value.args) == 1 and not r.value.keywords
            and isinstance(r.value.args[0], ast.Name) and r.value.args[0].id == 'tstr'):
        raise Untranslatable('the try body is not `return _convert(tstr)`')
    h = t.handlers[0]
    if not (isinstance(h.type, ast.Name) and h.type.id == 'ValueError' and h.name):
        raise Untranslatable('the handler is not `except ValueError as <name>`')
    if not (len(h.body) == 1 and isinstance(h.body[0], ast.Raise) and h.body[0].exc is not None):
        raise Untranslatable('the handler does not just raise')
    exc = h.body[0].exc
    if exc_class(exc) != 'ValueError':
        raise Untranslatable('the handler raises ' + exc_class(exc))
    msg = exc.args[0] if isinstance(exc, ast.Call) and exc.args else None
    if not (isinstance(msg, ast.JoinedStr) and any(
            isinstance(v, ast.FormattedValue) and isinstance(v.value, ast.Name) and v.value.id == h.name
            and v.conversion == -1 for v in msg.values)):
        raise Untranslatable('the new message does not contain the inner one')
    return ('def convertPublic (tstr : List Char) : Except Err Rat :=\n'
            '  match convert tstr with\n  | .ok v => .ok v\n  | .error err => .error err')


def secs_env():
    return {'seconds': V('num', '(Py.secsVal seconds)', '(Py.secsIsFloat seconds)')}


def tr_str_function(fn, name, params, env):
    def ret(tr, v, e, ind):
        return '  ' * ind + f'some {tr.string(v, e)}\n'

    def raise_(cls, node):
        if cls != 'ValueError':
            raise Untranslatable('raise ' + cls)
        return 'none'

    def fall(e, ind):
        raise Untranslatable(f'{fn.name} can fall off its end')
    tr = Tr(ret, raise_)
    tr.prefix, tr.rtype = name, 'Option (List Char)'
    main = f'def {name} {params} : Option (List Char) :=\n' + tr.block(list(fn.body), env, 1, fall).rstrip('\n')
    return '\n\n'.join(tr.defs + [main])


def tr_timestr(timeunits):
    fn = fn_ast(timeunits.timestr)
    check_args(fn, ['seconds', 'sep', 'prec'], ['', 3])
    env = secs_env()
    env['sep'] = V('chars', 'sep')
    env['prec'] = V('nat', 'prec')
    return tr_str_function(fn, 'timestr', '(seconds : Secs) (sep : List Char) (prec : Nat)', env)


def tr_timestr_approx(timeunits):
    fn = fn_ast(timeunits.timestr_approx)
    check_args(fn, ['seconds', 'sep'], [''])
    env = secs_env()
    env['sep'] = V('chars', 'sep')
    return tr_str_function(fn, 'timestrApprox', '(seconds : Secs) (sep : List Char)', env)


TARGETS = (
    ('timePeriod', 'timeunits.time_period', tr_time_period),
    ('convertStep, convert', 'timeunits._convert', tr_convert),
    ('convertPublic', 'timeunits.convert', tr_convert_wrapper),
    ('timestr', 'timeunits.timestr', tr_timestr),
    ('timestrApprox', 'timeunits.timestr_approx', tr_timestr_approx),
)


def main_timeunits(outfile, write_if_changed=None):
    from edzed.utils import timeunits
    L = ['/- GENERATED by tools/py2lean_timeunits.py (via tools/py2lean.py) from the Python source of',
         '   edzed/utils/timeunits.py -- do not edit -/',
         'import EdzedModel.TimeUnitsPy', '', 'set_option linter.unusedVariables false', '',
         'namespace Edzed.Gen.TrTu', 'open Edzed.TimeUnits', '']
    for lean_name, doc, fn in TARGETS:
        try:
            check_module(timeunits)
            text = fn(timeunits)
            L.append(f'/-- translated from `{doc}` -/')
            L.append(text)
        except Exception as err:      # pylint: disable=broad-except
            msg = ' '.join(str(err).split())[:200]
            L.append(f'-- UNTRANSLATABLE `{doc}`: definition `{lean_name}` omitted ({type(err).__name__}: {msg})')
            print(f'UNTRANSLATABLE {lean_name} ({doc}): {type(err).__name__}: {err}')
        L.append('')
    L.append('end Edzed.Gen.TrTu')
    text = '\n'.join(L) + '\n'
    if write_if_changed is not None:
        write_if_changed(outfile, text)
        return
    try:
        with open(outfile, encoding='utf-8') as f:
            if f.read() == text:
                return
    except FileNotFoundError:
        pass
    tmp = outfile + '.tmp'
    with open(tmp, 'w', encoding='utf-8') as f:
        f.write(text)
    os.replace(tmp, outfile)


if __name__ == '__main__':
    import sys
    sys.path.insert(0, os.environ.get('EDZED_SRC', '/repo'))
    main_timeunits(sys.argv[1])
