"""
Translator module for the signature check of combinational blocks (C15), called from tools/py2lean.py: main().
Regenerates lean/EdzedModel/Gen/TranslatedCsig.lean from the CURRENT source of

    CBlock.input_signature                         inputSignature
    CBlock.check_signature (its own statements)    checkSignature
    CBlock.check_signature.<locals>.setdiff_msg    setdiffMsg
    (Not / Compare / Override / FuncBlock .start are translated by tools/py2lean_cblocks.py: the CALL SITES of
     check_signature; EdzedProps/C15.lean composes them with what is translated here)
    Circuit.getblocks                              getblocks
    CBlock.__init_subclass__                       cblockInitSubclass
    CBlock.InputGetter.__getitem__                 inputGetterGetitem
    CBlock.get_conf                                cblockGetConf (the items 'type' and 'inputs')

(`valuediff_msg` is translated by tools/py2lean_sig.py; the generated `Gen.Tr.sigValueDiff` is used here.)

The statements, their order, the nesting of `if` / `for` and the and/or/not structure of the conditions come
from the AST (the statement translator `Tr` of tools/py2lean_wiring.py, programs in an exception monad `Q`);
declared, keyed by the source text with the local names replaced by v0, v1, … in binding order, is the
mapping of leaf tests and simple statements to primitives.  The TEXT of the messages is not translated;
what a message NAMES is: the statements that build the text are mapped to constructors of a structured
message (`Part name suggestions`, `Sect.unexpected`, `Sect.missing`, `SigExc.names`, `SigExc.values`).
Sets (`actual - expected`) are enumerated in an order the primitive `setDiff` chooses.
Anything outside the tables: UNTRANSLATABLE, the definition is omitted and the theorems
`TrTie.translated_csig_…` (EdzedProps/C15.lean) stop compiling.
"""
import ast
import inspect
import textwrap

from py2lean_wiring import Tr, Untranslatable, fn_node, check_plain

PRELUDE = r'''/-! The fixed part: messages, the exception monad, Python's `==` of the two signature dicts. -/

/-- an expected signature item: `None` | a number | `(cmin, cmax)` -/
abbrev E := Option (Nat ⊕ (Option Nat × Option Nat))

/-- one unexpected input name with the close matches `difflib` suggests -/
structure Part where
  name : String
  suggestions : List String
  deriving DecidableEq, Repr

inductive Sect where
  | unexpected (l : List Part)      -- "unexpected: …"
  | missing (l : List String)       -- "missing: …"
  deriving DecidableEq, Repr

inductive SigExc where
  | invalidState                      -- EdzedInvalidState("not connect()'ed yet")
  | names (msg : List Sect)           -- ValueError("Not connected correctly: " + setdiff_msg(…))
  | values (items : List String)      -- ValueError("Not connected correctly: " + one message per differing input)
  | keyError                          -- `bsig[name]` of a missing name
  | typeError                         -- TypeError
  | attributeError                    -- `.name` of something that is not a block / Const
  deriving DecidableEq, Repr

abbrev Q (α : Type) := Except SigExc α

namespace Q
variable {α β : Type}
def pure (a : α) : Q α := .ok a
def bind (m : Q α) (k : α → Q β) : Q β :=
  match m with
  | .ok a => k a
  | .error e => .error e
def raise (e : SigExc) : Q α := .error e
def gets (f : Unit → α) : Q α := .ok (f ())
def foldM (l : List α) (acc : β) (f : β → α → Q β) : Q β :=
  match l with
  | [] => pure acc
  | x :: r => bind (f acc x) fun acc' => foldM r acc' f
end Q

/-- Python `value == expected` for a signature value and an expected item (a pair never equals a number) -/
def sigItemEq : Option Nat → E → Bool
  | none, none => true
  | some k, some (.inl n) => k == n
  | _, _ => false

/-- `bsig == esig` on two dicts -/
def dictEq (bsig : List (String × Option Nat)) (esig : List (String × E)) : Bool :=
  bsig.length == esig.length && esig.all fun p =>
    match bsig.lookup p.1 with
    | some v => sigItemEq v p.2
    | none => false

/-- `bsig.keys() == esig.keys()` -/
def keysEq (bsig : List (String × Option Nat)) (esig : List (String × E)) : Bool :=
  bsig.length == esig.length && esig.all fun p => (bsig.lookup p.1).isSome

/-- the primitives: `S` what `CBlock.inputs` holds for one name, `V` an output value, `B` a block,
    `T` a class -/
structure CPrims (S V B T : Type) where
  isGroup : S → Bool                                   -- `isinstance(ival, tuple)`
  size : S → Nat                                       -- `len(ival)`
  setDiff : List String → List String → List String    -- `a - b` on sets of names, in some order
  closeMatches : String → List String → List String    -- `difflib.get_close_matches(name, missing, n=3)`
  outputOf : S → V                                     -- `iblk.output`
  outputsOf : S → List V                               -- `tuple(b.output for b in iblk)`
  singleName : S → Option String                       -- `ival.name` (none: AttributeError)
  groupNames : S → Option (List String)                -- `tuple(g.name for g in ival)` (none: AttributeError)
  isBase : T → Bool                                    -- `btype is block.Block`
  isInstance : B → T → Bool                            -- `isinstance(blk, btype)`

/-- the items of `get_conf()` that `CBlock.get_conf` sets -/
structure ConfRec where
  type : String := ""
  inputs : Option (List (String × (String ⊕ List String))) := none
  deriving DecidableEq, Repr

'''

P = '{S V B T : Type} (P : CPrims S V B T)'



def emit(tr, fn, tail, bound):
    return tr.block(fn.body, tail, 1, bound).replace('W.', 'Q.')


def t_input_signature():
    from edzed import block
    fn = fn_node(block.CBlock.input_signature)
    check_plain(fn, ['self'])
    tr = Tr(fn, tests={'self.inputs': '!(List.isEmpty inputs_)'}, iters={}, stmts={
        'return {v0: len(v1) if isinstance(v1, tuple) else None for v0, v1 in self.inputs.items()}':
            ('return', 'W.pure (inputs_.map fun (v0, v1) => (v0, if P.isGroup v1 then some (P.size v1) else none))')})
    for s in ast.walk(fn):
        if isinstance(s, ast.Raise) and isinstance(s.exc, ast.Call) and ast.unparse(s.exc.func) == 'EdzedInvalidState':
            tr.stmts[tr.n(s)] = ('raisex', 'SigExc.invalidState')
    return ('CBlock.input_signature',
            f'def inputSignature {P} (inputs_ : List (String × S)) : Q (List (String × Option Nat)) :=\n'
            + emit(tr, fn, 'W.pure []', set()))


def inner(fn, name):
    for s in fn.body:
        if isinstance(s, ast.FunctionDef) and s.name == name:
            return s
    raise Untranslatable(f'no inner function {name}')


def t_setdiff_msg():
    from edzed import block
    import difflib
    if block.CBlock.check_signature.__globals__.get('difflib') is not difflib:
        raise Untranslatable('difflib is not the standard module')
    fn = inner(fn_node(block.CBlock.check_signature), 'setdiff_msg')
    check_plain(fn, ['actual', 'expected'])
    # locals in binding order: v0 actual, v1 expected, v2 unexpected, v3 missing, v4 msgparts, v5 subparts,
    # v6 name, v7 suggestions, v8 top3
    tr = Tr(fn, tests={'v2': '!(List.isEmpty v2)', 'v3': '!(List.isEmpty v3)', 'v7': '!(List.isEmpty v7)'},
            iters={'v2': 'W.pure v2'}, stmts={
        'v2 = v0 - v1': ('let', 'v2', 'P.setDiff v0 v1'),
        'v3 = v1 - v0': ('let', 'v3', 'P.setDiff v1 v0'),
        'v4 = []': ('let', 'v4', '([] : List Sect)'),
        'v5 = []': ('let', 'v5', '([] : List Part)'),
        'v7 = difflib.get_close_matches(v6, v3, n=3)': ('let', 'v7', 'P.closeMatches v6 v3'),
        "v8 = ' or '.join((repr(v9) for v9 in v7))": ('skip',),
        "v5.append(f'{v6!r} (did you mean {v8} ?)')": ('let', 'v5', 'v5 ++ [Part.mk v6 v7]'),
        'v5.append(repr(v6))': ('let', 'v5', 'v5 ++ [Part.mk v6 []]'),
        "v4.append('unexpected: ' + ', '.join(v5))": ('let', 'v4', 'v4 ++ [Sect.unexpected v5]'),
        "v4.append('missing: ' + ', '.join((repr(v6) for v6 in v3)))": ('let', 'v4', 'v4 ++ [Sect.missing v3]'),
        "return ', '.join(v4)": ('return', 'W.pure v4')})
    return ('CBlock.check_signature.<locals>.setdiff_msg',
            f'def setdiffMsg {P} (v0 v1 : List String) : Q (List Sect) :=\n' + emit(tr, fn, 'W.pure v4', {'actual', 'expected'}))


def t_check_signature():
    from edzed import block
    fn = fn_node(block.CBlock.check_signature)
    check_plain(fn, ['self', 'esig'])
    # v0 esig, v1 bsig, v2 errmsg, v3 errors  (the inner functions have their own scopes)
    tr = Tr(fn, tests={'v1 != v0': '!(dictEq v1 v0)', 'v1.keys() != v0.keys()': '!(keysEq v1 v0)',
                       'v3': '!(List.isEmpty v3)'}, iters={}, stmts={
        'v1 = self.input_signature()': ('bind', 'v1', 'inputSignature P inputs_'),
        'v2 = setdiff_msg(v1.keys(), v0.keys())': ('bind', 'v2', 'setdiffMsg P (v1.map (·.1)) (v0.map (·.1))'),
        "raise ValueError(f'Not connected correctly: {v2}')": ('raisex', 'SigExc.names v2'),
        'v3 = [v4 for v4 in (valuediff_msg(v5, v1[v5], v6) for v5, v6 in v0.items()) if v4 is not None]':
            ('bind', 'v3', 'W.foldM v0 ([] : List String) fun acc_ (name_, expected_) =>\n'
             '        match v1.lookup name_ with\n'
             '        | some value_ => W.pure (if Edzed.Gen.Tr.sigValueDiff value_ expected_ then acc_ ++ [name_] else acc_)\n'
             '        | none => W.raise SigExc.keyError'),
        "raise ValueError(f\"Not connected correctly: {'; '.join(v3)}\")": ('raisex', 'SigExc.values v3'),
        'return v1': ('return', 'W.pure v1')})
    for st in ast.walk(fn):
        if isinstance(st, ast.Raise) and isinstance(st.exc, ast.Call) and ast.unparse(st.exc.func) == 'ValueError' \
                and st.cause is None and len(st.exc.args) == 1 and isinstance(st.exc.args[0], ast.JoinedStr):
            used = {x.id for x in ast.walk(Tr_norm(tr, st)) if isinstance(x, ast.Name)}
            if used == {'ValueError', 'v2'}:
                tr.stmts[tr.n(st)] = ('raisex', 'SigExc.names v2')
            elif used == {'ValueError', 'v3'}:
                tr.stmts[tr.n(st)] = ('raisex', 'SigExc.values v3')
    return ('CBlock.check_signature',
            f'def checkSignature {P} (inputs_ : List (String × S)) (v0 : List (String × E)) : Q (List (String × Option Nat)) :=\n'
            + emit(tr, fn, 'W.pure v1', {'esig'}))


def Tr_norm(tr, node):
    return ast.parse(tr.n(node))


def t_getblocks():
    from edzed import simulator
    fn = fn_node(simulator.Circuit.getblocks)
    got = [a.arg for a in fn.args.args]
    if got != ['self', 'btype'] or len(fn.args.defaults) != 1 or ast.unparse(fn.args.defaults[0]) != 'block.Block':
        raise Untranslatable(f'getblocks: parameters {got}')
    tr = Tr(fn, tests={'v0 is block.Block': 'P.isBase v0'}, iters={}, stmts={
        'v1 = self._blocks.values()': ('let', 'v1', 'blocks_'),
        'return v1': ('return', 'W.pure v1'),
        'return (v2 for v2 in v1 if isinstance(v2, v0))': ('return', 'W.pure (v1.filter fun v2 => P.isInstance v2 v0)')})
    return ('Circuit.getblocks', f'def getblocks {P} (blocks_ : List B) (v0 : T) : Q (List B) :=\n'
            + emit(tr, fn, 'W.pure v1', {'btype'}))


def t_init_subclass():
    from edzed import block
    fn = fn_node(block.CBlock.__init_subclass__.__func__)
    check_plain(fn, ['cls', '*args', '**kwargs'])
    if block.CBlock.__init_subclass__.__func__.__globals__.get('Addon') is not block.Addon:
        raise Untranslatable('Addon is not block.Addon')
    tr = Tr(fn, tests={'issubclass(v0, Addon)': 'isAddon_'}, iters={}, stmts={
        'super().__init_subclass__(*v1, **v2)': ('skip',)})
    for s in ast.walk(fn):
        if isinstance(s, ast.Raise) and isinstance(s.exc, ast.Call) and ast.unparse(s.exc.func) == 'TypeError':
            tr.stmts[tr.n(s)] = ('raisex', 'SigExc.typeError')
    return ('CBlock.__init_subclass__', 'def cblockInitSubclass (isAddon_ : Bool) : Q Unit :=\n'
            + emit(tr, fn, 'W.pure ()', {'cls', 'args', 'kwargs'}))


def t_getitem():
    from edzed import block
    fn = fn_node(block.CBlock.InputGetter.__getitem__)
    check_plain(fn, ['self', 'name'])
    init = fn_node(block.CBlock.InputGetter.__init__)
    if not any(ast.unparse(s).replace(' ', '') == 'self._blk=blk' for s in init.body):
        raise Untranslatable('InputGetter.__init__ does not store blk')
    tr = Tr(fn, tests={'isinstance(v1, tuple)': 'P.isGroup v1'}, iters={}, stmts={
        'v1 = self._blk.inputs[v0]': ('bind', 'v1', 'match inputs_.lookup v0 with\n'
                                      '      | some x_ => W.pure x_\n      | none => W.raise SigExc.keyError'),
        'return tuple((v2.output for v2 in v1))': ('return', 'W.pure (Sum.inr (P.outputsOf v1))'),
        'return v1.output': ('return', 'W.pure (Sum.inl (P.outputOf v1))')})
    return ('CBlock.InputGetter.__getitem__',
            f'def inputGetterGetitem {P} (inputs_ : List (String × S)) (v0 : String) : Q (V ⊕ List V) :=\n'
            + emit(tr, fn, 'W.pure (Sum.inr [])', {'name'}))


def t_get_conf():
    from edzed import block
    fn = fn_node(block.CBlock.get_conf)
    check_plain(fn, ['self'])
    tr = Tr(fn, tests={'self.circuit.is_finalized()': 'finalized_'}, iters={}, stmts={
        'v0 = super().get_conf()': ('let', 'v0', '({} : ConfRec)'),       # Block.get_conf: class, debug, comment, name
        "v0['type'] = 'combinational'": ('let', 'v0', '{ v0 with type := "combinational" }'),
        "v0['inputs'] = {v2: tuple((v1.name for v1 in v3)) if isinstance(v3, tuple) else v3.name "
        "for v2, v3 in self.inputs.items()}":
            ('bind', 'v0', 'W.bind (W.foldM inputs_ ([] : List (String × (String ⊕ List String))) fun acc_ (v2, v3) =>\n'
             '        if P.isGroup v3 then\n'
             '          match P.groupNames v3 with\n'
             '          | some l_ => W.pure (acc_ ++ [(v2, Sum.inr l_)])\n'
             '          | none => W.raise SigExc.attributeError\n'
             '        else\n'
             '          match P.singleName v3 with\n'
             '          | some n_ => W.pure (acc_ ++ [(v2, Sum.inl n_)])\n'
             '          | none => W.raise SigExc.attributeError) fun i_ => W.pure { v0 with inputs := some i_ }'),
        'return v0': ('return', 'W.pure v0')})
    return ('CBlock.get_conf', f'def cblockGetConf {P} (finalized_ : Bool) (inputs_ : List (String × S)) : Q ConfRec :=\n'
            + emit(tr, fn, 'W.pure v0', set()))


TARGETS = [t_get_conf, t_input_signature, t_setdiff_msg, t_check_signature, t_getblocks,
           t_init_subclass, t_getitem]


def main_csig(outfile, write_if_changed):
    L = ['/- GENERATED by tools/py2lean_csig.py (via tools/py2lean.py) from the Python source of edzed -- do not edit -/',
         'import EdzedModel.Gen.TranslatedSig', '', 'set_option linter.unusedVariables false', '',
         'namespace Edzed.Gen.TrCS', '', PRELUDE]
    for t in TARGETS:
        try:
            doc, text = t()
            L.append(f'/-- translated from `{doc}` -/')
            L.append(text)
            L.append('')
        except Exception as err:
            msg = ' '.join(str(err).split())[:200]
            L.append(f'-- UNTRANSLATABLE `{t.__name__[2:]}`: definition omitted ({msg})')
            L.append('')
            print(f'UNTRANSLATABLE csig {t.__name__[2:]}: {msg}')
    L += ['end Edzed.Gen.TrCS']
    write_if_changed(outfile, '\n'.join(L) + '\n')
