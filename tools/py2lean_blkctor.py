"""
Translator module for the CONSTRUCTORS and the circuit registry (C14), called from tools/py2lean.py: main().
Regenerates lean/EdzedModel/Gen/TranslatedBlkCtor.lean from the CURRENT source of

    block.check_name                         checkName
    Block.__init__                           blockInit      (+ blockInitCall: the binding of *args / **kwargs
                                                               and the DEFAULTS, from the signature)
    Block.has_method                         hasMethod
    ExtEvent.__init__                        extInit        (+ extInitCall)
    Const.__new__ / Const.__init__           constNew, constInit   (+ constCall: __new__ then __init__)
    SBlock.__init__ / CBlock.__init__        sblockInit, cblockInit  (+ …Call)
    Circuit.__init__                         circuitInit    (+ circuitCall: allocate, then __init__)
    Circuit.is_current_task                  isCurrentTask
    simulator.get_circuit / reset_circuit    getCircuit, resetCircuit

Every function becomes a program in the monad `M σ` of lean/EdzedModel/BlkCtorPy.lean (state = heap of objects
and module globals, exception = class name).  From the AST come: the ORDER of the statements, the nesting and
the conditions of `if` (`and` / `or` / `not` with short circuit, `is [not] None`, `is UNDEF`, `isinstance`,
truthiness according to the STATIC TYPE of the tested expression -- an argument, a str, a bool, a list),
`for` over the items of `**kwargs`, `try / except` with its handler classes and which of them return,
early `return`, `raise` with its class, WHICH value is stored under WHICH attribute name, the parameters with
their defaults, f-strings and string concatenation, `sum(1 for … if …)`, `any(… for … in (…))`.

The statements after an `if` BOTH branches of which fall through become a definition of their own
(`<name>_j<n>`, a join point) called from both branches; a local that has two static types there (a str computed in
one branch / the caller's argument in the other; a looked-up object / the argument itself) is passed as an `Arg`.
`not (a or b)` is translated as `not a and not b` (and dually; equal for every value, same short circuit) and
`not not x` as the truth value of `x`.  A `try` statement all of whose paths return / raise is the end of the
function; otherwise it yields a `Flow` (returned value | the locals the rest needs).  A module-level statement
`_current_circuit = None` of simulator.py becomes `moduleCurrentCircuit`.

Declared (tables below; lean/EdzedModel/BlkCtorPy.lean documents each primitive) is only the meaning of the
leaves that are not plain values: attribute reads, calls of code translated elsewhere or not edzed's.  A leaf
or statement that is neither covered by a structural rule nor in a table, a parameter that is not declared, a
changed decorator, a `super()` / method / global that does not resolve to the expected object: UNTRANSLATABLE --
the definition and all that call it are omitted and the theorems `TrTie.translated_ctor_…` (EdzedProps/C14.lean)
stop compiling.

Static types (the truthiness of a test and the coercion of a stored value depend on them):
    arg   Arg O      anything a caller may pass          str   String      bool  Bool       nat  Nat
    obj   O          an object of the heap               optobj Option O   ext   X (result of a primitive)
    kw    Kw (Arg O) the dict of `**kwargs`              args  List (Arg O)  opttask Option T   attr A
`isinstance(x, str)` as the WHOLE test of an `if` narrows an `arg` to a `str` in the branch where it holds.

Ignored as effect-free: docstrings, `global` declarations, annotations without a value, logging calls whose
arguments are constants / names, the MESSAGE of a raised exception when it is a constant or an f-string of names /
attribute chains / `type(self).__name__` (conversions `!r` included: `repr` of the values that can get there does
not raise), `# pylint` comments.  Everything else is translated or refused.

Name resolution that is checked: the module globals used (`check_name`, `event_tuple`, `simulator`, `UNDEF`,
`CBlock`, `SBlock`, `Block`, `Circuit`, `_BlockResolver`, `asyncio`, the exception classes) are the expected
objects; `self.has_method` in `SBlock.__init__` is `Block.has_method`; `super().__init__` in `SBlock.__init__`
/ `CBlock.__init__` is `Block.__init__` (the class after them in their MRO -- true for every class whose
Block-derived bases all derive from SBlock resp. CBlock); `SBlock.dummy_method` / `dummy_async_method` are the
functions defined in `Block`; none of the translated functions is decorated; `Const.__new__` / `__init__` are
called by `type.__call__` (the metaclass of `Const` is `type`), `Const._instances` is a WeakValueDictionary and
`Const.__slots__` allows weak references; the public names `edzed.Block`, `edzed.SBlock`, `edzed.CBlock`,
`edzed.ExtEvent`, `edzed.Const`, `edzed.check_name`, `edzed.get_circuit`, `edzed.reset_circuit` are the objects whose
source is translated.  The exception hierarchy `excBases` is read from the real classes.
"""
import ast
import copy
import inspect
import re
import textwrap


class Untranslatable(Exception):
    pass


LEAN_TY = {'arg': 'Arg O', 'str': 'String', 'bool': 'Bool', 'nat': 'Nat', 'obj': 'O', 'optobj': 'Option O',
           'ext': 'X', 'kw': 'Kw (Arg O)', 'args': 'List (Arg O)', 'opttask': 'Option T', 'attr': 'A',
           'unit': 'Unit', 'cls': 'String', 'fname': 'String'}

PARAMS = '{σ O X T A : Type} [DecidableEq T] (P : CPrims σ O X T A)'


def lean_str(s):
    out = []
    for ch in s:
        if ch == '"':
            out.append('\\"')
        elif ch == '\\':
            out.append('\\\\')
        elif ch == '\n':
            out.append('\\n')
        elif 32 <= ord(ch) < 127:
            out.append(ch)
        else:
            out.append('\\u{%x}' % ord(ch))
    return '"' + ''.join(out) + '"'


def indent(text, n=1):
    pad = '  ' * n
    return '\n'.join(pad + l if l else l for l in text.split('\n'))


class Ex:
    """a translated expression: `pre` = bindings to hoist, in evaluation order: ('m', var, term) a monadic
    call, ('s', var, term) a read of the state `s_`; `term` uses the bound variables; `ty` its static type"""

    def __init__(self, term, ty, pre=()):
        self.term, self.ty, self.pre = term, ty, list(pre)


def wrap_pre(pre, body):
    for kind, var, term in reversed(pre):
        if kind == 'm':
            body = f'M.bind ({term}) fun {var} =>\n{body}'
        else:
            body = f'M.bind (M.gets fun s_ => {term}) fun {var} =>\n{body}'
    return body


class Env:
    def __init__(self, lean=None, ty=None):
        self.lean = dict(lean or {})
        self.ty = dict(ty or {})

    def bind(self, name, lean, ty):
        e = Env(self.lean, self.ty)
        e.lean[name] = lean
        e.ty[name] = ty
        return e


EFFECT_FREE_FMT = (ast.Name, ast.Attribute, ast.Constant)


def effect_free_message(node):
    """the argument of an exception constructor / a logging call: nothing in it can have an effect or raise"""
    if isinstance(node, ast.Constant):
        return True
    if isinstance(node, ast.Name):
        return True
    if isinstance(node, ast.Attribute):
        return effect_free_message(node.value)
    if isinstance(node, ast.Call) and ast.unparse(node) == 'type(self)':
        return True
    if isinstance(node, ast.JoinedStr):
        return all(effect_free_message(v) for v in node.values)
    if isinstance(node, ast.FormattedValue):
        return node.format_spec is None and effect_free_message(node.value)
    if isinstance(node, ast.BinOp) and isinstance(node.op, ast.Add):
        return effect_free_message(node.left) and effect_free_message(node.right)
    return False


class Fn:
    """one function.  `ptypes`: static type per parameter name; `leaves`: source text (no locals in it) ->
    (kind, lean term, type) with kind 'pure' | 's' (reads the state `s_`) | 'm' (monadic, may raise);
    `stmts`: source text of a simple statement -> lean term of type `M σ Unit`;
    `callees`: source text of the called function -> (lean function applied to P, [param types], result type)"""

    def __init__(self, pyfn, ptypes, ret, leaves=None, stmts=None, callees=None, glob=None, self_name='self',
                 super_init=None, checks=()):
        for what, ok in checks:
            if not ok():
                raise Untranslatable(f'{pyfn.__qualname__}: {what}')
        self.pyfn = pyfn
        self.tree = ast.parse(textwrap.dedent(inspect.getsource(pyfn))).body[0]
        if not isinstance(self.tree, ast.FunctionDef):
            raise Untranslatable(f'{pyfn.__qualname__}: not a plain function')
        if self.tree.decorator_list:
            raise Untranslatable(f'{pyfn.__qualname__}: decorated')
        self.g = pyfn.__globals__
        self.ptypes, self.ret = ptypes, ret
        self.leaves, self.stmts, self.callees = leaves or {}, stmts or {}, callees or {}
        self.glob = glob or {}
        self.self_name = self_name
        self.super_init = super_init
        self.counter = 0
        self.order = []
        self.declared_global = set()
        self.aux = []
        self.joins = 0
        self.lean_name = '?'
        self.doc = pyfn.__qualname__

    # ------------------------------------------------------------------ names
    def fresh(self, base='t'):
        self.counter += 1
        return f'{base}{self.counter}_'

    def local(self, name):
        if name not in self.order:
            self.order.append(name)
        return f'v{self.order.index(name)}'

    def signature(self):
        """[(python name, kind, default node | None)], kind in pos / vararg / kwonly / kwarg (self removed)"""
        a = self.tree.args
        if a.posonlyargs:
            raise Untranslatable('positional-only parameters')
        out = []
        pos = list(a.args)
        defaults = [None] * (len(pos) - len(a.defaults)) + list(a.defaults)
        for p, d in zip(pos, defaults):
            out.append((p.arg, 'pos', d))
        if a.vararg:
            out.append((a.vararg.arg, 'vararg', None))
        for p, d in zip(a.kwonlyargs, a.kw_defaults):
            out.append((p.arg, 'kwonly', d))
        if a.kwarg:
            out.append((a.kwarg.arg, 'kwarg', None))
        if self.self_name is None:
            return out
        if not out or out[0][0] != self.self_name or out[0][1] != 'pos':
            raise Untranslatable(f'first parameter is not `{self.self_name}`')
        return out[1:]

    def header_env(self):
        env = Env()
        sig = self.signature()
        # `*args` / `**kwargs` may have any name (declared as '*' / '**'); the others are keyword names
        star = {'vararg': '*', 'kwarg': '**'}
        self.ptypes = dict(self.ptypes)
        for n, kd, _ in sig:
            if kd in star and star[kd] in self.ptypes:
                self.ptypes[n] = self.ptypes.pop(star[kd])
        names = [n for n, _, _ in sig]
        if sorted(names) != sorted(self.ptypes):
            raise Untranslatable(f'parameters {names}, expected {sorted(self.ptypes)}')
        binders = []
        if self.self_name is not None:
            first_ty = 'cls' if self.self_name == 'cls' else 'obj'
            env = env.bind(self.self_name, self.self_name + '_', first_ty)
            binders = [f'({self.self_name}_ : {LEAN_TY[first_ty]})']
        for n in names:
            v = self.local(n)
            env = env.bind(n, v, self.ptypes[n])
            binders.append(f'({v} : {LEAN_TY[self.ptypes[n]]})')
        return env, binders

    # ------------------------------------------------------------------ resolution of global names
    def resolve(self, node):
        """the Python object a Name / dotted Attribute of module globals refers to (or None)"""
        if isinstance(node, ast.Name):
            if node.id in self.g:
                return self.g[node.id]
            import builtins
            return getattr(builtins, node.id, None)
        if isinstance(node, ast.Attribute):
            base = self.resolve(node.value)
            if base is None:
                return None
            return getattr(base, node.attr, None)
        return None

    def edzed_class(self, node):
        obj = self.resolve(node)
        if not (isinstance(obj, type) and obj.__module__.startswith('edzed') and obj.__name__ == ast.unparse(node).split('.')[-1]):
            raise Untranslatable(f'`{ast.unparse(node)}` is not a class of edzed with that name')
        return obj.__name__

    def exc_class(self, node):
        """class name of `K` / `K(...)` in raise / except / as argument"""
        if isinstance(node, ast.Call):
            for x in list(node.args) + [k.value for k in node.keywords]:
                if not effect_free_message(x):
                    raise Untranslatable(f'exception argument `{ast.unparse(x)}`')
            node = node.func
        obj = self.resolve(node)
        if not (isinstance(obj, type) and issubclass(obj, BaseException)):
            raise Untranslatable(f'`{ast.unparse(node)}` is not an exception class')
        EXC_SEEN.add(obj)
        return obj.__name__

    # ------------------------------------------------------------------ expressions
    def coerce_av(self, ex):
        t = ex.ty
        m = {'arg': 'AV.arg ({})', 'str': 'AV.str ({})', 'bool': 'AV.bool ({})', 'obj': 'AV.obj ({})',
             'optobj': 'AV.optobj ({})', 'ext': 'AV.ext ({})'}
        if t in m:
            return m[t].format(ex.term)
        if t == 'emptydict':
            return 'AV.dict []'
        if t == 'emptyset':
            return 'AV.set []'
        raise Untranslatable(f'a value of type {t} stored in an attribute')

    def as_arg(self, ex):
        if ex.ty == 'arg':
            return ex
        if ex.ty == 'str':
            return Ex(f'Arg.val (Val.str ({ex.term}))', 'arg', ex.pre)
        if ex.ty == 'obj':
            return Ex(f'Arg.obj ({ex.term})', 'arg', ex.pre)
        raise Untranslatable(f'a value of type {ex.ty} passed as an argument')

    def truth(self, ex):
        """the exact truth value for the static type"""
        t = ex.ty
        if t == 'bool':
            return ex.term
        if t == 'arg':
            return f'Arg.truthy ({ex.term})'
        if t == 'str':
            return f'(({ex.term}) != "")'
        if t in ('kw', 'args'):
            return f'!(List.isEmpty ({ex.term}))'
        raise Untranslatable(f'truth value of a {t}')

    def const(self, node):
        v = node.value
        if v is None:
            return Ex('(Arg.none : Arg O)', 'arg')
        if v is True or v is False:
            return Ex('true' if v else 'false', 'bool')
        if isinstance(v, str):
            return Ex(lean_str(v), 'str')
        if isinstance(v, int) and v >= 0:
            return Ex(str(v), 'nat')
        raise Untranslatable(f'constant {v!r}')

    def stored_const(self, node):
        """a literal stored in an attribute / used as a default keeps its Python type"""
        v = node.value
        if v is None:
            return Ex('(Arg.none : Arg O)', 'arg')
        if v is True or v is False:
            return Ex(f'(Arg.val (Val.bool {"true" if v else "false"}) : Arg O)', 'arg')
        if isinstance(v, str):
            return Ex(f'(Arg.val (Val.str {lean_str(v)}) : Arg O)', 'arg')
        if isinstance(v, int):
            return Ex(f'(Arg.val (Val.int ({v})) : Arg O)', 'arg')
        raise Untranslatable(f'constant {v!r}')

    def expr(self, node, env):
        src = ast.unparse(node)
        if src in self.leaves:
            kind, term, ty = self.leaves[src]
            if kind == 'pure':
                return Ex(term, ty)
            v = self.fresh()
            return Ex(v, ty, [(kind, v, term)])
        if isinstance(node, ast.Constant):
            return self.const(node)
        if isinstance(node, ast.Name):
            if node.id in env.lean:
                return Ex(env.lean[node.id], env.ty[node.id])
            if node.id in self.glob:
                if node.id not in self.declared_global:
                    raise Untranslatable(f'`{node.id}` used without a `global` declaration')
                read, _write, ty = self.glob[node.id]
                v = self.fresh()
                return Ex(v, ty, [('s', v, read)])
            if node.id == 'UNDEF':
                from edzed import block
                if self.g.get('UNDEF') is not block.UNDEF:
                    raise Untranslatable('UNDEF is not block.UNDEF')
                return Ex('(Arg.undef : Arg O)', 'arg')
            raise Untranslatable(f'name `{node.id}`')
        if isinstance(node, ast.JoinedStr):
            parts, pre = [], []
            for v in node.values:
                if isinstance(v, ast.Constant):
                    parts.append(lean_str(v.value))
                elif isinstance(v, ast.FormattedValue) and v.conversion == -1 and v.format_spec is None:
                    e = self.expr(v.value, env)
                    if e.ty != 'str':
                        raise Untranslatable(f'f-string field of type {e.ty}')
                    pre += e.pre
                    parts.append(f'({e.term})')
                else:
                    raise Untranslatable('f-string with a conversion / format')
            return Ex('(' + ' ++ '.join(parts or ['""']) + ')', 'str', pre)
        if isinstance(node, ast.BinOp) and isinstance(node.op, ast.Add):
            a, b = self.expr(node.left, env), self.expr(node.right, env)
            if a.ty == b.ty == 'str':
                return Ex(f'(({a.term}) ++ ({b.term}))', 'str', a.pre + b.pre)
            raise Untranslatable(f'`+` on {a.ty} and {b.ty}')
        if isinstance(node, ast.Attribute):
            if src == f'type({self.self_name}).__name__' and self.self_name == 'self':
                v = self.fresh()
                return Ex(v, 'str', [('s', v, 'P.className s_ self_')])
            if node.attr == 'name':
                o = self.expr(node.value, env)
                if o.ty == 'obj':
                    v = self.fresh()
                    return Ex(v, 'str', o.pre + [('s', v, f'P.nameOf s_ ({o.term})')])
            raise Untranslatable(f'attribute `{src}`')
        if isinstance(node, ast.IfExp):
            c = self.test(node.test, env)
            a, b = self.expr(node.body, env), self.expr(node.orelse, env)
            if c[0] != 'pure' or a.pre or b.pre or a.ty != b.ty:
                raise Untranslatable('conditional expression with effects / of two types')
            return Ex(f'(if {c[1]} then {a.term} else {b.term})', a.ty)
        if isinstance(node, (ast.BoolOp, ast.UnaryOp, ast.Compare)):
            c = self.test(node, env)
            if c[0] == 'pure':
                return Ex(c[1], 'bool')
            v = self.fresh()
            return Ex(v, 'bool', [('m', v, c[1])])
        if isinstance(node, ast.Dict) and not node.keys:
            return Ex('', 'emptydict')
        if isinstance(node, ast.Tuple):
            items = [self.expr(e, env) for e in node.elts]
            if items and all(i.ty == 'fname' and not i.pre for i in items):
                return Ex('[' + ', '.join(i.term for i in items) + ']', 'list:fname')
            raise Untranslatable(f'tuple `{src}`')
        if isinstance(node, ast.Call):
            return self.call(node, env)
        raise Untranslatable(f'expression `{src}`')

    def fn_qualname(self, node):
        """`SBlock.dummy_method` -> the qualified name of the function object it is"""
        obj = self.resolve(node)
        if inspect.isfunction(obj) and obj.__module__.startswith('edzed'):
            return obj.__qualname__
        return None

    def call(self, node, env):
        src = ast.unparse(node)
        fsrc = ast.unparse(node.func)
        args, kws = node.args, node.keywords
        plain = not kws and not any(isinstance(a, ast.Starred) for a in args)
        if fsrc == 'isinstance' and plain and len(args) == 2:
            e = self.expr(args[0], env)
            if ast.unparse(args[1]) == 'str':
                if self.resolve(args[1]) is not str:
                    raise Untranslatable('str is shadowed')
                if e.ty != 'arg':
                    raise Untranslatable(f'isinstance(<{e.ty}>, str)')
                return Ex(f'Arg.isStr ({e.term})', 'bool', e.pre)
            k = self.edzed_class(args[1])
            v = self.fresh()
            if e.ty == 'arg':
                return Ex(v, 'bool', e.pre + [('s', v, f'argIsInstance P s_ ({e.term}) {lean_str(k)}')])
            if e.ty == 'obj':
                return Ex(v, 'bool', e.pre + [('s', v, f'P.isInstance s_ ({e.term}) {lean_str(k)}')])
            raise Untranslatable(f'isinstance(<{e.ty}>, {k})')
        if fsrc == 'bool' and plain and len(args) == 1:
            e = self.expr(args[0], env)
            return Ex(self.truth(e), 'bool', e.pre)
        if fsrc == 'str' and plain and len(args) == 1:
            e = self.expr(args[0], env)
            if e.ty == 'nat':
                return Ex(f'pyStrNat ({e.term})', 'str', e.pre)
            raise Untranslatable(f'str(<{e.ty}>)')
        if fsrc == 'set' and not args and not kws:
            return Ex('', 'emptyset')
        if fsrc == 'callable' and plain and len(args) == 1:
            e = self.expr(args[0], env)
            if e.ty == 'attr':
                return Ex(f'P.callable ({e.term})', 'bool', e.pre)
        if fsrc == 'getattr' and plain and len(args) == 2 and ast.unparse(args[0]) == 'self':
            e = self.expr(args[1], env)
            if e.ty == 'str':
                v = self.fresh()
                return Ex(v, 'attr', e.pre + [('m', v, f'P.getattrM self_ ({e.term})')])
        if fsrc in ('sum', 'any') and plain and len(args) == 1 and isinstance(args[0], ast.GeneratorExp):
            return self.genexp(fsrc, args[0], env)
        if isinstance(node.func, ast.Attribute) and node.func.attr == 'startswith' and plain and len(args) == 1:
            o, p = self.expr(node.func.value, env), self.expr(args[0], env)
            if p.ty != 'str':
                raise Untranslatable('startswith(<not a str>)')
            if o.ty == 'str':
                return Ex(f'strStartsWith ({o.term}) ({p.term})', 'bool', o.pre + p.pre)
            if o.ty == 'arg':
                v = self.fresh()
                return Ex(v, 'bool', o.pre + p.pre + [('m', v, f'Arg.startsWith ({o.term}) ({p.term})')])
            raise Untranslatable(f'<{o.ty}>.startswith')
        if isinstance(node.func, ast.Attribute) and node.func.attr in ('findblock', 'abort') and plain and len(args) == 1:
            o = self.expr(node.func.value, env)
            pre = list(o.pre)
            recv = o.term
            if o.ty == 'optobj':
                recv = self.fresh()
                pre.append(('m', recv, f'M.deref ({o.term})'))
            elif o.ty != 'obj':
                raise Untranslatable(f'<{o.ty}>.{node.func.attr}')
            from edzed import simulator
            if getattr(simulator.Circuit, node.func.attr, None) is None:
                raise Untranslatable(f'Circuit.{node.func.attr} does not exist')
            v = self.fresh()
            if node.func.attr == 'findblock':
                a = self.expr(args[0], env)
                if a.ty != 'str':
                    raise Untranslatable(f'findblock(<{a.ty}>)')
                return Ex(v, 'obj', pre + a.pre + [('m', v, f'P.findblock {recv} ({a.term})')])
            k = self.exc_class(args[0])
            if not isinstance(args[0], ast.Call):
                raise Untranslatable('abort(<not a new exception>)')
            return Ex(v, 'unit', pre + [('m', v, f'P.abort {recv} {lean_str(k)}')])
        if fsrc in self.callees:
            lean_fn, ptys, rty, check = self.callees[fsrc]
            if check is not None and not check(self, node):
                raise Untranslatable(f'`{fsrc}` does not resolve to the translated function')
            if lean_fn not in DONE and not lean_fn.startswith('P.'):
                raise Untranslatable(f'`{fsrc}`: {lean_fn} was not translated')
            if not plain or len(args) != len(ptys):
                raise Untranslatable(f'call `{src}`')
            pre, terms = [], []
            for a, pt in zip(args, ptys):
                e = self.expr(a, env)
                if pt == 'arg':
                    e = self.as_arg(e)
                if e.ty != pt:
                    raise Untranslatable(f'argument `{ast.unparse(a)}` of type {e.ty}, expected {pt}')
                pre += e.pre
                terms.append(f'({e.term})')
            v = self.fresh()
            return Ex(v, rty, pre + [('m', v, ' '.join([lean_fn] + terms))])
        raise Untranslatable(f'call `{src}`')

    def genexp(self, fname, g, env):
        if len(g.generators) != 1 or g.generators[0].is_async or not isinstance(g.generators[0].target, ast.Name):
            raise Untranslatable('generator expression')
        comp = g.generators[0]
        it = self.expr(comp.iter, env)
        if it.ty == 'list:obj':
            ety = 'obj'
        elif it.ty == 'list:fname':
            ety = 'fname'
        else:
            raise Untranslatable(f'iteration over a {it.ty}')
        var = self.local(comp.target.id)
        env2 = env.bind(comp.target.id, var, ety)

        def inner(node):
            c = self.test(node, env2, allow_state=True)
            if c[0] != 'pure':
                raise Untranslatable('a condition with effects inside a generator expression')
            return c[1]
        if fname == 'sum':
            if not (isinstance(g.elt, ast.Constant) and g.elt.value == 1):
                raise Untranslatable('sum of something else than 1')
            if len(comp.ifs) > 1:
                raise Untranslatable('several ifs')
            cond = inner(comp.ifs[0]) if comp.ifs else 'true'
            v = self.fresh()
            return Ex(v, 'nat', it.pre + [('s', v, f'List.countP (fun {var} => {cond}) ({it.term})')])
        if comp.ifs:
            raise Untranslatable('any(… if …)')
        cond = inner(g.elt)
        v = self.fresh()
        return Ex(v, 'bool', it.pre + [('s', v, f'List.any ({it.term}) fun {var} => {cond}')])

    # ------------------------------------------------------------------ tests
    def test(self, node, env, allow_state=False):
        """('pure', Bool term) | ('m', M σ Bool term).  With allow_state the reads of the state stay inline
        (the caller provides `s_`)."""
        if isinstance(node, ast.UnaryOp) and isinstance(node.op, ast.Not) and isinstance(node.operand, ast.BoolOp):
            # De Morgan: `not (a or b)` is `not a and not b` for every value and with the same short circuit
            inner = node.operand
            flipped = ast.BoolOp(op=ast.And() if isinstance(inner.op, ast.Or) else ast.Or(),
                                 values=[ast.UnaryOp(op=ast.Not(), operand=v) for v in inner.values])
            return self.test(ast.fix_missing_locations(ast.copy_location(flipped, node)), env, allow_state)
        if isinstance(node, ast.UnaryOp) and isinstance(node.op, ast.Not) and isinstance(node.operand, ast.UnaryOp) \
                and isinstance(node.operand.op, ast.Not):
            return self.test(node.operand.operand, env, allow_state)      # `not not x`: the truth value of x
        if isinstance(node, ast.UnaryOp) and isinstance(node.op, ast.Not):
            k, t = self.test(node.operand, env, allow_state)
            return (k, f'!({t})') if k == 'pure' else ('m', f'M.notM ({t})')
        if isinstance(node, ast.BoolOp):
            parts = [self.test(v, env, allow_state) for v in node.values]
            if all(k == 'pure' for k, _ in parts):
                op = ' && ' if isinstance(node.op, ast.And) else ' || '
                return ('pure', '(' + op.join(t for _, t in parts) + ')')
            fn = 'M.andM' if isinstance(node.op, ast.And) else 'M.orM'
            ms = [t if k == 'm' else f'M.pure ({t})' for k, t in parts]
            acc = ms[-1]
            for m in reversed(ms[:-1]):
                acc = f'{fn} ({m}) ({acc})'
            return ('m', acc)
        if isinstance(node, ast.Compare):
            if len(node.ops) != 1:
                raise Untranslatable('comparison chain')
            op, right = node.ops[0], node.comparators[0]
            rsrc = ast.unparse(right)
            if isinstance(op, (ast.Is, ast.IsNot)) and rsrc in ('None', 'UNDEF'):
                e = self.expr(node.left, env)
                if rsrc == 'UNDEF':
                    self.expr(right, env)       # checks that UNDEF is block.UNDEF
                    if e.ty != 'arg':
                        raise Untranslatable(f'<{e.ty}> is UNDEF')
                    t = f'Arg.isUndef ({e.term})'
                elif e.ty == 'arg':
                    t = f'Arg.isNone ({e.term})'
                elif e.ty in ('optobj', 'opttask'):
                    t = f'Option.isNone ({e.term})'
                else:
                    raise Untranslatable(f'<{e.ty}> is None')
                if isinstance(op, ast.IsNot):
                    t = f'!({t})'
                return self.finish_test(e.pre, t, allow_state)
            if isinstance(op, ast.Eq):
                a = self.expr(node.left, env)
                # attr == <function>.__get__(self, type(self))
                if a.ty == 'attr' and isinstance(right, ast.Call) and isinstance(right.func, ast.Attribute) \
                        and right.func.attr == '__get__' and [ast.unparse(x) for x in right.args] == ['self', 'type(self)'] \
                        and not right.keywords:
                    f = self.expr(right.func.value, env)
                    if f.ty == 'fname':
                        return self.finish_test(a.pre + f.pre, f'P.eqBound ({a.term}) self_ ({f.term})', allow_state)
                b = self.expr(right, env)
                if a.ty == b.ty == 'opttask':
                    return self.finish_test(a.pre + b.pre, f'decide (({a.term}) = ({b.term}))', allow_state)
                raise Untranslatable(f'`==` on {a.ty} and {b.ty}')
            raise Untranslatable(f'comparison `{ast.unparse(node)}`')
        e = self.expr(node, env)
        return self.finish_test(e.pre, self.truth(e), allow_state)

    def finish_test(self, pre, term, allow_state):
        if not pre:
            return ('pure', term)
        if allow_state and all(k == 's' for k, _, _ in pre):
            # inline the state reads (inside a generator expression the surrounding `M.gets` provides `s_`)
            for kind, var, t in reversed(pre):
                term = f'(let {var} := {t}; {term})'
            return ('pure', term)
        return ('m', wrap_pre(pre, f'M.pure ({term})'))

    # ------------------------------------------------------------------ statements
    def terminates(self, stmts):
        """every path through the statement list ends in raise / return"""
        for s in stmts:
            if isinstance(s, (ast.Raise, ast.Return)):
                return True
            if isinstance(s, ast.If) and s.orelse and self.terminates(s.body) and self.terminates(s.orelse):
                return True
        return False

    def block(self, stmts, env, k, ctx):
        """the statements, then the continuation `k(env)`; ctx: {'ret': fn(term|None) -> lean, 'loop': bool}"""
        if not stmts:
            return k(env)
        s, rest = stmts[0], stmts[1:]

        def cont(env2):
            return self.block(rest, env2, k, ctx)
        if isinstance(s, ast.Expr) and isinstance(s.value, ast.Constant):
            return cont(env)
        if isinstance(s, ast.Global):
            for n in s.names:
                if n not in self.glob:
                    raise Untranslatable(f'global {n}')
                self.declared_global.add(n)
            return cont(env)
        if isinstance(s, ast.Pass):
            return cont(env)
        if isinstance(s, ast.AnnAssign) and s.value is None:
            return cont(env)            # an annotation only: no effect at run time
        if isinstance(s, ast.If):
            return self.if_stmt(s, rest, env, k, ctx)
        if isinstance(s, ast.For):
            return self.for_stmt(s, env, cont, ctx)
        if isinstance(s, ast.Try):
            return self.try_stmt(s, rest, env, k, ctx)
        if isinstance(s, ast.Raise):
            if s.exc is None:
                raise Untranslatable('bare raise')
            if s.cause is not None and not (isinstance(s.cause, ast.Constant) and s.cause.value is None):
                raise Untranslatable('raise … from <exception>')
            return f'M.raise {lean_str(self.exc_class(s.exc))}'
        if isinstance(s, ast.Return):
            if ctx.get('loop'):
                raise Untranslatable('return inside a loop')
            if s.value is None:
                if self.ret != 'unit':
                    raise Untranslatable('return without a value')
                return ctx['ret'](Ex('()', 'unit'))
            e = self.expr(s.value, env)
            if e.ty != self.ret:
                raise Untranslatable(f'return of a {e.ty}, expected {self.ret}')
            return wrap_pre(e.pre, ctx['ret'](e))
        if isinstance(s, (ast.Assign, ast.AnnAssign)):
            targets = s.targets if isinstance(s, ast.Assign) else [s.target]
            if len(targets) != 1:
                raise Untranslatable('chained assignment')
            return self.assign(targets[0], s.value, env, cont)
        if isinstance(s, ast.Expr) and isinstance(s.value, ast.Call):
            return self.call_stmt(s.value, env, cont)
        raise Untranslatable(f'statement `{ast.unparse(s)[:60]}`')

    def narrowing(self, test, env):
        """`isinstance(N, str)` / `not isinstance(N, str)` with N a local of type arg -> (name, positive?)"""
        neg = False
        if isinstance(test, ast.UnaryOp) and isinstance(test.op, ast.Not):
            neg, test = True, test.operand
        if isinstance(test, ast.Call) and ast.unparse(test.func) == 'isinstance' and len(test.args) == 2 \
                and isinstance(test.args[0], ast.Name) and ast.unparse(test.args[1]) == 'str' and not test.keywords \
                and env.ty.get(test.args[0].id) == 'arg' and self.resolve(test.args[1]) is str:
            return test.args[0].id, not neg
        return None

    def if_stmt(self, s, rest, env, k, ctx):
        body_t, else_t = self.terminates(s.body), self.terminates(s.orelse)
        nar = self.narrowing(s.test, env)
        if nar is not None:
            name, positive = nar
            v = env.lean[name]
            vs = v + 's'
            env_str = env.bind(name, vs, 'str')
            b_env, e_env = (env_str, env) if positive else (env, env_str)
        else:
            b_env = e_env = env
        kb = ke = None
        if not body_t and not else_t and rest and not ctx.get('in_try') and not ctx.get('loop'):
            # both branches go on: the rest becomes a JOIN POINT, a definition of its own called from both
            kb = ke = self.join(s, rest, b_env, e_env, k, ctx)
        b = self.block(list(s.body) + ([] if body_t or kb else rest), b_env, kb or k, ctx)
        e = self.block(list(s.orelse) + ([] if else_t or ke else rest), e_env, ke or k, ctx)
        if nar is not None:
            some_branch, none_branch = (b, e) if positive else (e, b)
            return (f'(match Arg.str? {v} with\n| some {vs} =>\n{indent(some_branch)}\n| Option.none =>\n'
                    f'{indent(none_branch)})')
        kind, c = self.test(s.test, env)
        if kind == 'pure':
            return f'if {c} then\n{indent(b)}\nelse\n{indent(e)}'
        return f'M.bind ({c}) fun (c_ : Bool) =>\nif c_ then\n{indent(b)}\nelse\n{indent(e)}'

    def join(self, s, rest, b_env, e_env, k, ctx):
        """the statements after an `if` whose branches both fall through, as a separate definition.  A local
        that has two static types at the join (a str computed in one branch, the caller's argument in the other;
        an object looked up in one, the argument itself in the other) is passed as an `Arg`."""
        used = []
        for st in rest:
            for n in ast.walk(st):
                if isinstance(n, ast.Name) and isinstance(n.ctx, ast.Load) and n.id not in used:
                    used.append(n.id)
        # dry run: the environments at the end of the two branches
        saved = (self.counter, list(self.aux), set(self.declared_global))
        ends = []
        for stmts, env0 in ((s.body, b_env), (s.orelse, e_env)):
            def rec(env_end, _ends=ends):
                _ends.append(env_end)
                return 'M.pure ()'
            self.block(list(stmts), env0, rec, ctx)
        self.counter, self.aux, self.declared_global = saved[0], saved[1], saved[2]
        if not ends:
            raise Untranslatable('join without a path')
        names = [n for n in used if any(n in e.ty for e in ends) and n != self.self_name]
        jty = {}
        for n in names:
            tys = set()
            for e in ends:
                if n not in e.ty:
                    raise Untranslatable(f'`{n}` may be unbound after the if statement')
                tys.add(e.ty[n])
            if len(tys) == 1:
                jty[n] = tys.pop()
            elif tys <= {'str', 'arg', 'obj'}:
                jty[n] = 'arg'
            else:
                raise Untranslatable(f'`{n}` has the types {sorted(tys)} after the if statement')
        self.joins += 1
        jname = f'{self.lean_name}_j{self.joins}'
        env_j = Env()
        binders = []
        if self.self_name is not None:
            env_j = env_j.bind(self.self_name, self.self_name + '_', b_env.ty[self.self_name])
            binders.append(f'({self.self_name}_ : {LEAN_TY[b_env.ty[self.self_name]]})')
        for n in names:
            v = self.local(n)
            env_j = env_j.bind(n, v, jty[n])
            binders.append(f'({v} : {LEAN_TY[jty[n]]})')
        body = self.block(list(rest), env_j, k, ctx)
        rty = LEAN_TY[self.ret]
        self.aux.append(f'/-- translated from `{self.doc}`: the statements after an `if` both branches of which fall '
                        f'through (join point {self.joins}) -/\n'
                        f'def {jname} {PARAMS} {" ".join(binders)} : M σ ({rty}) :=\n{indent(body)}\n')

        def call(env_end):
            args = []
            for n in names:
                e = Ex(env_end.lean[n], env_end.ty[n])
                if jty[n] == 'arg':
                    e = self.as_arg(e)
                args.append(f'({e.term})')
            selfarg = [self.self_name + '_'] if self.self_name is not None else []
            return ' '.join([jname, 'P'] + selfarg + args)
        return call

    def for_stmt(self, s, env, cont, ctx):
        if s.orelse:
            raise Untranslatable('for … else')
        it = s.iter
        if not (isinstance(it, ast.Call) and isinstance(it.func, ast.Attribute) and it.func.attr == 'items'
                and not it.args and not it.keywords):
            raise Untranslatable(f'iteration over `{ast.unparse(it)}`')
        d = self.expr(it.func.value, env)
        if d.ty != 'kw' or d.pre:
            raise Untranslatable(f'iteration over the items of a {d.ty}')
        if not (isinstance(s.target, ast.Tuple) and len(s.target.elts) == 2
                and all(isinstance(e, ast.Name) for e in s.target.elts)):
            raise Untranslatable('loop target')
        kn, vn = (e.id for e in s.target.elts)
        kv, vv = self.local(kn), self.local(vn)
        env2 = env.bind(kn, kv, 'str').bind(vn, vv, 'arg')
        for n in ast.walk(ast.Module(body=s.body, type_ignores=[])):
            if isinstance(n, (ast.Break, ast.Continue)):
                raise Untranslatable('break / continue')
            if isinstance(n, ast.Name) and isinstance(n.ctx, ast.Store):
                raise Untranslatable('a local bound inside a loop')
        body = self.block(list(s.body), env2, lambda _e: 'M.pure ()', dict(ctx, loop=True))
        return (f'M.bind (M.forM ({d.term}) fun (({kv}, {vv}) : String × Arg O) =>\n{indent(body, 2)}) fun _ =>\n'
                f'{cont(env)}')

    def handler_classes(self, h):
        if h.type is None:
            raise Untranslatable('bare except')
        nodes = h.type.elts if isinstance(h.type, ast.Tuple) else [h.type]
        return [self.exc_class(n) for n in nodes]

    def try_stmt(self, s, rest, env, k, ctx):
        if s.finalbody or s.orelse:
            raise Untranslatable('try with else / finally')
        if ctx.get('loop') or ctx.get('in_try'):
            raise Untranslatable('nested try / try in a loop')
        if self.terminates(s.body) and all(self.terminates(h.body) for h in s.handlers):
            # every path returns / raises: the try statement is the end of the function
            def dead(_env):
                raise Untranslatable('a path through the try statement that falls through')
            tctx = dict(ctx, in_try=True)
            body = self.block(list(s.body), env, dead, tctx)
            handler = 'M.raise e_'
            for h in reversed(s.handlers):
                classes = self.handler_classes(h)
                henv = env.bind(h.name, 'e_', 'exc') if h.name else env
                hb = self.block(list(h.body), henv, dead, tctx)
                cond = ' || '.join(f'catches {lean_str(c)} e_' for c in classes)
                handler = f'if {cond} then\n{indent(hb)}\nelse\n{indent(handler)}'
            return f'M.tryCatch (\n{indent(body, 2)}) fun (e_ : PyExc) =>\n{indent(handler, 2)}'
        # the locals the rest needs from the try statement
        assigned = []
        for part in [s.body] + [h.body for h in s.handlers]:
            for n in ast.walk(ast.Module(body=part, type_ignores=[])):
                if isinstance(n, ast.Name) and isinstance(n.ctx, ast.Store) and n.id not in assigned:
                    assigned.append(n.id)
        used_later = {n.id for st in rest for n in ast.walk(st) if isinstance(n, ast.Name) and isinstance(n.ctx, ast.Load)}
        join = [n for n in assigned if n in used_later]
        join_ty = {}

        def fall(env2):
            vals = []
            for n in join:
                if n not in env2.ty:
                    raise Untranslatable(f'`{n}` may be unbound after the try statement')
                if join_ty.setdefault(n, env2.ty[n]) != env2.ty[n]:
                    raise Untranslatable(f'`{n}` has two types after the try statement')
                vals.append(env2.lean[n])
            tup = '(' + ', '.join(vals) + ')' if vals else '()'
            return f'M.pure (Flow.next {tup})'
        inner_ctx = dict(ctx, in_try=True, ret=lambda e: f'M.pure (Flow.ret ({e.term}))')
        # a local that is bound before the try statement keeps its binding on a path that does not rebind it
        body = self.block(list(s.body), env, fall, inner_ctx)
        hs = []
        for h in s.handlers:
            classes = self.handler_classes(h)
            henv = env
            if h.name:
                henv = env.bind(h.name, 'e_', 'exc')
            hb = self.block(list(h.body), henv, fall, inner_ctx)
            cond = ' || '.join(f'catches {lean_str(c)} e_' for c in classes)
            hs.append((cond, hb))
        handler = 'M.raise e_'
        for cond, hb in reversed(hs):
            handler = f'if {cond} then\n{indent(hb)}\nelse\n{indent(handler)}'
        env3 = env
        pats = []
        for n in join:
            if n not in join_ty:
                raise Untranslatable(f'`{n}` is never bound')
            v = self.local(n)
            env3 = env3.bind(n, v, join_ty[n])
            pats.append(v)
        pat = '(' + ', '.join(pats) + ')' if pats else '()'
        rty = LEAN_TY[self.ret]
        jty = ' × '.join(LEAN_TY[join_ty[n]] for n in join) if join else 'Unit'
        after = self.block(rest, env3, k, ctx)
        return (f'M.bind (M.tryCatch (\n{indent(body, 2)}) fun (e_ : PyExc) =>\n{indent(handler, 2)}) '
                f'fun (f_ : Flow ({rty}) ({jty})) =>\n(match f_ with\n| Flow.ret r_ => {ctx["ret"](Ex("r_", self.ret))}\n'
                f'| Flow.next {pat} =>\n{indent(after)})')

    def assign(self, target, value, env, cont):
        tsrc = ast.unparse(target)
        # kwargs.pop('key', default)
        if isinstance(value, ast.Call) and isinstance(value.func, ast.Attribute) and value.func.attr == 'pop' \
                and isinstance(value.func.value, ast.Name) and env.ty.get(value.func.value.id) == 'kw' \
                and len(value.args) == 2 and not value.keywords and isinstance(value.args[0], ast.Constant) \
                and isinstance(value.args[0].value, str):
            kwname = value.func.value.id
            kwv = env.lean[kwname]
            d = self.as_arg(self.expr(value.args[1], env)) if not isinstance(value.args[1], ast.Constant) \
                else self.stored_const(value.args[1])
            if d.pre:
                raise Untranslatable('default with effects')
            key = lean_str(value.args[0].value)
            t = self.fresh()
            popped = Ex(t, 'arg')
            inner = self.store(target, popped, env, cont)
            return f'let {t} : Arg O := kwPopD {kwv} {key} ({d.term})\nlet {kwv} : Kw (Arg O) := kwErase {kwv} {key}\n{inner}'
        if isinstance(value, ast.Constant) and not isinstance(target, ast.Name):
            e = self.stored_const(value)
        else:
            e = self.expr(value, env)
        return wrap_pre(e.pre, self.store(target, Ex(e.term, e.ty), env, cont))

    def store(self, target, e, env, cont):
        tsrc = ast.unparse(target)
        if isinstance(target, ast.Attribute) and ast.unparse(target.value) == 'self' and self.self_name == 'self':
            return f'M.bind (M.modify (P.setAttr self_ {lean_str(target.attr)} ({self.coerce_av(e)}))) fun _ =>\n{cont(env)}'
        if isinstance(target, ast.Name):
            if target.id in self.glob:
                if target.id not in self.declared_global:
                    raise Untranslatable(f'assignment to `{target.id}` without `global`')
                _read, write, ty = self.glob[target.id]
                if ty == 'optobj' and e.ty == 'obj':
                    return f'M.bind (M.modify ({write} (some ({e.term})))) fun _ =>\n{cont(env)}'
                raise Untranslatable(f'a {e.ty} stored in the global {target.id}')
            if e.ty in ('emptydict', 'emptyset', 'unit'):
                raise Untranslatable(f'local of type {e.ty}')
            v = self.local(target.id)
            ty = LEAN_TY.get(e.ty)
            if ty is None:
                raise Untranslatable(f'local of type {e.ty}')
            return f'let {v} : {ty} := {e.term}\n{cont(env.bind(target.id, v, e.ty))}'
        if isinstance(target, ast.Subscript) and ast.unparse(target.value) == 'cls._instances' and self.self_name == 'cls':
            key = self.expr(target.slice, env)
            if key.ty != 'arg' or key.pre or e.ty != 'obj':
                raise Untranslatable(f'`{tsrc} = <{e.ty}>`')
            return f'M.bind (M.modify (P.instancesSet ({key.term}) ({e.term}))) fun _ =>\n{cont(env)}'
        raise Untranslatable(f'assignment to `{tsrc}`')

    def call_stmt(self, call, env, cont):
        src = ast.unparse(call)
        fsrc = ast.unparse(call.func)
        if src in self.stmts:
            return f'M.bind ({self.stmts[src]}) fun _ =>\n{cont(env)}'
        # logging: ignored when the arguments are effect-free
        if re.fullmatch(r'_logger\.(debug|info|warning|error)', fsrc):
            import logging
            if not isinstance(self.g.get('_logger'), logging.Logger):
                raise Untranslatable('_logger is not a Logger')
            for a in list(call.args) + [kw.value for kw in call.keywords]:
                if not (isinstance(a, ast.Constant) or (isinstance(a, ast.Name) and (a.id in env.ty))):
                    raise Untranslatable(f'logging argument `{ast.unparse(a)}`')
            return cont(env)
        if fsrc == 'setattr' and len(call.args) == 3 and not call.keywords and ast.unparse(call.args[0]) == 'self':
            kx, vx = self.expr(call.args[1], env), self.expr(call.args[2], env)
            if kx.ty != 'str' or kx.pre or vx.pre:
                raise Untranslatable(f'`{src}`')
            return f'M.bind (M.modify (P.setAttr self_ ({kx.term}) ({self.coerce_av(vx)}))) fun _ =>\n{cont(env)}'
        if fsrc == 'super().__init__':
            if self.super_init is None:
                raise Untranslatable('super().__init__')
            lean_fn, check = self.super_init
            if not check():
                raise Untranslatable('super().__init__ is not the expected method')
            if lean_fn not in DONE:
                raise Untranslatable(f'{lean_fn} was not translated')
            if len(call.args) != 1 or not isinstance(call.args[0], ast.Starred) or len(call.keywords) != 1 \
                    or call.keywords[0].arg is not None:
                raise Untranslatable(f'`{src}`')
            a, kw = self.expr(call.args[0].value, env), self.expr(call.keywords[0].value, env)
            if a.ty != 'args' or kw.ty != 'kw' or a.pre or kw.pre:
                raise Untranslatable(f'`{src}`')
            return f'M.bind ({lean_fn} P self_ ({a.term}) ({kw.term})) fun _ =>\n{cont(env)}'
        e = self.expr(call, env)
        if e.ty not in ('unit', 'bool', 'obj', 'ext', 'optobj'):
            raise Untranslatable(f'`{src}` as a statement')
        return wrap_pre(e.pre, cont(env))

    # ------------------------------------------------------------------ whole function
    def translate(self, lean_name):
        self.lean_name = lean_name
        env, binders = self.header_env()
        rty = LEAN_TY[self.ret]
        ctx = {'ret': lambda e: f'M.pure ({e.term})'}

        def end(_env):
            if self.ret != 'unit':
                raise Untranslatable('a path without return')
            return 'M.pure ()'
        body = self.block(list(self.tree.body), env, end, ctx)
        return ''.join(a + '\n' for a in self.aux) + (
            f'/-- translated from `{self.doc}`: the statements in program order -/\n'
            f'def {lean_name} {PARAMS} {" ".join(binders)} : M σ ({rty}) :=\n{indent(body)}')

    def adapter(self, lean_name, target):
        """`<lean_name> P self_ args kwargs`: Python's binding of the call to the signature, with the defaults"""
        sig = self.signature()
        pos = [(n, d) for n, kd, d in sig if kd == 'pos']
        kwonly = [(n, d) for n, kd, d in sig if kd == 'kwonly']
        var = [n for n, kd, _ in sig if kd == 'vararg']
        kwa = [n for n, kd, _ in sig if kd == 'kwarg']
        named = pos + kwonly
        pats, vals = [], {}
        for i, (n, d) in enumerate(named):
            if self.ptypes[n] != 'arg':
                raise Untranslatable(f'parameter {n} of type {self.ptypes[n]}')
            pats.append(f'a{i}_')
            if d is None:
                vals[n] = None
            else:
                if not isinstance(d, ast.Constant):
                    raise Untranslatable(f'default of {n}')
                vals[n] = self.stored_const(d).term
        required = [f'a{i}_' for i, (n, _) in enumerate(named) if vals[n] is None]
        call_args = []
        for n, kd, _ in sig:
            if kd in ('pos', 'kwonly'):
                i = [m for m, _ in named].index(n)
                call_args.append(f'r{i}_' if vals[n] is None else f'(a{i}_.getD {vals[n]})')
            elif kd == 'vararg':
                call_args.append('extra_')
            else:
                call_args.append('rest_')
        inner = f'{target} P self_ ' + ' '.join(call_args)
        # required parameters: a missing one is a TypeError
        for i, (n, _) in reversed(list(enumerate(named))):
            if vals[n] is None:
                inner = f'(match a{i}_ with\n| Option.none => M.raise "TypeError"\n| some r{i}_ =>\n{indent(inner)})'
        names = lambda l: '[' + ', '.join(lean_str(n) for n, _ in l) + ']'
        return (f'def {lean_name} {PARAMS} (self_ : O) (args_ : List (Arg O)) (kwargs_ : Kw (Arg O)) : M σ Unit :=\n'
                f'  match bindArgs {names(pos)} {names(kwonly)} {"true" if var else "false"} {"true" if kwa else "false"} args_ kwargs_ with\n'
                f'  | some ([{", ".join(pats)}], extra_, rest_) =>\n{indent(inner, 2)}\n'
                f'  | _ => M.raise "TypeError"')


EXC_SEEN = set()
DONE = set()


# ------------------------------------------------------------------------------------------ targets

def targets():
    from edzed import block, simulator
    import asyncio
    import logging
    B, S = block, simulator
    out = []

    def is_fn(expected):
        return lambda fn, node: fn.resolve(node.func) is expected

    def add(name, doc, make, extra=None):
        out.append((name, doc, make, extra))

    add('checkName', 'block.check_name',
        lambda: Fn(B.check_name, {'name': 'arg', 'nametype': 'str'}, 'unit', self_name=None))
    add('circuitInit', 'simulator.Circuit.__init__',
        lambda: Fn(S.Circuit.__init__, {}, 'unit', leaves={
            '_BlockResolver(self._validate_blk)': ('pure', 'P.newResolver self_', 'ext'),
            'self._resolver.register': ('pure', 'P.boundRegister self_', 'ext')},
            checks=[('_BlockResolver is not simulator._BlockResolver',
                     lambda: S.Circuit.__init__.__globals__.get('_BlockResolver') is S._BlockResolver
                     and inspect.isfunction(S._BlockResolver.__dict__.get('register'))
                     and inspect.isfunction(S.Circuit.__dict__.get('_validate_blk')))]),
        'circuitCall')
    add('getCircuit', 'simulator.get_circuit', lambda: GlobalFn(S.get_circuit, 'optobj'))
    add('resetCircuit', 'simulator.reset_circuit', lambda: GlobalFn(S.reset_circuit, 'unit'))
    add('isCurrentTask', 'simulator.Circuit.is_current_task',
        lambda: Fn(S.Circuit.is_current_task, {}, 'bool', leaves={
            'self._simtask': ('s', 'P.simtask s_ self_', 'opttask'),
            'asyncio.current_task()': ('m', 'P.currentTask', 'opttask')},
            checks=[('asyncio is not the asyncio module',
                     lambda: S.Circuit.is_current_task.__globals__.get('asyncio') is asyncio)]))
    add('hasMethod', 'block.Block.has_method',
        lambda: Fn(B.Block.has_method, {'method': 'str'}, 'bool', leaves=dummy_leaves(B)))
    add('blockInit', 'block.Block.__init__',
        lambda: Fn(B.Block.__init__, {'name': 'arg', 'comment': 'arg', 'on_output': 'arg', '_reserved': 'arg',
                                      'debug': 'arg', '**': 'kw'}, 'unit',
                   leaves={'self.circuit.getblocks(type(self))': ('s', 'P.selfTypeBlocks s_ self_', 'list:obj')},
                   stmts={'self.circuit.addblock(self)': 'P.addSelf self_'},
                   callees={'simulator.get_circuit': ('getCircuit P', [], 'optobj', is_fn(S.get_circuit)),
                            'check_name': ('checkName P', ['arg', 'str'], 'unit', is_fn(B.check_name)),
                            'event_tuple': ('P.eventTuple', ['arg'], 'ext', is_fn(B.event_tuple))},
                   checks=[('simulator / Circuit.getblocks / Circuit.addblock do not resolve',
                            lambda: B.Block.__init__.__globals__.get('simulator') is S
                            and inspect.isfunction(S.Circuit.__dict__.get('getblocks'))
                            and inspect.isfunction(S.Circuit.__dict__.get('addblock')))]),
        'blockInitCall')
    add('sblockInit', 'block.SBlock.__init__',
        lambda: Fn(B.SBlock.__init__, {'*': 'args', 'on_every_output': 'arg', '**': 'kw'}, 'unit',
                   callees={'self.has_method': ('hasMethod P self_', ['str'], 'bool',
                                                lambda fn, node: B.SBlock.has_method is B.Block.has_method),
                            'event_tuple': ('P.eventTuple', ['arg'], 'ext', is_fn(B.event_tuple))},
                   super_init=('blockInitCall', lambda: B.SBlock.__mro__[1] is B.Block)),
        'sblockInitCall')
    add('cblockInit', 'block.CBlock.__init__',
        lambda: Fn(B.CBlock.__init__, {'*': 'args', '**': 'kw'}, 'unit',
                   leaves={'self.InputGetter(self)': ('pure', 'P.newInputGetter self_', 'ext')},
                   checks=[('CBlock.InputGetter is not a class', lambda: isinstance(B.CBlock.__dict__.get('InputGetter'), type))],
                   super_init=('blockInitCall', lambda: B.CBlock.__mro__[1] is B.Block)),
        'cblockInitCall')
    add('extInit', 'block.ExtEvent.__init__',
        lambda: Fn(B.ExtEvent.__init__, {'dest': 'arg', 'etype': 'arg', 'source': 'arg'}, 'unit',
                   callees={'simulator.get_circuit': ('getCircuit P', [], 'optobj', is_fn(S.get_circuit))}),
        'extInitCall')
    add('constNew', 'block.Const.__new__',
        lambda: Fn(B.Const.__new__, {'const': 'arg'}, 'obj', self_name='cls', leaves={
            'cls._instances[const]': None, 'super().__new__(cls)': ('m', 'P.objectNew cls_', 'obj')}))
    add('constInit', 'block.Const.__init__', lambda: Fn(B.Const.__init__, {'const': 'arg'}, 'unit'), 'constCall')
    return out


def dummy_leaves(B):
    out = {}
    for n in ('dummy_method', 'dummy_async_method'):
        f = getattr(B.SBlock, n, None)
        if not inspect.isfunction(f) or f is not B.Block.__dict__.get(n):
            raise Untranslatable(f'SBlock.{n} is not the function defined in Block')
        out[f'SBlock.{n}'] = ('pure', lean_str(f.__qualname__), 'fname')
    return out


class GlobalFn(Fn):
    """a module-level function of simulator.py without parameters, working on the global `_current_circuit`"""

    def __init__(self, pyfn, ret):
        from edzed import simulator
        super().__init__(pyfn, {}, ret, self_name=None, glob={'_current_circuit': ('P.current s_', 'P.setCurrent', 'optobj')},
                         callees={'Circuit': ('circuitCall P', [], 'obj',
                                              lambda fn, node: fn.resolve(node.func) is simulator.Circuit
                                              and type(simulator.Circuit) is type
                                              and simulator.Circuit.__new__ is object.__new__)})

    def signature(self):
        a = self.tree.args
        if a.args or a.vararg or a.kwonlyargs or a.kwarg or a.posonlyargs:
            raise Untranslatable('parameters')
        return []

    def header_env(self):
        return Env(), []


def module_global():
    """the module-level statement that gives `_current_circuit` its first value"""
    from edzed import simulator
    tree = ast.parse(inspect.getsource(simulator))
    found = []
    for st in tree.body:
        tg = None
        if isinstance(st, ast.AnnAssign) and isinstance(st.target, ast.Name):
            tg = st.target.id
        elif isinstance(st, ast.Assign) and len(st.targets) == 1 and isinstance(st.targets[0], ast.Name):
            tg = st.targets[0].id
        if tg == '_current_circuit':
            found.append(st)
    if len(found) != 1 or found[0].value is None:
        raise Untranslatable(f'{len(found)} module-level assignments to _current_circuit')
    v = found[0].value
    if not (isinstance(v, ast.Constant) and v.value is None):
        raise Untranslatable(f'_current_circuit starts as `{ast.unparse(v)}`')
    return ('/-- translated from the module-level statement `' + ast.unparse(found[0]) + '` of simulator.py -/\n'
            'def moduleCurrentCircuit {O : Type} : Option O := none\n')


EXPORTS = {'block.check_name': 'check_name', 'block.Block.__init__': 'Block', 'block.Block.has_method': 'Block',
           'block.SBlock.__init__': 'SBlock', 'block.CBlock.__init__': 'CBlock', 'block.ExtEvent.__init__': 'ExtEvent',
           'block.Const.__new__': 'Const', 'block.Const.__init__': 'Const',
           'simulator.get_circuit': 'get_circuit', 'simulator.reset_circuit': 'reset_circuit'}


def check_exports(doc):
    """what the package exports under the public name is the object whose source is translated"""
    import edzed
    from edzed import block, simulator
    pub = EXPORTS.get(doc)
    if pub is None:
        return
    mod = block if doc.startswith('block.') else simulator
    if getattr(edzed, pub, None) is not getattr(mod, pub, None) or getattr(mod, pub, None) is None:
        raise Untranslatable(f'edzed.{pub} is not {mod.__name__}.{pub}')


def check_const_protocol():
    from edzed import block
    if type(block.Const) is not type:
        raise Untranslatable('Const has a metaclass')
    if '__new__' not in block.Const.__dict__ or '__init__' not in block.Const.__dict__:
        raise Untranslatable('Const.__new__ / __init__ not defined in Const')
    import weakref
    if not isinstance(block.Const.__dict__.get('_instances'), weakref.WeakValueDictionary):
        raise Untranslatable('Const._instances is not a WeakValueDictionary of the class')
    slots = block.Const.__dict__.get('__slots__')
    if not isinstance(slots, tuple) or '_output' not in slots or '__weakref__' not in slots:
        raise Untranslatable('Const.__slots__ lacks _output / __weakref__ (a weak reference to an instance must be possible)')


CIRCUIT_CALL = f'''/-- `Circuit()`: `type.__call__` allocates the object, then runs `__init__` on it -/
def circuitCall {PARAMS} : M σ O :=
  M.bind P.allocCircuit fun o_ =>
  M.bind (circuitInit P o_) fun _ =>
  M.pure o_'''

CONST_CALL = f'''/-- `Const(value)`: `type.__call__` runs `__new__`, then `__init__` on the object it returned
    (always: `__new__` returns an instance of the class -- the registered one or a new one) -/
def constCall {PARAMS} (cls_ : String) (v0 : Arg O) : M σ O :=
  M.bind (constNew P cls_ v0) fun o_ =>
  M.bind (constInit P o_ v0) fun _ =>
  M.pure o_'''


def exc_table():
    """`excBases`: for every exception class that occurs, the names of the classes it derives from (real MRO)"""
    import asyncio
    from edzed import exceptions
    classes = set(EXC_SEEN) | {KeyError, TypeError, ValueError, AttributeError, RuntimeError, KeyboardInterrupt,
                               SystemExit, GeneratorExit, asyncio.CancelledError, exceptions.EdzedCircuitError,
                               exceptions.EdzedInvalidState, exceptions.EdzedUnknownEvent}
    rows = []
    for c in sorted(classes, key=lambda c: c.__name__):
        bases = [b.__name__ for b in c.__mro__ if b is not object]
        rows.append(f'  | {lean_str(c.__name__)} => [{", ".join(lean_str(b) for b in bases)}]')
    return ('/-- the classes an exception class derives from (read from the real classes); any other class is an\n'
            '    ordinary exception -/\ndef excBases : PyExc → List String\n' + '\n'.join(rows)
            + '\n  | e => [e, "Exception", "BaseException"]\n\n'
            '/-- `except <handler>:` catches an exception of class `e` -/\n'
            'def catches (handler : String) (e : PyExc) : Bool := (excBases e).contains handler\n')


def main_blkctor(outfile, write_if_changed):
    EXC_SEEN.clear()
    DONE.clear()
    defs = []
    try:
        defs.append(module_global())
    except Exception as err:
        msg = ' '.join(str(err).split())[:200]
        defs.append(f'-- UNTRANSLATABLE `simulator._current_circuit`: definition `moduleCurrentCircuit` omitted ({msg})\n')
        print(f'UNTRANSLATABLE blkctor moduleCurrentCircuit (simulator._current_circuit): {msg}')
    for name, doc, make, extra in targets():
        try:
            check_exports(doc)
            fn = make()
            fn.doc = doc
            if name == 'constNew':
                # `cls._instances[const]`: the key is a local -- declared structurally
                const_local = 'const'
                fn.leaves = {k: v for k, v in fn.leaves.items() if v is not None}
                orig_expr = fn.expr

                def expr(node, env, _orig=orig_expr, _fn=fn):
                    if isinstance(node, ast.Subscript) and ast.unparse(node.value) == 'cls._instances':
                        k = _orig(node.slice, env)
                        if k.ty != 'arg':
                            raise Untranslatable('key of cls._instances')
                        v = _fn.fresh()
                        return Ex(v, 'obj', k.pre + [('m', v, f'P.instancesGet ({k.term})')])
                    return _orig(node, env)
                fn.expr = expr
                check_const_protocol()
            text = fn.translate(name)
            defs.append(text + '\n')
            DONE.add(name)
            DONE.add(name + ' P')
            DONE.add(name + ' P self_')
            if extra == 'circuitCall':
                defs.append(CIRCUIT_CALL + '\n')
                DONE.add('circuitCall P')
            elif extra == 'constCall':
                if 'constNew' not in DONE:
                    raise Untranslatable('constNew was not translated')
                defs.append(CONST_CALL + '\n')
            elif extra:
                defs.append(f'/-- the call `{doc.rsplit(".", 1)[0]}(*args, **kwargs)` reaching `{doc}`: Python\'s binding of the\n'
                            f'    arguments to the signature, with the defaults of the signature -/\n'
                            + fn.adapter(extra, name) + '\n')
                DONE.add(extra)
        except Exception as err:
            msg = ' '.join(str(err).split())[:200]
            defs.append(f'-- UNTRANSLATABLE `{doc}`: definition `{name}` omitted ({type(err).__name__}: {msg})\n')
            print(f'UNTRANSLATABLE blkctor {name} ({doc}): {msg}')
    L = ['/- GENERATED by tools/py2lean_blkctor.py (via tools/py2lean.py) from the Python source of edzed -- do not edit -/',
         'import EdzedModel.BlkCtorPy', '', 'set_option linter.unusedVariables false', '',
         'namespace Edzed.Gen.TrBC', 'open Edzed.BlkCtorPy', '', exc_table()]
    L += defs
    L += ['end Edzed.Gen.TrBC']
    write_if_changed(outfile, '\n'.join(L) + '\n')
