"""
Translator for property C12: the asynchronous methods of `OutputAsync` (edzed/blocklib/sblocks2.py) and
`utils.shield_cancel` as Lean programs, regenerated from the CURRENT Python AST into
lean/EdzedModel/Gen/TranslatedOutputAsync.lean (called from py2lean.main).

The scheme is the program monad of tools/py2lean_dispatch.py (state + exception + early return, `tryFinally`,
`tryExcept`); this module adds what the `async def`s of C12 need:

  await X            a primitive call like any other: it returns a value, raises (a cancellation delivered at
                     this await is the exception `asyncio.CancelledError`), or -- as interpreted by the property
                     file -- lets (virtual) time pass; only DECLARED awaits are accepted
  while True         one ITERATION function (`…_iterK`: the loop body; `break` / `continue` / falling through
                     become the loop control value returned with the loop-carried variables) plus the fuelled
                     loop `…_loopK` that repeats it
  try/except/else    `tryExceptElse`: the `else` block runs after an exception-free body, outside the handlers
  optional locals    `x = None` / `x = <value>` / `if x is [not] None` / `if x and <test using x>` (narrowing);
                     a local that the code binds only inside a loop is declared and starts as `none`
  for ev in self._on_…   structural recursion over the declared event list

What comes from the AST: order, nesting, conditions, which exception classes are caught, where `break`,
`continue`, `return`, `raise` are, which variable is passed to which call.  Declared below: only the meaning of
the leaves ("this await / call / test is this primitive").  EdzedProps/C12.lean instantiates the primitives
with the operations of the model EdzedModel/OutputAsync.lean.
"""
import ast
import copy

import py2lean_dispatch as D
from py2lean_dispatch import TrProg, names_used, names_assigned, path_or_none

D.LEAN_TY.update({
    'optdata': 'Option δ', 'task': 'θ', 'opttask': 'Option θ', 'event': 'κ', 'val': 'ν', 'optval': 'Option ν',
    'optexc': 'Option ε', 'aw': 'α', 'delta': 'Int', 'queue': 'Unit', 'taskset': 'Unit',
    # constructors / OutputFunc (second generated file)
    'str': 'String', 'argspec': 'α', 'evspec': 'ω', 'evtuple': 'τ', 'guardarg': 'γ', 'optguard': 'Option γ',
    'optsd': 'Option ψ', 'int': 'Int', 'posargs': 'Unit', 'kwargs': 'Unit',
    'xargs': 'A', 'xkwargs': 'K', 'pool': 'π', 'partial': 'φ', 'rie': 'Unit', 'vals': 'List ν', 'kwvals': 'List (String × ν)', 'fval': 'ν', 'fdata': 'δ',
})
OPT = {'optdata': 'data?', 'opttask': 'task', 'optexc': 'exc', 'optval': 'val',      # optional tag -> inner tag
       'optguard': 'guardarg'}
OPT_INNER = {'task': 'opttask', 'exc': 'optexc', 'val': 'optval'}


def tup(vals):
    return '()' if not vals else (vals[0] if len(vals) == 1 else '(' + ', '.join(vals) + ')')


def opt_conjunct(node, env):
    """`x` or `x is not None` for an optional local x -> its name"""
    if isinstance(node, ast.Name):
        name = node.id
    elif (isinstance(node, ast.Compare) and len(node.ops) == 1 and isinstance(node.ops[0], ast.IsNot)
          and isinstance(node.comparators[0], ast.Constant) and node.comparators[0].value is None
          and isinstance(node.left, ast.Name)):
        name = node.left.id
    else:
        return None
    if name in env and env[name][1] in OPT and OPT[env[name][1]] in D.LEAN_TY:
        return name
    return None


class TrOA(TrProg):
    def __init__(self, target):
        super().__init__(target)
        self.loops = []         # stack of (carried variables) of the enclosing `while True` loops
        self.in_await = False

    # ------------------------------------------------------------------ expressions
    def truthy(self, text, ty):
        if ty == 'optdata':
            # a queue item is `None | Mapping`: `bool(None)` is False, `bool(mapping)` is "non-empty" --
            # NOT the same as `item is not None` (an empty mapping is a legal item)
            return f'(match {text} with | none => false | some d_ => {self.P}.dataTruthy d_)'
        if ty in OPT:
            # the other optional locals hold objects that are always true (a Task, an exception, a result
            # that is never tested)
            return f'({text}).isSome'
        if ty == 'xkwargs':
            return f'{self.P}.kwargsNonEmpty {text}'
        if ty == 'taskset':
            self.reads_state = True
            return f'{self.P}.tasksNonEmpty st'
        return super().truthy(text, ty)

    def expr(self, node, env):
        if isinstance(node, ast.Await):
            raise self.U('await inside an expression: ' + ast.unparse(node)[:60])
        # the pair returned by OutputFunc._event_put: (tag, exception | value)
        if (isinstance(node, ast.Tuple) and len(node.elts) == 2 and isinstance(node.elts[0], ast.Constant)
                and isinstance(node.elts[0].value, str) and 'pair' in self.t):
            t, ty = self.expr(node.elts[1], env)
            if ty not in self.t['pair']:
                raise self.U(f'result pair with a value of type {ty}')
            return (f'("{node.elts[0].value}", {self.t["pair"][ty]} {t})', 'retpair')
        # `x and <test using x>` for an optional local x
        if (isinstance(node, ast.BoolOp) and isinstance(node.op, ast.And)
                and opt_conjunct(node.values[0], env) is not None):
            name = opt_conjunct(node.values[0], env)
            inner = OPT[env[name][1]]
            env2 = dict(env)
            env2[name] = (name, inner)
            rest = node.values[1:]
            parts = [self.expr(v, env2) for v in rest]
            body = ' && '.join(self.truthy(t, ty) for t, ty in parts)
            return (f'(match {env[name][0]} with | none => false | some {name} => ({body}))', 'bool')
        return super().expr(node, env)

    def compare(self, node, env):
        ops, rights = node.ops, node.comparators
        if (len(ops) == 1 and isinstance(ops[0], (ast.In, ast.NotIn)) and isinstance(rights[0], (ast.Set, ast.Tuple, ast.List))
                and all(isinstance(e, ast.Constant) and isinstance(e.value, str) for e in rights[0].elts)):
            t, ty = self.expr(node.left, env)
            if ty != 'str':
                raise self.U('membership test on a value of type ' + ty)
            lst = '[' + ', '.join('"' + e.value + '"' for e in rights[0].elts) + ']'
            txt = f'({lst}.contains {t})'
            return (txt if isinstance(ops[0], ast.In) else f'(!{txt})', 'bool')
        if (len(ops) == 1 and isinstance(ops[0], (ast.Is, ast.IsNot))
                and isinstance(rights[0], ast.Constant) and rights[0].value is None):
            t, ty = self.expr(node.left, env)
            if ty in OPT:
                return (f'({t}).isSome' if isinstance(ops[0], ast.IsNot) else f'({t}).isNone', 'bool')
        return super().compare(node, env)

    def call(self, node, env):
        # methods of typed locals that read the state: queue.empty(), task.done()
        f = node.func
        if isinstance(f, ast.Attribute) and not node.args and not node.keywords:
            base = path_or_none(f.value)
            if base in env:
                key = (env[base][1], f.attr)
                if key in self.t.get('state_methods', {}):
                    lean, ty = self.t['state_methods'][key]
                    self.reads_state = True
                    return (lean.format(P=self.P, x=env[base][0]), ty)
        return super().call(node, env)

    def match_args(self, node, pats, env):
        """the patterns of py2lean_dispatch plus: ('kwconst', name, value), ('kwty', name, type),
        ('call', path, patterns) -- a nested call matched structurally --, ('star', type)"""
        out = []
        pos = [p for p in pats if p[0] not in ('kwconst', 'kwty', 'kw', 'starstar', 'anykw')]
        if len(node.args) != len(pos):
            return None
        for p, a in zip(pos, node.args):
            if p[0] == 'self':
                if path_or_none(a) != 'self':
                    return None
            elif p[0] == 'path':
                if path_or_none(a) != p[1]:
                    return None
            elif p[0] == 'ty':
                try:
                    t, ty = self.expr(a, env)
                except D.Ctx.Untranslatable:
                    return None
                if ty != p[1]:
                    return None
                out.append(t)
            elif p[0] == 'strconst':
                if not (isinstance(a, ast.Constant) and isinstance(a.value, str)):
                    return None
                out.append('"' + a.value + '"')
            elif p[0] == 'star':
                if not isinstance(a, ast.Starred):
                    return None
                try:
                    t, ty = self.expr(a.value, env)
                except D.Ctx.Untranslatable:
                    return None
                if ty != p[1]:
                    return None
                out.append(t)
            elif p[0] == 'call':
                if not (isinstance(a, ast.Call) and (path_or_none(a.func) or ast.unparse(a.func)) == p[1]):
                    return None
                sub = self.match_args(a, p[2], env)
                if sub is None:
                    return None
                out.extend(sub)
            else:
                return None
        kws = {k.arg: k.value for k in node.keywords}
        used = set()
        for p in pats:
            if p[0] == 'anykw':
                if p[1] in kws:
                    used.add(p[1])
            elif p[0] == 'kwconst':
                v = kws.get(p[1])
                if not (isinstance(v, ast.Constant) and type(v.value) is type(p[2]) and v.value == p[2]):
                    return None
                used.add(p[1])
            elif p[0] == 'kw':
                v = kws.get(p[1])
                if not (isinstance(v, ast.Constant) and v.value is p[2]):
                    return None
                used.add(p[1])
            elif p[0] == 'kwty':
                v = kws.get(p[1])
                if v is None:
                    return None
                try:
                    t, ty = self.expr(v, env)
                except D.Ctx.Untranslatable:
                    return None
                if ty != p[2]:
                    return None
                out.append(t)
                used.add(p[1])
            elif p[0] == 'starstar':
                v = kws.get(None)
                if v is None:
                    return None
                try:
                    t, ty = self.expr(v, env)
                except D.Ctx.Untranslatable:
                    return None
                if ty != p[1]:
                    return None
                out.append(t)
                used.add(None)
        if set(kws) != used:
            return None
        return out

    # ------------------------------------------------------------------ effects
    def effect(self, node, env):
        if isinstance(node, ast.Await):
            v = node.value
            # await <local> / await <declared path>
            if isinstance(v, (ast.Name, ast.Attribute)):
                p = path_or_none(v)
                if p in env and env[p][1] in self.t.get('await_vars', {}):
                    lean, rty = self.t['await_vars'][env[p][1]]
                    return (lean.format(P=self.P, x=env[p][0]), rty)
                if p in self.t.get('await_paths', {}):
                    lean, rty = self.t['await_paths'][p]
                    return (lean.format(P=self.P), rty)
                raise self.U('await ' + ast.unparse(v)[:60])
            saved = self.t.get('effects', ()), self.t.get('method_effects', ()), self.t.get('var_calls', ())
            self.t['effects'], self.t['method_effects'] = self.t.get('awaits', ()), self.t.get('await_methods', ())
            self.t['var_calls'] = self.t.get('await_var_calls', ())
            try:
                eff = super().effect(v, env)
            finally:
                self.t['effects'], self.t['method_effects'], self.t['var_calls'] = saved
            if eff is None:
                eff = self.by_text(v, env, self.t.get('awaits', ()))
            if eff is None:
                raise self.U('await ' + ast.unparse(v)[:80])
            return eff
        eff = super().effect(node, env)
        if eff is None and isinstance(node, ast.Call):
            eff = self.by_text(node, env, self.t.get('effects', ()))
        return eff

    def by_text(self, node, env, table):
        """a declared call whose function is no plain access path, e.g. `super().stop()`"""
        if not isinstance(node, ast.Call) or path_or_none(node.func) is not None:
            return None
        txt = ast.unparse(node.func)
        for (cp, pats, lean, rty) in table:
            if cp == txt:
                args = self.match_args(node, pats, env)
                if args is not None:
                    return (lean.format(P=self.P, a=args), rty)
        return None

    # ------------------------------------------------------------------ statements
    def ends(self, stmts):
        for s in stmts:
            if isinstance(s, (ast.Break, ast.Continue)):
                return True
            if isinstance(s, ast.If) and s.orelse and self.ends(s.body) and self.ends(s.orelse):
                return True
        return super().ends(stmts)

    def narrowing(self, test, env):
        def opt(name):
            return name in env and env[name][1] in OPT and OPT[env[name][1]] in D.LEAN_TY
        if (isinstance(test, ast.Compare) and len(test.ops) == 1 and isinstance(test.ops[0], (ast.Is, ast.IsNot))
                and isinstance(test.comparators[0], ast.Constant) and test.comparators[0].value is None
                and isinstance(test.left, ast.Name) and opt(test.left.id)):
            return test.left.id, OPT[env[test.left.id][1]], isinstance(test.ops[0], ast.Is)
        if isinstance(test, ast.Name) and opt(test.id):
            return test.id, OPT[env[test.id][1]], False
        return super().narrowing(test, env)

    def join(self, parts, rest, env, live):
        """as in the base class, but a `for` variable that is bound again by a later loop is not carried"""
        rebound = {n.target.id for st in rest for n in ast.walk(st)
                   if isinstance(n, ast.For) and isinstance(n.target, ast.Name)}
        loopvars = {n.target.id for p in parts for st in p for n in ast.walk(st)
                    if isinstance(n, ast.For) and isinstance(n.target, ast.Name)}
        hide = rebound & loopvars
        if not hide:
            return super().join(parts, rest, env, live)

        class Strip(ast.NodeTransformer):
            def visit_For(self, node):
                return ast.copy_location(ast.Pass(), node) if isinstance(node.target, ast.Name) and node.target.id in hide else node
        rest2 = [Strip().visit(copy.deepcopy(st)) for st in rest]
        return super().join(parts, rest2, env, live)

    def effect_free(self, test, env):
        """a translatable test without awaits and effects"""
        if any(isinstance(n, ast.Await) for n in ast.walk(test)):
            return False
        try:
            self.cond(test, env)
        except D.Ctx.Untranslatable:
            return False
        return True

    def comprehension(self, node, env):
        """`tuple(data[k] for k in self._f_args)` / `{k: data[k] for k in self._f_kwargs}`: the items of the event
        data named by a declared list of keys (a missing key raises KeyError)"""
        lists = self.t.get('keylists', {})

        def item(elt, var):
            return (isinstance(elt, ast.Subscript) and isinstance(elt.value, ast.Name) and elt.value.id in env
                    and env[elt.value.id][1] == 'fdata' and isinstance(elt.slice, ast.Name) and elt.slice.id == var)
        if (isinstance(node, ast.Call) and isinstance(node.func, ast.Name) and node.func.id == 'tuple'
                and len(node.args) == 1 and not node.keywords and isinstance(node.args[0], ast.GeneratorExp)):
            g = node.args[0]
            if (len(g.generators) == 1 and not g.generators[0].ifs and isinstance(g.generators[0].target, ast.Name)
                    and path_or_none(g.generators[0].iter) in lists and item(g.elt, g.generators[0].target.id)):
                return (f'getItems {self.P}.getItem {env[g.elt.value.id][0]} {lists[path_or_none(g.generators[0].iter)]}', 'vals')
        if isinstance(node, ast.DictComp):
            g = node
            if (len(g.generators) == 1 and not g.generators[0].ifs and isinstance(g.generators[0].target, ast.Name)
                    and path_or_none(g.generators[0].iter) in lists and isinstance(g.key, ast.Name)
                    and g.key.id == g.generators[0].target.id and item(g.value, g.key.id)):
                return (f'getKwItems {self.P}.getItem {env[g.value.value.id][0]} {lists[path_or_none(g.generators[0].iter)]}', 'kwvals')
        return None

    def only_logging(self, stmts):
        return bool(stmts) and all(isinstance(s, ast.Expr) and self.ignorable_call(s.value) for s in stmts)

    def pure_debug_test(self, test):
        """a test that only decides about logging: `self.debug`, possibly with `(n := self._queue.qsize()) > 0`"""
        for n in ast.walk(test):
            if isinstance(n, ast.Await):
                return False
            if isinstance(n, ast.Call) and path_or_none(n.func) not in self.t.get('debug_calls', ()):
                return False
        return 'self.debug' in ast.unparse(test)

    def block(self, stmts, env, fall, ind, live=()):
        pad = '  ' * ind
        if not stmts:
            return pad + fall(env)
        s, rest = stmts[0], list(stmts[1:])
        if isinstance(s, ast.Pass):
            return self.block(rest, env, fall, ind, live)
        if isinstance(s, ast.Return) and isinstance(s.value, ast.Await):
            eff = self.effect(s.value, env)
            if eff[1] != self.t['ret_type']:
                raise self.U(f'return of a value of type {eff[1]}')
            return f'{pad}M.bind ({eff[0]}) fun r_ =>\n{pad}M.ret r_'
        if (isinstance(s, ast.With) and len(s.items) == 1 and isinstance(s.items[0].optional_vars, ast.Name)
                and ast.unparse(s.items[0].context_expr) in self.t.get('contexts_as', {})):
            enter, exit_, cty = self.t['contexts_as'][ast.unparse(s.items[0].context_expr)]
            name = s.items[0].optional_vars.id
            env2 = dict(env)
            env2[name] = (name, cty)
            if rest:
                raise self.U('statements after a `with … as` block')
            body = self.block(list(s.body), env2, fall, ind + 2, live)
            return (f'{pad}M.bind ({enter.format(P=self.P)}) fun {name} =>\n{pad}M.tryFinally (\n{body}\n{pad}) '
                    f'({exit_.format(P=self.P, x=name)})')
        if isinstance(s, ast.If) and not s.orelse and self.only_logging(s.body) and self.pure_debug_test(s.test):
            return self.block(rest, env, fall, ind, live)
        if isinstance(s, ast.AnnAssign) and s.value is None:
            return self.block(rest, env, fall, ind, live)       # a bare annotation
        if isinstance(s, ast.If) and not s.orelse and self.only_logging(s.body) and self.effect_free(s.test, env):
            return self.block(rest, env, fall, ind, live)       # a test that only decides about logging
        if isinstance(s, ast.Assign) and len(s.targets) == 1:
            tp = path_or_none(s.targets[0])
            comp = self.comprehension(s.value, env)
            if comp is not None and isinstance(s.targets[0], ast.Name):
                text, ty = comp
                name = s.targets[0].id
                env2 = dict(env)
                env2[name] = (name, ty)
                return f'{pad}M.bind ({text}) fun {name} =>\n' + self.block(rest, env2, fall, ind, live)
            if tp in self.t.get('setattr', {}):
                lean, want = self.t['setattr'][tp]
                v = s.value
                if isinstance(v, ast.IfExp):
                    # self.x = a if c else b   ==   if c: self.x = a  else: self.x = b
                    st = ast.If(test=v.test, body=[ast.Assign(targets=s.targets, value=v.body)],
                                orelse=[ast.Assign(targets=s.targets, value=v.orelse)])
                    ast.fix_missing_locations(ast.copy_location(st, s))
                    return self.block([st] + rest, env, fall, ind, live)
                eff = self.effect(v, env)
                if eff is not None:
                    if eff[1] != want:
                        raise self.U(f'{tp} = <{eff[1]}>')
                    return (f'{pad}M.bind ({eff[0]}) fun v_ =>\n{pad}M.bind ({lean.format(P=self.P, x="v_")}) fun _ =>\n'
                            + self.block(rest, env, fall, ind, live))
                t, ty = self.expr(v, env)
                if ty != want:
                    raise self.U(f'{tp} = <{ty}>')
                return f'{pad}M.bind ({lean.format(P=self.P, x=t)}) fun _ =>\n' + self.block(rest, env, fall, ind, live)
        if isinstance(s, ast.AnnAssign) and s.value is not None and isinstance(s.target, ast.Name):
            s2 = ast.Assign(targets=[s.target], value=s.value)
            return self.block([ast.copy_location(s2, s)] + rest, env, fall, ind, live)
        if isinstance(s, (ast.Break, ast.Continue)):
            if not self.loops:
                raise self.U('break / continue outside of a translated loop')
            carried = self.loops[-1]
            ctl = 'LoopCtl.brk' if isinstance(s, ast.Break) else 'LoopCtl.next'
            return f'{pad}M.pure ({ctl}, {tup([env[v][0] for v in carried])})'
        if isinstance(s, ast.Assign) and len(s.targets) == 1 and isinstance(s.targets[0], ast.Name):
            name = s.targets[0].id
            decl = self.t.get('locals', {}).get(name)
            # opaque locals: values that only feed a declared call (`args`, `kwargs`)
            if ast.unparse(s.value) in self.t.get('opaque', {}):
                env2 = dict(env)
                env2[name] = ('()', self.t['opaque'][ast.unparse(s.value)])
                return self.block(rest, env2, fall, ind, live)
            if decl is not None and decl in OPT:
                env2 = dict(env)
                if isinstance(s.value, ast.Constant) and s.value.value is None:
                    env2[name] = ('none', decl)
                    return self.block(rest, env2, fall, ind, live)
                eff = self.effect(s.value, env)
                if eff is not None:
                    text, ty = eff
                    if ty == decl:
                        env2[name] = (name, decl)
                        return f'{pad}M.bind ({text}) fun {name} =>\n' + self.block(rest, env2, fall, ind, live)
                    if OPT_INNER.get(ty) == decl:
                        env2[name] = (f'(some {name}_)', decl)
                        return f'{pad}M.bind ({text}) fun {name}_ =>\n' + self.block(rest, env2, fall, ind, live)
                    raise self.U(f'{name}: {decl} = <{ty}>')
                t, ty = self.expr(s.value, env)
                if ty == decl:
                    env2[name] = (t, decl)
                elif OPT_INNER.get(ty) == decl:
                    env2[name] = (f'(some {t})', decl)
                else:
                    raise self.U(f'{name}: {decl} = <{ty}>')
                return self.block(rest, env2, fall, ind, live)
        return super().block(stmts, env, fall, ind, live)

    def if_(self, s, rest, env, fall, ind, live):
        # `if x and <test>:` for an optional local x  ==  if x is not None: (if <test>: body else: E) else: E
        t = s.test
        if (isinstance(t, ast.BoolOp) and isinstance(t.op, ast.And) and opt_conjunct(t.values[0], env) is not None):
            x = ast.Name(id=opt_conjunct(t.values[0], env), ctx=ast.Load())
            rest_test = t.values[1] if len(t.values) == 2 else ast.BoolOp(op=ast.And(), values=t.values[1:])
            inner = ast.If(test=rest_test, body=s.body, orelse=copy.deepcopy(s.orelse))
            outer = ast.If(test=ast.Compare(left=x, ops=[ast.IsNot()], comparators=[ast.Constant(value=None)]),
                           body=[inner], orelse=copy.deepcopy(s.orelse))
            ast.fix_missing_locations(ast.copy_location(outer, s))
            return super().if_(outer, rest, env, fall, ind, live)
        return super().if_(s, rest, env, fall, ind, live)

    def while_(self, s, rest, env, fall, ind, live):
        if not (isinstance(s.test, ast.Constant) and s.test.value is True):
            return self.while_cond(s, rest, env, fall, ind, live)
        if s.orelse:
            raise self.U('while ... else')
        return self.loop(s, None, rest, env, fall, ind, live)

    def while_cond(self, s, rest, env, fall, ind, live):
        """`while <test>: body`  ==  `while True: if not <test>: break; body`"""
        if s.orelse:
            raise self.U('while ... else')
        return self.loop(s, s.test, rest, env, fall, ind, live)

    def loop(self, s, test, rest, env, fall, ind, live):
        pad = '  ' * ind
        body = list(s.body)
        assigned = names_assigned(body)
        need = (names_used(rest) | set(live) | {v for v in names_used(body) if v in env}
                | (names_used([ast.Expr(test)]) if test is not None else set()))
        carried = [v for v in assigned if v in need]
        for v in carried:
            if v not in env:
                raise self.U(f'loop variable {v} unbound before the loop (declare it in `locals`)')
        free = self.free_params(([test] if test is not None else []) + body, env, carried)
        self.nloops += 1
        self.needs_fuel = True
        k = self.nloops
        iname, lname = f"{self.t['name']}_iter{k}", f"{self.t['name']}_loop{k}"
        env_l = {v: (v, env[v][1]) for v in free + carried}
        cty = ' × '.join(D.LEAN_TY[env[v][1]] for v in carried) or 'Unit'
        self.loops.append(carried)
        try:
            inner = self.block(body, env_l, lambda e: f'M.pure (LoopCtl.next, {tup([e[v][0] for v in carried])})',
                               2 if test is None else 3, set(carried))
        finally:
            self.loops.pop()
        if test is not None:
            c, reads = self.cond(test, env_l)
            inner = f'    if {c} then\n{inner}\n    else\n      M.pure (LoopCtl.brk, {tup(carried)})'
            inner = self.with_state(reads, inner, '    ')
        params = ' '.join(f'({v} : {D.LEAN_TY[env[v][1]]})' for v in free + carried)
        head = f"{self.t['tyvars']} ({self.P} : {self.t['prims']})" + self.extra_sig()
        what = 'True' if test is None else ast.unparse(test)
        self.aux.append(
            f"/- ONE ITERATION of the `while {what}` loop of `{self.t['doc']}`: the loop control "
            f"(`brk` = the loop was left) and the loop-carried variables ({', '.join(carried) or 'none'}) -/\n"
            f"def {iname} {head} (fuel : Nat) {params} : M σ ε {self.t['ret_lean']} (LoopCtl × ({cty})) :=\n{inner}")
        args = ' '.join(free)
        pats = ', '.join(carried) if carried else ''
        lsig = ' → '.join(D.LEAN_TY[env[v][1]] for v in carried)
        self.aux.append(
            f"/- the loop: the iteration is repeated until it says `brk` (fuel = iterations still allowed) -/\n"
            f"def {lname} {head} " + ' '.join(f'({v} : {D.LEAN_TY[env[v][1]]})' for v in free)
            + f" : Nat → {lsig + ' → ' if carried else ''}M σ ε {self.t['ret_lean']} ({cty})\n"
            f"  | 0{', ' + ', '.join('_' for _ in carried) if carried else ''} => M.diverge\n"
            f"  | fuel + 1{', ' + pats if carried else ''} =>\n"
            f"    M.bind ({iname} {self.P}{self.extra_args()} fuel {args} {' '.join(carried)}) fun r =>\n"
            f"      match r with\n"
            f"      | (LoopCtl.next, {tup(carried) if carried else '_'}) => {lname} {self.P}{self.extra_args()} {args} fuel {' '.join(carried)}\n"
            f"      | (LoopCtl.brk, {tup(carried) if carried else '_'}) => M.pure {tup(carried)}")
        binder = 'fun (_ : Unit) =>' if not carried else ('fun ' + carried[0] + ' =>' if len(carried) == 1
                                                           else 'fun (' + ', '.join(carried) + ') =>')
        call = (f"{lname} {self.P}{self.extra_args()} " + ' '.join(env[v][0] for v in free) + (' ' if free else '')
                + 'fuel ' + ' '.join(env[v][0] if ' ' not in env[v][0] or env[v][0].startswith('(') else f'({env[v][0]})'
                                     for v in carried))
        env3 = dict(env)
        for v in carried:
            env3[v] = (v, env[v][1])
        return f'{pad}M.bind ({call}) {binder}\n' + self.block(rest, env3, fall, ind, live)

    def extra_sig(self):
        return ''.join(f' ({n} : {ty})' for n, ty in self.t.get('extra_params', []))

    def extra_args(self):
        return ''.join(f' {n}' for n, _ in self.t.get('extra_params', []))

    def for_(self, s, rest, env, fall, ind, live):
        """for ev in <declared event list>: <statements without loop-carried variables>"""
        pad = '  ' * ind
        it = path_or_none(s.iter)
        if s.orelse or not isinstance(s.target, ast.Name) or it not in self.t.get('lists', {}):
            raise self.U('for loop ' + ast.unparse(s)[:60])
        var = s.target.id
        lname_, ety = self.t['lists'][it]
        body = list(s.body)
        if [v for v in names_assigned(body) if v != var]:
            raise self.U('assignment inside `for ' + var + ' in ' + it + '`')
        free = self.free_params(body, env, [var])
        self.nloops += 1
        fname = f"{self.t['name']}_for{self.nloops}"
        env_l = {v: (v, env[v][1]) for v in free}
        env_l[var] = (var, ety)
        call_rest = f"{fname} {self.P}{self.extra_args()} " + ' '.join(free) + (' ' if free else '') + 'rest_'
        inner = self.block(body, env_l, lambda e: call_rest, 2, ())
        head = f"{self.t['tyvars']} ({self.P} : {self.t['prims']})" + self.extra_sig()
        self.aux.append(
            f"/- the `for {var} in {it}` loop of `{self.t['doc']}` -/\n"
            f"def {fname} {head} " + ' '.join(f'({v} : {D.LEAN_TY[env[v][1]]})' for v in free)
            + f" : List {D.LEAN_TY[ety]} → M σ ε {self.t['ret_lean']} Unit\n"
            f"  | [] => M.pure ()\n  | {var} :: rest_ =>\n{inner}")
        call = f"{fname} {self.P}{self.extra_args()} " + ' '.join(env[v][0] for v in free) + (' ' if free else '') + lname_
        return f'{pad}M.bind ({call}) fun (_ : Unit) =>\n' + self.block(rest, env, fall, ind, live)

    def try_(self, s, rest, env, fall, ind, live):
        if not s.orelse:
            return super().try_(s, rest, env, fall, ind, live)
        if s.finalbody:
            raise self.U('try ... else ... finally')
        P = self.P
        pad = '  ' * ind
        orelse = list(s.orelse)
        lv = set(live) | names_used(rest)
        # what the body hands over to the `else` block
        J1 = [v for v in names_assigned(list(s.body)) if v in (names_used(orelse) | names_used(rest) | set(live))]

        def body_fall(env2):
            return 'M.pure ' + tup([env2[v][0] for v in J1])
        # what the `else` block and the handlers hand over to the rest
        parts = [orelse] + [list(h.body) for h in s.handlers]
        if rest:
            J, jfall, after, binder = self.join(parts + [list(s.body)], rest, env, live)
        else:
            # nothing follows the statement: its branches end the enclosing block themselves (a `break` in
            # a branch leaves the loop directly)
            jfall = fall
        body = self.block(list(s.body), env, body_fall, ind + 2, lv | names_used(orelse))
        env_e = dict(env)
        for v in J1:
            # the type a body-bound variable has after the body: found by translating the body's binding
            env_e[v] = (v, self.body_type(s.body, v, env))
        els = self.block(orelse, env_e, jfall, ind + 3, lv)
        arms = ''
        ip = '  ' * (ind + 2)
        for h in s.handlers:
            cls = ast.unparse(h.type) if h.type is not None else 'BaseException'
            if cls not in self.t.get('catchable', ()):
                raise self.U(f'except {cls}')
            envh = dict(env)
            envh['$exc'] = ('exc_', 'exc')
            if h.name:
                envh[h.name] = ('exc_', 'exc')
            arms += (f'{ip}if {P}.excIs exc_ "{cls}" then\n' + self.block(list(h.body), envh, jfall, ind + 3, lv)
                     + f'\n{ip}else\n')
        arms += f'{ip}  M.raise exc_'
        b1 = 'fun (_ : Unit) =>' if not J1 else ('fun ' + J1[0] + ' =>' if len(J1) == 1 else 'fun (' + ', '.join(J1) + ') =>')
        txt = (f"{'  ' * (ind + 1)}tryExceptElse (\n{body}\n{'  ' * (ind + 1)}) (fun exc_ =>\n{arms}) ({b1}\n{els})")
        if not rest:
            return txt
        return f'{pad}M.bind (\n{txt}\n{pad}) {binder}\n' + self.block(rest, after(env), fall, ind, live)

    def body_type(self, stmts, var, env):
        for st in stmts:
            for n in ast.walk(st):
                if isinstance(n, ast.Assign) and len(n.targets) == 1 and isinstance(n.targets[0], ast.Name) \
                        and n.targets[0].id == var:
                    decl = self.t.get('locals', {}).get(var)
                    if decl is not None:
                        return decl
                    eff = self.effect(n.value, env)
                    if eff is not None:
                        return eff[1]
                    return self.expr(n.value, env)[1]
        raise self.U(f'type of {var}')

    def function(self, fn):
        env = {}
        for name, ty in self.t['args']:
            env[name] = (name, ty)
        for name, ty in self.t.get('locals', {}).items():
            if name in self.t.get('prebound', ()):
                env[name] = ('none', ty)
        body = self.block(list(fn.body), env, lambda e: 'M.pure ()', 1)
        params = ' '.join(f'({n} : {D.LEAN_TY.get(ty, ty)})' for n, ty in self.t['args'])
        fuel = '(fuel : Nat) ' if self.needs_fuel else ''
        sig = (f"def {self.t['name']} {self.t['tyvars']} ({self.P} : {self.t['prims']}){self.extra_sig()} {fuel}{params} : "
               f"M σ ε {self.t['ret_lean']} Unit :=")
        return '\n\n'.join(self.aux + [sig + '\n' + body])


HEADER = r'''/- GENERATED by tools/py2lean.py (tools/py2lean_oasync.py) from the Python source of edzed
   (blocklib.sblocks2.OutputAsync, utils.shield_cancel) -- do not edit -/
import EdzedModel.Gen.TranslatedDispatch

set_option linter.unusedVariables false

namespace Edzed.Gen.TrOA
open Edzed.Gen.TrD

/-- how one iteration of a `while True` loop ends: `next` = go on with the next iteration (the body fell
    through or said `continue`), `brk` = `break` -/
inductive LoopCtl where
  | next | brk
  deriving DecidableEq, Repr

/-- `try: body  except …: handler  else: els` -- `els` runs after an exception-free body and is NOT
    protected by the handlers -/
def tryExceptElse {σ ε ρ α β : Type} (body : M σ ε ρ α) (handler : ε → M σ ε ρ β) (els : α → M σ ε ρ β) :
    M σ ε ρ β := fun s =>
  match body s with
  | (s1, .next a) => els a s1
  | (s1, .raise e) => handler e s1
  | (s1, .ret r) => (s1, .ret r)
  | (s1, .diverged) => (s1, .diverged)

/-- the leaves of the control tasks `_ctrl_cancel`, `_ctrl_wait`, `_ctrl_start`.
    σ state, ε exceptions, δ put data (`Option δ`: what comes out of the queue, `none` = the stop sentinel),
    θ output tasks, κ events -/
structure CtrlPrims (σ ε δ θ κ : Type) where
  queueGet : M σ ε Unit (Option δ)            -- `await queue.get()`
  queueEmpty : σ → Bool                       -- `queue.empty()`
  queueGetNowait : M σ ε Unit (Option δ)      -- `queue.get_nowait()`
  taskDone : θ → σ → Bool                     -- `task.done()`
  taskCancel : θ → M σ ε Unit Unit            -- `task.cancel()`
  awaitTask : θ → M σ ε Unit Unit             -- `await task`
  createTask : Option δ → M σ ε Unit θ        -- `asyncio.create_task(self._output_coro_wrapper(data))`
  sendCancel : κ → Option δ → M σ ε Unit Unit -- `ev.send(self, trigger='cancel', put=data)`
  runWrapper : Option δ → M σ ε Unit Unit     -- `await self._output_coro_wrapper(data)`
  spawn : Option δ → M σ ε Unit Unit          -- `tasks.add(asyncio.create_task(self._output_coro_wrapper(data)))`
  tasksNonEmpty : σ → Bool                    -- `bool(tasks)` (a WeakSet of the created tasks)
  dataTruthy : δ → Bool                       -- `bool(data)` of event data (a mapping): non-empty
  gatherTasks : M σ ε Unit Unit               -- `await asyncio.gather(*tasks, return_exceptions=True)`

/-- the leaves of `_output_coro` / `_output_coro_wrapper`; ν what the user's coroutine returns -/
structure RunPrims (σ ε δ ν κ : Type) where
  awaitCoro : δ → M σ ε Unit ν                -- `await self._coro(*args, **kwargs)` (args/kwargs taken from data)
  excIs : ε → String → Bool                   -- is the exception caught by `except Class`
  guardPositive : Bool                        -- `self._guard_time > 0.0`
  shieldedGuardSleep : M σ ε Unit Unit        -- `await utils.shield_cancel(asyncio.sleep(self._guard_time))`
  sendCancel : κ → δ → M σ ε Unit Unit        -- `ev.send(self, trigger='cancel', put=data)`
  sendError : κ → ε → δ → M σ ε Unit Unit     -- `ev.send(self, trigger='error', error=err, put=data)`
  sendSuccess : κ → ν → δ → M σ ε Unit Unit   -- `ev.send(self, trigger='success', value=retval, put=data)`
  addOutput : Int → M σ ε Unit Unit           -- `self.set_output(self.output + d)`
  runCoro : δ → M σ ε Unit Unit               -- `await self._output_coro(data)`

/-- the leaves of `_event_put`, `stop`, `stop_async` -/
structure StopPrims (σ ε δ : Type) where
  putNowait : Option δ → M σ ε Unit Unit      -- `self._queue.put_nowait(x)`
  hasStopData : Bool                          -- `self._stop_data is not None`
  ctrlIsStart : Bool                          -- `self._ctrl_coro == self._ctrl_start`
  eventPutStopData : M σ ε Unit Unit          -- `self._event_put(**self._stop_data)`
  superStop : M σ ε Unit Unit                 -- `super().stop()`
  awaitCtrlTask : M σ ε Unit Unit             -- `await self._ctrl_task`
  excIs : ε → String → Bool
  runWrapperStopData : M σ ε Unit Unit        -- `await self._output_coro_wrapper(self._stop_data)`
  superStopAsync : M σ ε Unit Unit            -- `await super().stop_async()`

/-- the leaves of `utils.shield_cancel`; α awaitables, θ tasks, ν results -/
structure ShieldPrims (σ ε α θ ν : Type) where
  ensureFuture : α → M σ ε (Option ν) θ       -- `asyncio.ensure_future(aw)`
  awaitShield : θ → M σ ε (Option ν) ν        -- `await asyncio.shield(task)`
  taskDone : θ → σ → Bool                     -- `task.done()`
  excIs : ε → String → Bool

'''

EVENT_SEND = {
    'cancel': ('event', 'send', [('self',), ('kwconst', 'trigger', 'cancel'), ('kwty', 'put', '{data}')],
               '{P}.sendCancel {x} {a[0]}', 'unit'),
    'error': ('event', 'send', [('self',), ('kwconst', 'trigger', 'error'), ('kwty', 'error', 'exc'), ('kwty', 'put', '{data}')],
              '{P}.sendError {x} {a[0]} {a[1]}', 'unit'),
    'success': ('event', 'send', [('self',), ('kwconst', 'trigger', 'success'), ('kwty', 'value', 'val'), ('kwty', 'put', '{data}')],
                '{P}.sendSuccess {x} {a[0]} {a[1]}', 'unit'),
}


def sends(kinds, data_ty):
    out = []
    for k in kinds:
        vty, meth, pats, lean, rty = EVENT_SEND[k]
        pats = [tuple(data_ty if x == '{data}' else x for x in p) for p in pats]
        out.append((vty, meth, pats, lean, rty))
    return out


WRAPPER_CALL = ('call', 'self._output_coro_wrapper', [('ty', 'optdata')])


def ctrl_target(api, name, method):
    cls = api['sblocks2'].OutputAsync
    return dict(
        name=name, doc=f'blocklib.sblocks2.OutputAsync.{method}', node=lambda: api['fn_ast'](getattr(cls, method)),
        P='P', prims='CtrlPrims σ ε δ θ κ', tyvars='{σ ε δ θ κ : Type}', ret_lean='Unit', ret_type='unit',
        args=[], extra_params=[('onCancel', 'List κ')],
        locals={'task': 'opttask', 'data': 'optdata', 'new_data': 'optdata'}, prebound=('data',),
        ignore=('self.log_*', '_logger.*'), debug_calls=('self._queue.qsize',),
        atoms={'self._queue': ('()', 'queue'), 'weakref.WeakSet()': ('()', 'taskset')},
        lists={'self._on_cancel': ('onCancel', 'event')},
        state_methods={('queue', 'empty'): ('{P}.queueEmpty st', 'bool'), ('task', 'done'): ('{P}.taskDone {x} st', 'bool')},
        state={'tasks': ('P.tasksNonEmpty st', 'bool')},
        method_effects=[('queue', 'get_nowait', [], '{P}.queueGetNowait', 'optdata'),
                        ('task', 'cancel', [], '{P}.taskCancel {x}', 'unit'),
                        ('taskset', 'add', [('call', 'asyncio.create_task', [WRAPPER_CALL])], '{P}.spawn {a[0]}', 'unit')]
        + sends(['cancel'], 'optdata'),
        effects=[('asyncio.create_task', [WRAPPER_CALL], '{P}.createTask {a[0]}', 'task')],
        await_methods=[('queue', 'get', [], '{P}.queueGet', 'optdata')],
        awaits=[('self._queue.get', [], '{P}.queueGet', 'optdata'),
                ('self._output_coro_wrapper', [('ty', 'optdata')], '{P}.runWrapper {a[0]}', 'unit'),
                ('asyncio.gather', [('star', 'taskset'), ('kwconst', 'return_exceptions', True)], '{P}.gatherTasks', 'unit')],
        await_vars={'task': ('{P}.awaitTask {x}', 'unit')},
    )


def run_target(api, name, method):
    cls = api['sblocks2'].OutputAsync
    return dict(
        name=name, doc=f'blocklib.sblocks2.OutputAsync.{method}', node=lambda: api['fn_ast'](getattr(cls, method)),
        P='P', prims='RunPrims σ ε δ ν κ', tyvars='{σ ε δ ν κ : Type}', ret_lean='Unit', ret_type='unit',
        args=[('data', 'data')],
        extra_params=[('onCancel', 'List κ'), ('onError', 'List κ'), ('onSuccess', 'List κ')],
        ignore=('self.log_*', '_logger.*'), debug_calls=(),
        inert_calls=('_args_as_string',),      # the formatter of the log messages (audit of the base scheme)
        opaque={'tuple((data[k] for k in self._f_args))': 'args', '{k: data[k] for k in self._f_kwargs}': 'kwargs'},
        atoms={'self._guard_time > 0.0': ('P.guardPositive', 'bool'), 'asyncio.sleep(self._guard_time)': ('()', 'guardsleep'),
               'self.output + 1': ('(1 : Int)', 'delta'), 'self.output - 1': ('(-1 : Int)', 'delta')},
        lists={'self._on_cancel': ('onCancel', 'event'), 'self._on_error': ('onError', 'event'),
               'self._on_success': ('onSuccess', 'event')},
        catchable=('asyncio.CancelledError', 'Exception'),
        method_effects=sends(['cancel', 'error', 'success'], 'data'),
        effects=[('self.set_output', [('ty', 'delta')], '{P}.addOutput {a[0]}', 'unit')],
        awaits=[('self._coro', [('star', 'args'), ('starstar', 'kwargs')], '{P}.awaitCoro data', 'val'),
                ('utils.shield_cancel', [('ty', 'guardsleep')], '{P}.shieldedGuardSleep', 'unit'),
                ('self._output_coro', [('ty', 'data')], '{P}.runCoro {a[0]}', 'unit')],
    )


def stop_target(api, name, method):
    cls = api['sblocks2'].OutputAsync
    return dict(
        name=name, doc=f'blocklib.sblocks2.OutputAsync.{method}', node=lambda: api['fn_ast'](getattr(cls, method)),
        P='P', prims='StopPrims σ ε δ', tyvars='{σ ε δ : Type}', ret_lean='Unit', ret_type='unit',
        args=[('data', 'data')] if method == '_event_put' else [],
        ignore=('self.log_*', '_logger.*'),
        atoms={'self._stop_data is not None': ('P.hasStopData', 'bool'),
               'self._ctrl_coro != self._ctrl_start': ('(!P.ctrlIsStart)', 'bool'),
               'self._ctrl_coro == self._ctrl_start': ('P.ctrlIsStart', 'bool'),
               'data': ('(some data)', 'optdata'), 'None': ('none', 'optdata')},
        catchable=('asyncio.CancelledError',),
        effects=[('self._queue.put_nowait', [('ty', 'optdata')], '{P}.putNowait {a[0]}', 'unit'),
                 ('self._event_put', [('starstar', 'stopdata')], '{P}.eventPutStopData', 'unit'),
                 ('super().stop', [], '{P}.superStop', 'unit')],
        awaits=[('self._output_coro_wrapper', [('ty', 'stopdata')], '{P}.runWrapperStopData', 'unit'),
                ('super().stop_async', [], '{P}.superStopAsync', 'unit')],
        await_paths={'self._ctrl_task': ('{P}.awaitCtrlTask', 'unit')},
    )


def shield_target(api):
    return dict(
        name='shield_cancel', doc='utils.shield_cancel.shield_cancel',
        node=lambda: api['fn_ast'](api['shield_cancel']),
        P='P', prims='ShieldPrims σ ε α θ ν', tyvars='{σ ε α θ ν : Type}', ret_lean='(Option ν)', ret_type='optval',
        args=[('aw', 'aw')],
        locals={'cancel_exc': 'optexc', 'retval': 'optval'}, prebound=('retval',),
        ignore=(),
        catchable=('asyncio.CancelledError',),
        state_methods={('task', 'done'): ('{P}.taskDone {x} st', 'bool')},
        effects=[('asyncio.ensure_future', [('ty', 'aw')], '{P}.ensureFuture {a[0]}', 'task')],
        awaits=[('asyncio.shield', [('ty', 'task')], '{P}.awaitShield {a[0]}', 'val')],
    )


HEADER2 = r"""/- GENERATED by tools/py2lean.py (tools/py2lean_oasync.py) from the Python source of edzed
   (blocklib.sblocks2: _check_arg, OutputAsync.__init__/start/init_regular, OutputFunc, InExecutor) -- do not edit -/
import EdzedModel.Gen.TranslatedDispatch

set_option linter.unusedVariables false

namespace Edzed.Gen.TrOB
open Edzed.Gen.TrD

/-- which control coroutine `OutputAsync.__init__` selects -/
inductive CtrlKind where
  | cancel | wait | start
  deriving DecidableEq, Repr

/-- `tuple(data[k] for k in keys)`: the items in the order of the keys; a missing key raises at once -/
def getItems {σ ε ρ δ ν : Type} (getItem : δ → String → M σ ε ρ ν) (data : δ) : List String → M σ ε ρ (List ν)
  | [] => M.pure []
  | k :: ks => M.bind (getItem data k) fun v => M.bind (getItems getItem data ks) fun vs => M.pure (v :: vs)

/-- `{k: data[k] for k in keys}` -/
def getKwItems {σ ε ρ δ ν : Type} (getItem : δ → String → M σ ε ρ ν) (data : δ) :
    List String → M σ ε ρ (List (String × ν))
  | [] => M.pure []
  | k :: ks => M.bind (getItem data k) fun v => M.bind (getKwItems getItem data ks) fun vs => M.pure ((k, v) :: vs)

/-- the leaves of `_check_arg` and of the two constructors.  α values passed as f_args / f_kwargs, ω values
    passed as on_success / on_cancel / on_error, τ tuples of events, γ guard_time values, ψ stop_data -/
structure InitPrims (σ ε α ω τ γ ψ : Type) where
  isStr : α → Bool                            -- `isinstance(arg, str)`
  isSequence : α → Bool                       -- `isinstance(arg, Sequence)`
  anyItemNotStr : α → Bool                    -- `any(not isinstance(k, str) for k in arg)`
  mkExc : String → String → ε                 -- `Class(message)`; the declared marker found in the message
  checkArg : String → α → M σ ε Unit Unit     -- `_check_arg(name, arg)`
  eventTuple : ω → M σ ε Unit τ               -- `block.event_tuple(x)`
  timePeriod : γ → M σ ε Unit Int             -- `utils.time_period(guard_time)`
  setOnSuccess : τ → M σ ε Unit Unit          -- `self._on_success = …`
  setOnCancel : τ → M σ ε Unit Unit
  setOnError : τ → M σ ε Unit Unit
  setGuard : Int → M σ ε Unit Unit            -- `self._guard_time = …`
  setCallable : M σ ε Unit Unit               -- `self._coro = coro` / `self._func = func`
  setCtrl : CtrlKind → M σ ε Unit Unit        -- `self._ctrl_coro = self._ctrl_…`
  setFArgs : α → M σ ε Unit Unit              -- `self._f_args = …`
  setFKwargs : α → M σ ε Unit Unit
  setStopData : Option ψ → M σ ε Unit Unit    -- `self._stop_data = stop_data`
  superInit : M σ ε Unit Unit                 -- `super().__init__(*args, **kwargs)` (sets stop_timeout, may raise)
  getGuard : σ → Int                          -- `self._guard_time`
  getStopTimeout : σ → Int                    -- `self.stop_timeout`
  superStart : M σ ε Unit Unit                -- `super().start()`
  newQueue : M σ ε Unit Unit                  -- `self._queue = asyncio.Queue()`
  createCtrlTask : M σ ε Unit Unit            -- `self._ctrl_task = self._create_monitored_task(self._ctrl_coro(), name=…)`
  setOutput : Int → M σ ε Unit Unit           -- `self.set_output(n)`

/-- the leaves of `InExecutor.__call__`; A positional arguments, K keyword arguments, π pools, φ partial objects -/
structure ExecPrims (σ ε ν A K π φ : Type) where
  enterPool : M σ ε ν π                       -- `self._executor().__enter__()`
  exitPool : π → M σ ε ν Unit                 -- `….__exit__(…)` (on every outcome)
  kwargsNonEmpty : K → Bool                   -- `bool(kwargs)`
  mkPartial : A → K → φ                       -- `functools.partial(self._func, *args, **kwargs)`
  runPartial : π → φ → M σ ε ν ν              -- `await run_in_executor(pool, func)`
  runPlain : π → A → M σ ε ν ν                -- `await run_in_executor(pool, self._func, *args)`
  setFunc : M σ ε ν Unit                      -- `self._func = func`
  setExecutor : M σ ε ν Unit                  -- `self._executor = executor`

/-- the leaves of `OutputFunc._event_put / stop / init_regular`; δ event data, ν values, κ events;
    the value of `_event_put` is the pair (tag, exception | result) -/
structure FuncPrims (σ ε δ ν κ : Type) where
  getItem : δ → String → M σ ε (String × (ε ⊕ ν)) ν         -- `data[k]` (KeyError when missing)
  callFunc : List ν → List (String × ν) → M σ ε (String × (ε ⊕ ν)) ν   -- `self._func(*args, **kwargs)`
  excIs : ε → String → Bool
  sendError : κ → ε → M σ ε (String × (ε ⊕ ν)) Unit         -- `ev.send(self, trigger='error', error=err)`
  sendSuccess : κ → ν → M σ ε (String × (ε ⊕ ν)) Unit       -- `ev.send(self, trigger='success', value=result)`
  setOutputBool : Bool → M σ ε (String × (ε ⊕ ν)) Unit      -- `self.set_output(b)`
  hasStopData : Bool                                        -- `self._stop_data is not None`
  eventPutStopData : M σ ε (String × (ε ⊕ ν)) (String × (ε ⊕ ν))   -- `self._event_put(**self._stop_data)`
  superStop : M σ ε (String × (ε ⊕ ν)) Unit                 -- `super().stop()`

"""


def init_target(api, name, obj, doc, args, ret='Unit'):
    return dict(
        name=name, doc=doc, node=lambda: api['fn_ast'](obj),
        P='P', prims='InitPrims σ ε α ω τ γ ψ', tyvars='{σ ε α ω τ γ ψ : Type}', ret_lean='Unit', ret_type='unit',
        args=args,
        ignore=('self.log_*', '_logger.*'),
        exceptions=('ValueError', 'TypeError'),
        message_markers={'should be a sequence': 'not-a-sequence-of-strings', "Argument 'mode'": 'mode',
                         'must not exceed': 'guard-exceeds-stop_timeout'},
        isinstance={('argspec', 'str'): '{P}.isStr {x}', ('argspec', 'Sequence'): '{P}.isSequence {x}'},
        atoms={'any((not isinstance(k, str) for k in arg))': ('P.anyItemNotStr arg', 'bool'),
               '0.0': ('(0 : Int)', 'int'), '0': ('(0 : Int)', 'int'),
               'self._ctrl_cancel': ('CtrlKind.cancel', 'ctrl'), 'self._ctrl_wait': ('CtrlKind.wait', 'ctrl'),
               'self._ctrl_start': ('CtrlKind.start', 'ctrl'),
               'coro': ('()', 'callable'), 'func': ('()', 'callable'), 'asyncio.Queue()': ('()', 'newqueue')},
        state={'self._guard_time': ('P.getGuard st', 'int'), 'self.stop_timeout': ('P.getStopTimeout st', 'int')},
        effects=[('_check_arg', [('strconst',), ('ty', 'argspec')], '{P}.checkArg {a[0]} {a[1]}', 'unit'),
                 ('block.event_tuple', [('ty', 'evspec')], '{P}.eventTuple {a[0]}', 'evtuple'),
                 ('utils.time_period', [('ty', 'guardarg')], '{P}.timePeriod {a[0]}', 'int'),
                 ('super().__init__', [('star', 'posargs'), ('starstar', 'kwargs')], '{P}.superInit', 'unit'),
                 ('super().start', [], '{P}.superStart', 'unit'),
                 ('self.set_output', [('ty', 'int')], '{P}.setOutput {a[0]}', 'unit'),
                 ('self._create_monitored_task', [('call', 'self._ctrl_coro', []), ('anykw', 'name')],
                  '{P}.createCtrlTask', 'ctrltask')],
        setattr={'self._on_success': ('{P}.setOnSuccess {x}', 'evtuple'), 'self._on_cancel': ('{P}.setOnCancel {x}', 'evtuple'),
                 'self._on_error': ('{P}.setOnError {x}', 'evtuple'), 'self._guard_time': ('{P}.setGuard {x}', 'int'),
                 'self._coro': ('{P}.setCallable', 'callable'), 'self._func': ('{P}.setCallable', 'callable'),
                 'self._ctrl_coro': ('{P}.setCtrl {x}', 'ctrl'), 'self._f_args': ('{P}.setFArgs {x}', 'argspec'),
                 'self._f_kwargs': ('{P}.setFKwargs {x}', 'argspec'), 'self._stop_data': ('{P}.setStopData {x}', 'optsd'),
                 'self._queue': ('{P}.newQueue', 'newqueue'), 'self._ctrl_task': ('M.pure ()', 'ctrltask')},
    )


CTOR_ASYNC = [('mode', 'str'), ('f_args', 'argspec'), ('f_kwargs', 'argspec'), ('guard_time', 'optguard'),
              ('on_success', 'evspec'), ('on_cancel', 'evspec'), ('on_error', 'evspec'), ('stop_data', 'optsd'),
              ('args', 'posargs'), ('kwargs', 'kwargs')]
CTOR_FUNC = [('f_args', 'argspec'), ('f_kwargs', 'argspec'), ('on_success', 'evspec'), ('on_error', 'evspec'),
             ('stop_data', 'optsd'), ('args', 'posargs'), ('kwargs', 'kwargs')]


def func_target(api, name, method, args, ret_pair):
    cls = api['sblocks2'].OutputFunc
    return dict(
        name=name, doc=f'blocklib.sblocks2.OutputFunc.{method}', node=lambda: api['fn_ast'](getattr(cls, method)),
        P='P', prims='FuncPrims σ ε δ ν κ', tyvars='{σ ε δ ν κ : Type}', ret_lean='(String × (ε ⊕ ν))',
        ret_type='retpair', args=args,
        extra_params=[('fArgs', 'List String'), ('fKwargs', 'List String'), ('onError', 'List κ'), ('onSuccess', 'List κ')],
        ignore=('self.log_*', '_logger.*'), inert_calls=('_args_as_string',),
        keylists={'self._f_args': 'fArgs', 'self._f_kwargs': 'fKwargs'},
        pair={'exc': 'Sum.inl', 'fval': 'Sum.inr'},
        catchable=('Exception',),
        lists={'self._on_error': ('onError', 'event'), 'self._on_success': ('onSuccess', 'event')},
        atoms={'self._stop_data is not None': ('P.hasStopData', 'bool'), 'self._stop_data': ('()', 'stopdata'),
               },
        method_effects=[('event', 'send', [('self',), ('kwconst', 'trigger', 'error'), ('kwty', 'error', 'exc')],
                         '{P}.sendError {x} {a[0]}', 'unit'),
                        ('event', 'send', [('self',), ('kwconst', 'trigger', 'success'), ('kwty', 'value', 'fval')],
                         '{P}.sendSuccess {x} {a[0]}', 'unit')],
        effects=[('self._func', [('star', 'vals'), ('starstar', 'kwvals')], '{P}.callFunc {a[0]} {a[1]}', 'fval'),
                 ('self.set_output', [('ty', 'bool')], '{P}.setOutputBool {a[0]}', 'unit'),
                 ('self._event_put', [('starstar', 'stopdata')], '{P}.eventPutStopData', 'retpair'),
                 ('super().stop', [], '{P}.superStop', 'unit')],
    )


def exec_target(api, name, method, args):
    cls = api['sblocks2'].InExecutor
    return dict(
        name=name, doc=f'blocklib.sblocks2.InExecutor.{method}', node=lambda: api['fn_ast'](getattr(cls, method)),
        P='P', prims='ExecPrims σ ε ν A K π φ', tyvars='{σ ε ν A K π φ : Type}', ret_lean='ν', ret_type='fval',
        args=args, ignore=(),
        opaque={'asyncio.get_running_loop().run_in_executor': 'rie'},
        atoms={'func': ('()', 'callable'), 'executor': ('()', 'executorcls')} if method == '__init__' else {},
        setattr={'self._func': ('{P}.setFunc', 'callable'), 'self._executor': ('{P}.setExecutor', 'executorcls')},
        contexts_as={'self._executor()': ('{P}.enterPool', '{P}.exitPool {x}', 'pool')},
        calls=[('functools.partial', [('path', 'self._func'), ('star', 'xargs'), ('starstar', 'xkwargs')],
                '{P}.mkPartial {a[0]} {a[1]}', 'partial')],
        await_var_calls=[('rie', [('ty', 'pool'), ('ty', 'partial')], '!{P}.runPartial {a[0]} {a[1]}', 'fval'),
                         ('rie', [('ty', 'pool'), ('path', 'self._func'), ('star', 'xargs')], '!{P}.runPlain {a[0]} {a[1]}', 'fval')],
    )


def signature_defaults(fn):
    """keyword-only parameters of a constructor with the source text of their defaults (`<required>` if none)"""
    a = fn.args
    out = []
    for arg, default in zip(a.kwonlyargs, a.kw_defaults):
        out.append((arg.arg, '<required>' if default is None else ast.unparse(default)))
    return out


def main2(outfile, api):
    sb = api['sblocks2']
    L = [HEADER2.rstrip('\n'), '']

    def translate(t):
        return TrOA(t).function(t['node']())

    def defaults(t):
        rows = signature_defaults(t['node']())
        body = ',\n   '.join('("' + n + '", "' + d.replace('\\', '\\\\').replace('"', '\\"') + '")' for n, d in rows)
        return f"def {t['name']} : List (String × String) :=\n  [{body}]"

    A, F = sb.OutputAsync, sb.OutputFunc
    targets = [
        (init_target(api, 'check_arg', sb._check_arg, 'blocklib.sblocks2._check_arg',
                     [('name', 'str'), ('arg', 'argspec')]), translate),
        (dict(name='oasync_init_defaults', doc='blocklib.sblocks2.OutputAsync.__init__ (signature)',
              node=lambda: api['fn_ast'](A.__init__)), defaults),
        (init_target(api, 'oasync_init', A.__init__, 'blocklib.sblocks2.OutputAsync.__init__', CTOR_ASYNC), translate),
        (init_target(api, 'oasync_start', A.start, 'blocklib.sblocks2.OutputAsync.start', []), translate),
        (init_target(api, 'oasync_init_regular', A.init_regular, 'blocklib.sblocks2.OutputAsync.init_regular', []), translate),
        (dict(name='ofunc_init_defaults', doc='blocklib.sblocks2.OutputFunc.__init__ (signature)',
              node=lambda: api['fn_ast'](F.__init__)), defaults),
        (init_target(api, 'ofunc_init', F.__init__, 'blocklib.sblocks2.OutputFunc.__init__', CTOR_FUNC), translate),
        (func_target(api, 'ofunc_event_put', '_event_put', [('data', 'fdata')], True), translate),
        (func_target(api, 'ofunc_init_regular', 'init_regular', [], False), translate),
        (func_target(api, 'ofunc_stop', 'stop', [], False), translate),
        (exec_target(api, 'inexecutor_init', '__init__', []), translate),
        (exec_target(api, 'inexecutor_call', '__call__', [('args', 'xargs'), ('kwargs', 'xkwargs')]), translate),
    ]
    for t, tr in targets:
        api['emit'](L, t, tr, ': the statements in program order' if tr is translate else ': keyword-only parameters and their defaults')
    L.append('end Edzed.Gen.TrOB')
    api['write_if_changed'](outfile, '\n'.join(L) + '\n')


def main(outfile, api):
    D.Ctx.Untranslatable = api['Untranslatable']
    D.Ctx.node_path = staticmethod(api['node_path'])
    import edzed.blocklib.sblocks2 as sblocks2
    from edzed.utils.shield_cancel import shield_cancel
    api = dict(api, sblocks2=sblocks2, shield_cancel=shield_cancel)
    L = [HEADER.rstrip('\n'), '']

    def translate(t):
        # `stop_data` is an opaque value of its own type
        t.setdefault('atoms', {})
        if t['prims'].startswith('StopPrims'):
            t['atoms']['self._stop_data'] = ('()', 'stopdata')
        return TrOA(t).function(t['node']())

    targets = [
        ctrl_target(api, 'ctrl_cancel', '_ctrl_cancel'),
        ctrl_target(api, 'ctrl_wait', '_ctrl_wait'),
        ctrl_target(api, 'ctrl_start', '_ctrl_start'),
        run_target(api, 'output_coro', '_output_coro'),
        run_target(api, 'output_coro_wrapper', '_output_coro_wrapper'),
        stop_target(api, 'event_put', '_event_put'),
        stop_target(api, 'stop', 'stop'),
        stop_target(api, 'stop_async', 'stop_async'),
        shield_target(api),
    ]
    for t in targets:
        api['emit'](L, t, translate, ': the statements of the method in program order')
    L.append('end Edzed.Gen.TrOA')
    api['write_if_changed'](outfile, '\n'.join(L) + '\n')
    import os
    main2(os.path.join(os.path.dirname(outfile), 'TranslatedOutputBlocks.lean'), api)
