#!/usr/bin/env python3
"""
Source-sensitivity coverage of the GENERATED part of the tie (tools/extract.py + tools/py2lean.py).

For every simple statement of edzed's source (and every `if` / `while` / `elif` test, every `return` value) one
point mutation is applied to a scratch copy of the package:

    simple statement   ->  `pass`
    test of if/while   ->  `not (<test>)`

and both generators are run on the scratch copy into a scratch output directory.  The statement counts as
TIED BY TRANSLATION when the generated Lean text changes (or a generator fails / reports UNTRANSLATABLE): the
theorems are then re-checked against a different model text, so the edit cannot go unnoticed by `lake build`
unless the changed text is provably equivalent.  A statement whose mutation leaves every generated file as it is,
is invisible to the translators: it is tied by the correspondence harness only (or not modelled at all).

This measures the translators, not the proofs: a changed generated file may still satisfy every theorem (then the
edit did not break what the theorems state).  It answers "exactly which parts of the code are regenerated into
the model on every run, and which are modelled by hand".

Usage:  tools/tie_coverage.py [-j N] [--src /repo]      writes /verif/TIE_COVERAGE.md and tie_coverage.json
Scratch: a temporary directory under $TMPDIR (removed at the end); nothing is written under /repo or lean/.
"""
import argparse
import ast
import concurrent.futures as cf
import filecmp
import json
import os
import shutil
import subprocess
import sys
import tempfile

VERIF = os.path.dirname(os.path.dirname(os.path.abspath(__file__)))
PY = '/venv/bin/python' if os.path.exists('/venv/bin/python') else sys.executable
SIMPLE = (ast.Expr, ast.Assign, ast.AugAssign, ast.AnnAssign, ast.Return, ast.Raise, ast.Delete,
          ast.Break, ast.Continue, ast.Assert)


def is_docstring(st):
    return isinstance(st, ast.Expr) and isinstance(st.value, ast.Constant) and isinstance(st.value.value, str)


def points(path, rel):
    """mutation points of one file: dicts(file, func, line, kind, edit=(l0,c0,l1,c1,text))"""
    src = open(path).read()
    tree = ast.parse(src)
    out = []

    def visit(node, qual):
        for child in ast.iter_child_nodes(node):
            q = qual
            if isinstance(child, (ast.FunctionDef, ast.AsyncFunctionDef, ast.ClassDef)):
                q = f'{qual}.{child.name}' if qual else child.name
            if isinstance(child, ast.stmt):
                where = qual or '<module>'
                if isinstance(child, SIMPLE) and not is_docstring(child):
                    if isinstance(child, ast.Expr) and isinstance(child.value, ast.Constant):
                        pass
                    else:
                        out.append(dict(file=rel, func=where, line=child.lineno, kind='stmt',
                                        edit=(child.lineno, child.col_offset, child.end_lineno,
                                              child.end_col_offset, 'pass')))
                if isinstance(child, (ast.If, ast.While)):
                    t = child.test
                    seg = ast.get_source_segment(src, t)
                    out.append(dict(file=rel, func=where, line=t.lineno, kind='test',
                                    edit=(t.lineno, t.col_offset, t.end_lineno, t.end_col_offset,
                                          'not (' + ' '.join(seg.split()) + ')')))
            visit(child, q)
    visit(tree, '')
    return out


def apply_edit(text, edit):
    l0, c0, l1, c1, new = edit
    lines = text.split('\n')
    # ast columns are UTF-8 byte offsets
    first = lines[l0 - 1].encode()
    last = lines[l1 - 1].encode()
    merged = first[:c0].decode() + new + last[c1:].decode()
    return '\n'.join(lines[:l0 - 1] + [merged] + [''] * (l1 - l0) + lines[l1:])


def generate(srcroot, outdir):
    """run both generators; -> (ok, untranslatable names)"""
    os.makedirs(outdir, exist_ok=True)
    env = dict(os.environ, EDZED_SRC=srcroot, PYTHONDONTWRITEBYTECODE='1')
    ok, unt = True, []
    for tool, out in (('extract.py', 'Constants.lean'), ('py2lean.py', 'Translated.lean')):
        try:
            p = subprocess.run([PY, os.path.join(VERIF, 'tools', tool), os.path.join(outdir, out)],
                               capture_output=True, text=True, env=env, timeout=120)
        except subprocess.TimeoutExpired:
            ok = False
            continue
        ok = ok and p.returncode == 0
        unt += [l for l in (p.stdout + p.stderr).split('\n') if l.startswith('UNTRANSLATABLE')]
    return ok, unt


def worker(args):
    wid, scratch, src, base, pts = args
    root = os.path.join(scratch, f'w{wid}')
    shutil.copytree(os.path.join(src, 'edzed'), os.path.join(root, 'edzed'),
                    ignore=shutil.ignore_patterns('__pycache__'))
    out = os.path.join(scratch, f'o{wid}')
    res = []
    for pt in pts:
        target = os.path.join(root, pt['file'])
        orig = open(target).read()
        mutated = apply_edit(orig, pt['edit'])
        try:
            ast.parse(mutated)
        except SyntaxError:
            res.append(dict(pt, result='skipped', changed=[]))
            continue
        with open(target, 'w') as f:
            f.write(mutated)
        shutil.rmtree(out, ignore_errors=True)
        ok, unt = generate(root, out)
        with open(target, 'w') as f:
            f.write(orig)
        if not ok:
            res.append(dict(pt, result='generator-fails', changed=[]))
            continue
        changed = sorted(n for n in os.listdir(base)
                         if not os.path.exists(os.path.join(out, n))
                         or not filecmp.cmp(os.path.join(base, n), os.path.join(out, n), shallow=False))
        res.append(dict(pt, result='changed' if changed else 'unchanged', changed=changed,
                        untranslatable=len(unt)))
    shutil.rmtree(root, ignore_errors=True)
    shutil.rmtree(out, ignore_errors=True)
    return res


def main():
    ap = argparse.ArgumentParser()
    ap.add_argument('-j', type=int, default=os.cpu_count() or 4)
    ap.add_argument('--src', default=os.environ.get('EDZED_SRC', '/repo'))
    ap.add_argument('--only', default='', help='substring of the file names to restrict to')
    a = ap.parse_args()
    scratch = tempfile.mkdtemp(prefix='tiecov')
    try:
        base = os.path.join(scratch, 'base')
        ok, unt = generate(a.src, base)
        if not ok:
            sys.exit('the generators fail on the unchanged source')
        pts = []
        pkg = os.path.join(a.src, 'edzed')
        for d, _, fs in os.walk(pkg):
            for f in sorted(fs):
                if f.endswith('.py') and a.only in f:
                    p = os.path.join(d, f)
                    pts += points(p, os.path.relpath(p, a.src))
        pts = [p for p in pts if not p['file'].endswith('demo.py')]
        chunks = [pts[i::a.j] for i in range(a.j)]
        with cf.ProcessPoolExecutor(a.j) as ex:
            results = [r for rs in ex.map(worker, [(i, scratch, a.src, base, c) for i, c in enumerate(chunks)])
                       for r in rs]
    finally:
        shutil.rmtree(scratch, ignore_errors=True)
    results.sort(key=lambda r: (r['file'], r['line'], r['kind']))
    report(results, a.src)


def report(results, src):
    tied = lambda r: r['result'] in ('changed', 'generator-fails')
    by_file, by_func = {}, {}
    for r in results:
        if r['result'] == 'skipped':
            continue
        by_file.setdefault(r['file'], []).append(r)
        by_func.setdefault((r['file'], r['func']), []).append(r)
    tot = [r for rs in by_file.values() for r in rs]
    head = subprocess.run(['git', '-C', src, 'rev-parse', '--short', 'HEAD'], capture_output=True, text=True).stdout.strip()
    L = ['# Which source statements reach the generated model',
         '',
         'Written by `tools/tie_coverage.py` (see its docstring). One point mutation per simple statement (→ `pass`)',
         'and per `if`/`while` test (→ negated) of the package `edzed` (without `demo.py`); a point is *tied by',
         'translation* when the Lean text generated by `tools/extract.py` + `tools/py2lean.py` changes or a generator',
         'refuses. Everything else reaches the model only through the correspondence harness (hand-written model) or',
         'is not modelled. The numbers describe the translators, not the theorems.',
         '',
         f'Source: {src} at {head}; {len(tot)} mutation points, '
         f'{sum(map(tied, tot))} tied by translation ({100 * sum(map(tied, tot)) // max(1, len(tot))} %).',
         '',
         '| file | points | tied by translation | % |', '|---|---|---|---|']
    for f, rs in sorted(by_file.items()):
        k = sum(map(tied, rs))
        L.append(f'| `{f}` | {len(rs)} | {k} | {100 * k // len(rs)} |')
    L += ['', '## Per function', '',
          '| file | function | points | tied | generated files that change |', '|---|---|---|---|---|']
    for (f, fn), rs in sorted(by_func.items()):
        k = sum(map(tied, rs))
        files = sorted({c.replace('.lean', '') for r in rs for c in r['changed']})
        if any(r['result'] == 'generator-fails' for r in rs):
            files.append('(generator fails)')
        L.append(f'| `{f}` | `{fn}` | {len(rs)} | {k} | {", ".join(files)} |')
    L += ['', '## Statements no generator sees', '',
          'file:line (kind) per function, for the functions that are partly tied (the untied rest of a tied function',
          'is usually logging, an assertion, or an operation declared a primitive):', '']
    for (f, fn), rs in sorted(by_func.items()):
        k = sum(map(tied, rs))
        if 0 < k < len(rs):
            miss = ', '.join(f"{r['line']}{'?' if r['kind'] == 'test' else ''}" for r in rs if not tied(r))
            L.append(f'- `{f}` `{fn}`: {miss}')
    with open(os.path.join(VERIF, 'TIE_COVERAGE.md'), 'w') as fh:
        fh.write('\n'.join(L) + '\n')
    with open(os.path.join(VERIF, 'tie_coverage.json'), 'w') as fh:
        json.dump(dict(source_head=head, points=[{k: v for k, v in r.items() if k != 'edit'} for r in results]),
                  fh, indent=0)
    print(L[8])


if __name__ == '__main__':
    main()
