#!/usr/bin/env python3
"""Regenerate MANIFEST.json from tools/manifest_src.json (claimed checks + not_applicable)."""
import json, os
here = os.path.dirname(os.path.abspath(__file__))
root = os.path.dirname(here)
src = json.load(open(os.path.join(here, 'manifest_src.json')))
# one fragment per claimed property: tools/manifest.d/<ID>.json  {"text": ..., "note": ..., "technique"?: ...}
src['checks'] = {}
for fn in sorted(os.listdir(os.path.join(here, 'manifest.d'))):
    if fn.endswith('.json'):
        src['checks'][fn[:-5]] = json.load(open(os.path.join(here, 'manifest.d', fn)))
ids = [json.loads(l)['id'] for l in open(os.path.join(root, 'properties.jsonl'))]
checks = []
for pid in ids:
    c = src['checks'].get(pid)
    if not c:
        continue
    checks.append({
        'property_id': pid,
        'quick_cmd': f'./check {pid} --tier quick',
        'thorough_cmd': f'./check {pid} --tier thorough',
        'evidence_file': f'evidence/{pid}.json',
        'replay_cmd_template': f'./check {pid} --replay {{path}}',
        'engine': 'lean4-models+correspondence',
        'level_claimed': {'category': 'proof', 'text': c['text'], 'design_ref': c.get('design_ref', f'DESIGN.md 3 ({pid})')},
        'level_note': c['note'],
        'technique': c.get('technique', 'Lean 4 theorems over an executable model + differential correspondence with the implementation'),
    })
na = [{'property_id': pid, 'reason': src['not_applicable'].get(pid, 'check not built yet (work in progress, see DESIGN.md 8)')}
      for pid in ids if pid not in src['checks']]
m = {
    'version': 1,
    'setup_cmd': 'cd lean && lake build',
    'hooks': {
        'guard': 'EDZED_VERIF',
        'enable': 'no source hooks: the harness monkeypatches clock modules in its own process (harness/vtime.py)',
        'baseline_off_cmd': 'cd /repo && /venv/bin/python -m pytest -ra -q -p no:cacheprovider --timeout=900 --continue-on-collection-errors',
        'source_commits': [],
        'add_only': True,
    },
    'engines': [{
        'name': 'lean4-models+correspondence', 'path': 'lean/ harness/ tools/extract.py check',
        'serves_properties': [c['property_id'] for c in checks],
        'kind_free_text': 'Lean 4 models and theorems (lake project lean/), generated constants from the source (tools/extract.py), line-protocol driver (lean_exe edzed_model), Python correspondence harness on a virtual-time asyncio loop with independent oracles',
    }],
    'checks': checks,
    'notes': src.get('notes', ''),
    'not_applicable': na,
}
json.dump(m, open(os.path.join(root, 'MANIFEST.json'), 'w'), indent=1)
print('checks:', len(checks), 'not_applicable:', len(na))
