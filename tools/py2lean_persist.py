"""
Translator module for the persistence code paths of C06 (called from tools/py2lean.py: main()).

Regenerates lean/EdzedModel/Gen/TranslatedPersist2.lean from the CURRENT source of

  (a) addons.AddonPersistence.event                  -> eventActs   : the primitive actions in program order
  (b) addons.AddonPersistence.save_persistent_state  -> saveActs      under the conditions of the AST
  (d) the `if started_blocks:` block of the async
      function simulator.Circuit.run_forever         -> stopActs
  (c) simulator.Circuit._check_persistent_data       -> checkPersistentData : the whole decision (no storage /
                                                        time stamp / which keys are deleted) as a value

Statement order, conditions, `try/except`, early `return`, `continue`, the iteration domain of the purge loop
and the filter of the comprehension come from the AST.  Declared per target is only the meaning of the leaves:
which attribute/call is which Boolean parameter, which call may raise (and the parameter saying whether it
does), which call/assignment/loop/await is which primitive action.  Anything else: UNTRANSLATABLE, the
definition is omitted and the theorems `TrTie.translated_persist_…` (EdzedProps/C06.lean) that mention it stop
compiling.  (`init_from_persistent_data` is translated by py2lean.main_persist -> TranslatedPersist.lean.)
"""
import ast
import copy
import inspect
import os
import textwrap


class Untranslatable(Exception):
    pass


# --------------------------------------------------------------------------------------------- helpers

def fn_node(obj):
    tree = ast.parse(textwrap.dedent(inspect.getsource(obj)))
    node = tree.body[0]
    if not isinstance(node, (ast.FunctionDef, ast.AsyncFunctionDef)):
        raise Untranslatable(f'{obj}: not a function')
    return node


def checked_body(obj, signature, passes=()):
    """the body of a method whose HEADER is part of what is translated: the parameter list must be exactly
    `signature` (e.g. `self, etype, /, **data`: with the positional-only marker every item name stays available to
    the event data; without it `etype=...` in the data would collide with the parameter), no decorator, and the
    calls listed in `passes` ({callee text: argument text}) must hand the parameters on unchanged"""
    fn = fn_node(obj)
    if not isinstance(fn, ast.FunctionDef) or fn.decorator_list:
        raise Untranslatable(f'{fn.name}: decorated or not a plain method')
    a = fn.args
    args = ast.unparse(ast.arguments(
        posonlyargs=[ast.arg(arg=x.arg) for x in a.posonlyargs], args=[ast.arg(arg=x.arg) for x in a.args],
        vararg=a.vararg and ast.arg(arg=a.vararg.arg), kwonlyargs=[ast.arg(arg=x.arg) for x in a.kwonlyargs],
        kw_defaults=a.kw_defaults, kwarg=a.kwarg and ast.arg(arg=a.kwarg.arg), defaults=a.defaults))
    if args != signature:
        raise Untranslatable(f'signature of {fn.name} is ({args}), expected ({signature})')
    for callee, want in dict(passes).items():
        calls = [n for n in ast.walk(fn) if isinstance(n, ast.Call) and ast.unparse(n.func) == callee]
        for c in calls:
            got = ', '.join([ast.unparse(x) for x in c.args] + [('**' + ast.unparse(k.value)) if k.arg is None
                                                                 else f'{k.arg}={ast.unparse(k.value)}' for k in c.keywords])
            if got != want:
                raise Untranslatable(f'{callee}({got}), expected {callee}({want})')
        if not calls:
            raise Untranslatable(f'no call of {callee}')
    return list(fn.body)


def find_stop_block():
    """the `if started_blocks:` statement of Circuit.run_forever (the save / stamp / clean-up part)"""
    from edzed import simulator
    fn = fn_node(simulator.Circuit.run_forever)
    found = [n for n in ast.walk(fn) if isinstance(n, ast.If) and isinstance(n.test, ast.Name)
             and n.test.id == 'started_blocks']
    if len(found) != 1:
        raise Untranslatable(f'{len(found)} `if started_blocks:` statements in Circuit.run_forever')
    return [found[0]]


class _Alias(ast.NodeTransformer):
    def __init__(self, alias):
        self.alias = alias

    def visit_Name(self, node):
        if node.id in self.alias:
            return copy.deepcopy(self.alias[node.id])
        return node


def is_logging(node):
    if isinstance(node, ast.Expr) and isinstance(node.value, ast.Call):
        f = ast.unparse(node.value.func)
        return f.startswith('self.log_') or f.startswith('_logger.')
    return False


def ends(stmts):
    """does every path through the statements end in return / raise / continue?"""
    for s in stmts:
        if isinstance(s, (ast.Return, ast.Raise, ast.Continue)):
            return True
        if isinstance(s, ast.If) and s.orelse and ends(s.body) and ends(s.orelse):
            return True
    return False


# --------------------------------------------------------------------------------------------- conditions

class Cond:
    """Boolean expressions: and / or / not over declared leaves"""

    def __init__(self, t, alias):
        self.t, self.alias = t, alias

    def text(self, node):
        return ast.unparse(_Alias(self.alias).visit(copy.deepcopy(node)))

    def tr(self, node, env):
        if isinstance(node, ast.BoolOp):
            op = ' && ' if isinstance(node.op, ast.And) else ' || '
            return '(' + op.join(self.tr(v, env) for v in node.values) + ')'
        if isinstance(node, ast.UnaryOp) and isinstance(node.op, ast.Not):
            return '(!' + self.tr(node.operand, env) + ')'
        if isinstance(node, ast.Constant) and isinstance(node.value, bool):
            return 'true' if node.value else 'false'
        if (isinstance(node, ast.Compare) and len(node.ops) == 1 and isinstance(node.ops[0], (ast.Is, ast.IsNot))
                and isinstance(node.comparators[0], ast.Constant) and node.comparators[0].value is None):
            p = self.text(node.left)
            if p in self.t.get('not_none', {}):
                lean = self.t['not_none'][p]
                return lean if isinstance(node.ops[0], ast.IsNot) else f'(!{lean})'
            raise Untranslatable(f'`{p} is [not] None` is not declared')
        if isinstance(node, ast.Call):
            f = self.text(node.func)
            if (isinstance(node.func, ast.Attribute) and node.func.attr == 'startswith' and len(node.args) == 1
                    and isinstance(node.args[0], ast.Constant) and isinstance(node.args[0].value, str)
                    and not node.keywords):
                obj = self.text(node.func.value)
                if env.get(obj) == 'str':
                    return f'({obj}.startsWith "{node.args[0].value}")'
            if f in self.t.get('bool_calls', {}) and not node.args and not node.keywords:
                return self.t['bool_calls'][f]
            raise Untranslatable('call in a condition: ' + ast.unparse(node)[:80])
        if isinstance(node, ast.Name) and isinstance(env.get(node.id), str) and env[node.id].startswith('bool:'):
            return env[node.id][5:]                  # a local holding the value a declared flag had at entry
        p = self.text(node)
        if p in self.t.get('bools', {}):
            return self.t['bools'][p]
        if env.get(p) == 'list':
            return f'(!{p}.isEmpty)'                 # a list / set is true iff it is not empty
        raise Untranslatable('condition leaf: ' + p[:80])


# --------------------------------------------------------------------------------------------- action lists

END_TRY = object()


class Acts:
    """a method as the list of its primitive actions, in program order, under the translated conditions"""

    def __init__(self, t):
        self.t = t
        self.alias = {}
        self.cond = Cond(t, self.alias)

    def text(self, node):
        return self.cond.text(node)

    def fallible_in(self, node):
        """the declared call that may raise inside this expression (at most one), else None"""
        hits = [n for n in ast.walk(node) if isinstance(n, ast.Call) and self.text(n.func) in self.t.get('fallible', {})]
        if len(hits) > 1:
            raise Untranslatable('two raising calls in one statement')
        return hits[0] if hits else None

    def acts(self, stmts, env, ind, handlers):
        """`handlers`: stack of thunks giving the actions of the enclosing `except Exception` clauses"""
        pad = '  ' * ind
        if not stmts:
            return pad + '[]'                     # falling off the end = `return None`
        s, rest = stmts[0], stmts[1:]
        if s is END_TRY:
            return self.acts(rest, env, ind, handlers[:-1])
        if isinstance(s, ast.Expr) and isinstance(s.value, ast.Constant) and isinstance(s.value.value, str):
            return self.acts(rest, env, ind, handlers)
        if is_logging(s) or isinstance(s, (ast.Assert, ast.Pass)):
            return self.acts(rest, env, ind, handlers)
        if isinstance(s, ast.Try):
            if s.orelse or len(s.handlers) != 1:
                raise Untranslatable('try statement shape')
            h = s.handlers[0]
            if not (isinstance(h.type, ast.Name) and h.type.id == 'Exception'):
                raise Untranslatable('handler other than `except Exception`')
            final = list(s.finalbody)
            hbody = list(h.body)
            if final:
                # `finally`: its statements run after the body (outside the handler's reach) and, when the handler
                # ends with a bare `raise`, between the handler's other statements and the re-raise.  Supported
                # shape: non-raising declared attribute assignments only; the only exit of body / handler besides
                # falling through is that final bare `raise` (an exception the handler does not catch - a
                # BaseException - runs the same statements; it is outside the fault model of the primitives)
                for f in final:
                    if not (isinstance(f, ast.Assign) and len(f.targets) == 1
                            and self.text(f.targets[0]) in self.t.get('assign_prims', {})
                            and isinstance(self.t['assign_prims'][self.text(f.targets[0])], list)):
                        raise Untranslatable('statement in `finally`: ' + ast.unparse(f)[:80])
                exits = [n for part in (s.body, hbody[:-1]) for st in part for n in ast.walk(st)
                         if isinstance(n, (ast.Return, ast.Raise, ast.Break, ast.Continue))]
                if exits or not (hbody and isinstance(hbody[-1], ast.Raise) and hbody[-1].exc is None):
                    raise Untranslatable('try/finally shape')
                hbody = hbody[:-1] + final + [hbody[-1]]
            after = [] if ends(hbody) else rest

            def handler(i, env=env, hbody=hbody, after=after, outer=handlers):
                return self.acts(hbody + after, dict(env, **{'#handler': True}), i, outer)
            return self.acts(list(s.body) + [END_TRY] + final + rest, env, ind, handlers + [handler])
        if isinstance(s, ast.Raise):
            if s.exc is None and env.get('#handler'):
                return pad + '[Prim.reraise]'
            raise Untranslatable('raise ' + ast.unparse(s)[:60])
        if isinstance(s, ast.Return):
            if s.value is None or isinstance(s.value, ast.Name):
                return pad + '[Prim.ret]'
            raise Untranslatable('return ' + ast.unparse(s)[:60])
        if isinstance(s, ast.If):
            c = self.cond.tr(s.test, env)
            then_ = self.acts(list(s.body) + ([] if ends(s.body) else rest), env, ind + 1, handlers)
            else_ = self.acts(list(s.orelse) + ([] if ends(s.orelse) else rest), env, ind + 1, handlers)
            return f'{pad}if {c} then\n{then_}\n{pad}else\n{else_}'
        if isinstance(s, ast.For) and not s.orelse and isinstance(s.target, ast.Name):
            key = (self.text(s.iter), ' ; '.join(ast.unparse(b) for b in s.body).replace(s.target.id + '.', '{var}.'))
            if key in self.t.get('loops', {}):
                decl = self.t['loops'][key]
                prim, raises = (decl, None) if isinstance(decl, str) else decl
                return self.may_raise(prim, raises, ind, handlers, lambda i: self.acts(rest, env, i, handlers))
            raise Untranslatable('loop ' + ast.unparse(s)[:100])
        if isinstance(s, ast.Expr) and isinstance(s.value, ast.Await):
            k = self.text(s.value.value)
            if k in self.t.get('awaits', {}):
                return f"{pad}Prim.{self.t['awaits'][k]} ::\n" + self.acts(rest, env, ind, handlers)
            raise Untranslatable('await ' + k[:80])
        if isinstance(s, (ast.Assign, ast.Expr)):
            value = s.value
            call = self.fallible_in(value)
            pre, env2 = '', dict(env)
            if call is not None:
                param, prim, kind = self.t['fallible'][self.text(call.func)]
                if call is not value:
                    raise Untranslatable('a raising call inside a larger expression')
                return self.may_raise(prim, param, ind, handlers,
                                      lambda i: self.stmt_effect(s, env2, i, handlers, rest, kind))
            return self.stmt_effect(s, env2, ind, handlers, rest, None)
        raise Untranslatable('statement ' + ast.unparse(s)[:100])

    def may_raise(self, prim, param, ind, handlers, cont):
        """a primitive that may raise (`param` says whether it does): when it raises, the innermost enclosing
        handler takes over, or the exception leaves the method; otherwise the primitive has its effect"""
        pad = '  ' * ind
        if param is None:
            return f'{pad}Prim.{prim} ::\n' + cont(ind)
        exc = handlers[-1](ind + 1) if handlers else '  ' * (ind + 1) + '[Prim.propagate]'
        return (f'{pad}if {param} then\n{pad}  Prim.fails Prim.{prim} ::\n{exc}\n{pad}else\n'
                f'{pad}  Prim.{prim} ::\n{cont(ind + 1)}')

    def stmt_effect(self, s, env, ind, handlers, rest, result_kind):
        """an assignment / expression statement whose (possibly raising) value has been computed"""
        pad = '  ' * ind
        if isinstance(s, ast.Assign):
            if len(s.targets) != 1:
                raise Untranslatable('multiple assignment')
            tgt = s.targets[0]
            if isinstance(tgt, ast.Name):
                if result_kind is not None:
                    env[tgt.id] = result_kind                    # e.g. the name holds the result of get_state()
                elif self.text(s.value) in self.t.get('entry_reads', {}):
                    # the local keeps the value the flag had when the method was entered (a parameter); not an
                    # alias: the attribute is assigned afterwards
                    attr = self.text(s.value)
                    if attr in env.get('#written', ()) or tgt.id in self.alias:
                        raise Untranslatable(f'`{tgt.id} = {attr}` after an assignment to it')
                    env[tgt.id] = 'bool:' + self.t['entry_reads'][attr]
                elif isinstance(s.value, (ast.Attribute, ast.Name)):
                    self.alias[tgt.id] = _Alias(self.alias).visit(copy.deepcopy(s.value))      # a plain alias
                else:
                    raise Untranslatable('assignment ' + ast.unparse(s)[:80])
                return self.acts(rest, env, ind, handlers)
            p = self.text(tgt)
            decl = self.t.get('assign_prims', {}).get(p)
            if decl is None:
                raise Untranslatable('assignment to ' + p[:80])
            vtext = self.text(s.value)
            if isinstance(decl, list):
                # a flag with several declared assignments, told apart by the value: a constant or the local that
                # holds the flag's entry value
                hit = [d for d in decl if vtext == d[1]
                       or (isinstance(s.value, ast.Name) and env.get(s.value.id) == d[1])]
                if len(hit) != 1:
                    raise Untranslatable(f'`{p} = {vtext[:40]}` is not a declared assignment')
                decl = hit[0]
                env['#written'] = tuple(env.get('#written', ())) + (p,)
            prim, want, raises = (tuple(decl) + (None,))[:3]
            ok = (vtext == want or (result_kind is not None and result_kind == want)
                  or (isinstance(s.value, ast.Name) and env.get(s.value.id) == want))
            if not ok:
                raise Untranslatable(f'`{p} = {vtext[:40]}` (expected {want})')
            return self.may_raise(prim, raises, ind, handlers, lambda i: self.acts(rest, env, i, handlers))
        call = s.value
        if isinstance(call, ast.Call):
            k = self.text(call)
            if k in self.t.get('calls', {}):
                decl = self.t['calls'][k]
                prim, raises = (decl, None) if isinstance(decl, str) else decl
                return self.may_raise(prim, raises, ind, handlers, lambda i: self.acts(rest, env, i, handlers))
            if result_kind is not None:
                return self.acts(rest, env, ind, handlers)        # the raising call as a statement of its own
        raise Untranslatable('statement ' + ast.unparse(s)[:100])


# --------------------------------------------------------------------------------------------- _check_persistent_data

class Check:
    """Circuit._check_persistent_data as a value of type CheckOut"""

    BLOCKS = 'self.getblocks(addons.AddonPersistence)'
    DICT = 'self.persistent_dict'
    STAMP = "self.persistent_dict['edzed-stop-time']"

    def __init__(self):
        self.cond = Cond({'not_none': {self.DICT: 'hasStorage'}}, {})

    def blk_pred(self, node, var):
        """a condition on a block of a comprehension"""
        if isinstance(node, ast.Attribute) and isinstance(node.value, ast.Name) and node.value.id == var \
                and node.attr == 'persistent':
            return f'{var}.persistent'
        if isinstance(node, ast.UnaryOp) and isinstance(node.op, ast.Not):
            return '(!' + self.blk_pred(node.operand, var) + ')'
        if isinstance(node, ast.BoolOp):
            op = ' && ' if isinstance(node.op, ast.And) else ' || '
            return '(' + op.join(self.blk_pred(v, var) for v in node.values) + ')'
        raise Untranslatable('filter of the comprehension: ' + ast.unparse(node)[:60])

    def blocks_expr(self, node, env):
        """a list of blocks"""
        if isinstance(node, ast.Name) and env.get(node.id) == 'list':
            return node.id
        if isinstance(node, ast.Call) and ast.unparse(node) == self.BLOCKS:
            return 'blocks'
        if isinstance(node, ast.ListComp) and len(node.generators) == 1:
            g = node.generators[0]
            if isinstance(g.target, ast.Name) and isinstance(node.elt, ast.Name) and node.elt.id == g.target.id \
                    and not g.is_async:
                src = self.blocks_expr(g.iter, env)
                for c in g.ifs:
                    src = f'({src}.filter fun {g.target.id} => {self.blk_pred(c, g.target.id)})'
                return src
        raise Untranslatable('list of blocks: ' + ast.unparse(node)[:80])

    def keys_expr(self, node, env):
        """a collection of keys (strings)"""
        if isinstance(node, ast.Call) and ast.unparse(node) == self.DICT + '.keys()':
            return 'storeKeys'
        if isinstance(node, ast.Attribute) and ast.unparse(node) == self.DICT:
            return 'storeKeys'                       # iterating a dict = iterating its keys
        if isinstance(node, ast.Call) and ast.unparse(node.func) in ('list', 'set') and len(node.args) == 1:
            return self.keys_expr(node.args[0], env)
        if isinstance(node, (ast.SetComp, ast.ListComp, ast.GeneratorExp)) and len(node.generators) == 1:
            g = node.generators[0]
            if (isinstance(g.target, ast.Name) and isinstance(node.elt, ast.Attribute) and node.elt.attr == 'key'
                    and isinstance(node.elt.value, ast.Name) and node.elt.value.id == g.target.id):
                src = self.blocks_expr(g.iter, env)
                for c in g.ifs:
                    src = f'({src}.filter fun {g.target.id} => {self.blk_pred(c, g.target.id)})'
                return f'({src}.map fun {g.target.id} => {g.target.id}.key)'
        if isinstance(node, ast.BinOp) and isinstance(node.op, ast.Sub):
            a, b = self.keys_expr(node.left, env), self.keys_expr(node.right, env)
            return f'({a}.filter fun k => !({b}.contains k))'
        raise Untranslatable('collection of keys: ' + ast.unparse(node)[:80])

    def prog(self, stmts, env, ind):
        pad = '  ' * ind
        if not stmts:
            ts = env.get('#ts')
            if ts is None:
                raise Untranslatable('the end is reached without a value of self.persistent_ts')
            return f"{pad}.checked {ts} {env.get('#deleted', '[]')}"
        s, rest = stmts[0], stmts[1:]
        if isinstance(s, ast.Expr) and isinstance(s.value, ast.Constant) and isinstance(s.value.value, str):
            return self.prog(rest, env, ind)
        if is_logging(s):
            return self.prog(rest, env, ind)
        if isinstance(s, ast.Return) and s.value is None:
            if '#disabled' in env or env.get('#nostorage'):
                return f"{pad}.noStorage {env.get('#disabled', '[]')}"
            return self.prog([], env, ind)
        if isinstance(s, ast.Assign) and len(s.targets) == 1 and isinstance(s.targets[0], ast.Name):
            env2 = dict(env)
            env2[s.targets[0].id] = 'list'
            return f'{pad}let {s.targets[0].id} := {self.blocks_expr(s.value, env)}\n' + self.prog(rest, env2, ind)
        if isinstance(s, ast.If):
            if all(is_logging(x) for x in s.body) and all(is_logging(x) for x in s.orelse):
                return self.prog(rest, env, ind)
            c = self.cond.tr(s.test, env)
            env_t, env_e = dict(env), dict(env)
            if ast.unparse(s.test) == self.DICT + ' is None':
                env_t['#nostorage'] = True
            then_ = self.prog(list(s.body) + ([] if ends(s.body) else rest), env_t, ind + 1)
            else_ = self.prog(list(s.orelse) + ([] if ends(s.orelse) else rest), env_e, ind + 1)
            return f'{pad}if {c} then\n{then_}\n{pad}else\n{else_}'
        if isinstance(s, ast.For) and isinstance(s.target, ast.Name) and not s.orelse:
            var = s.target.id
            # `for blk in <blocks>: blk.persistent = False`
            if (len(s.body) == 1 and isinstance(s.body[0], ast.Assign) and env.get('#nostorage')
                    and ast.unparse(s.body[0]) == f'{var}.persistent = False'):
                env2 = dict(env)
                env2['#disabled'] = self.blocks_expr(s.iter, env)
                return self.prog(rest, env2, ind)
            # the purge: `for key in <keys>: [if c: continue]* ; del self.persistent_dict[key]`
            dom = self.keys_expr(s.iter, env)
            body = [b for b in s.body if not is_logging(b)]
            deleted = self.purge_body(body, var, dict(env, **{var: 'str'}))
            env2 = dict(env)
            env2['#deleted'] = 'deleted'
            uses_storage = 'storeKeys' in dom
            head = (f'{pad}if iterRaises then\n{pad}  .error       -- iterating the storage raises\n{pad}else\n'
                    if uses_storage else '')
            ind2 = ind + 1 if uses_storage else ind
            pad2 = '  ' * ind2
            return (head + f'{pad2}let deleted := ({dom}.foldl (fun del {var} => if {deleted} then del ++ [{var}] '
                    f'else del) [])\n'
                    f'{pad2}if (delRaises && !deleted.isEmpty) then\n{pad2}  .error       -- the first `del` raises\n'
                    f'{pad2}else\n' + self.prog(rest, env2, ind2 + 1))
        if isinstance(s, ast.Try) and not s.finalbody and len(s.handlers) == 1:
            return self.stamp_try(s, rest, env, ind)
        raise Untranslatable('statement ' + ast.unparse(s)[:100])

    def purge_body(self, body, var, env):
        """the body of the purge loop as the condition "this key is deleted" (the decision tree of its
        `if`s, `continue`s and the final `del`, flattened into one Boolean expression)"""
        if not body:
            return 'false'
        s, rest = body[0], body[1:]
        if is_logging(s):
            return self.purge_body(rest, var, env)
        if isinstance(s, ast.Continue):
            return 'false'
        if isinstance(s, ast.If):
            c = self.cond.tr(s.test, env)
            t = self.purge_body(list(s.body) + ([] if ends(s.body) else rest), var, env)
            e = self.purge_body(list(s.orelse) + ([] if ends(s.orelse) else rest), var, env)
            if (t, e) == ('true', 'false'):
                return c
            if (t, e) == ('false', 'true'):
                return f'(!{c})'
            return f'(({c} && {t}) || ((!{c}) && {e}))'
        if isinstance(s, ast.Delete) and ast.unparse(s) == f'del {self.DICT}[{var}]' and not rest:
            return 'true'
        raise Untranslatable('body of the purge loop: ' + ast.unparse(s)[:80])

    def stamp_try(self, s, rest, env, ind):
        """try: self.persistent_ts = <lookup>; if not isinstance(self.persistent_ts, float): raise TypeError()
           except (KeyError, TypeError): self.persistent_ts = None      else: <logging only>"""
        pad = '  ' * ind
        h = s.handlers[0]
        caught = [ast.unparse(e) for e in h.type.elts] if isinstance(h.type, ast.Tuple) else [ast.unparse(h.type)]
        hbody = [b for b in h.body if not is_logging(b)]
        if [ast.unparse(b) for b in hbody] != ['self.persistent_ts = None']:
            raise Untranslatable('handler of the time stamp lookup')
        for b in s.orelse:
            if not (is_logging(b) or (isinstance(b, ast.If) and all(is_logging(x) for x in b.body) and not b.orelse)):
                raise Untranslatable('else part of the time stamp lookup')
        body = list(s.body)
        if not (body and ast.unparse(body[0]) == f'self.persistent_ts = {self.STAMP}'):
            raise Untranslatable('the time stamp is not read first')

        def raised(exc, i):
            if exc in caught:
                return self.prog(rest, dict(env, **{'#ts': 'none'}), i)
            return '  ' * i + '.error'

        def after_lookup(stmts, envl, i):
            p = '  ' * i
            if not stmts:
                if envl['#tsval'] == 'entry':
                    raise Untranslatable('the time stamp is used without the test that it is a float')
                return self.prog(rest, dict(env, **{'#ts': envl['#tsval']}), i)
            st, more = stmts[0], stmts[1:]
            if isinstance(st, ast.If):
                t = st.test
                neg = isinstance(t, ast.UnaryOp) and isinstance(t.op, ast.Not)
                inner = t.operand if neg else t
                if ast.unparse(inner) == 'isinstance(self.persistent_ts, float)' and envl['#tsval'] == 'entry':
                    def branch(stmts_b, envb):
                        stmts_b = [x for x in stmts_b if not isinstance(x, ast.Pass) and not is_logging(x)]
                        if len(stmts_b) == 1 and isinstance(stmts_b[0], ast.Raise) and isinstance(stmts_b[0].exc, ast.Call):
                            return raised(ast.unparse(stmts_b[0].exc.func), i + 1)
                        if not stmts_b:
                            return after_lookup(more, envb, i + 1)
                        raise Untranslatable('branch of the float test: ' + ast.unparse(stmts_b[0])[:60])
                    yes, no = (st.orelse, st.body) if neg else (st.body, st.orelse)
                    is_float = branch(yes, dict(envl, **{'#tsval': '(some t)'}))
                    not_float = branch(no, envl)                # (stays an entry that is no float)
                    return f'{p}match e with\n{p}| .ts t =>\n{is_float}\n{p}| _ =>\n{not_float}'
            raise Untranslatable('after the time stamp lookup: ' + ast.unparse(st)[:80])

        found = after_lookup(body[1:], {'#tsval': 'entry'}, ind + 1)
        # an exception of the storage other than KeyError is caught by `except Exception` / a bare except only
        other = raised('Exception', ind + 1) if ('Exception' in caught or 'BaseException' in caught) \
            else '  ' * (ind + 1) + '.error'
        return (f"{pad}match stamp with\n{pad}| .missing =>\n{raised('KeyError', ind + 1)}\n"
                f"{pad}| .failed =>\n{other}\n{pad}| .found e =>\n{found}")


# --------------------------------------------------------------------------------------------- targets

def act_targets():
    from edzed import addons
    return [
        dict(name='eventActs', doc='addons.AddonPersistence.event',
             node=lambda: checked_body(addons.AddonPersistence.event, 'self, etype, /, **data',
                                       {'super().event': 'etype, **data'}),
             params=[('superRaises', 'Bool'), ('persistent', 'Bool'), ('ready', 'Bool'), ('sync', 'Bool'),
                     ('inited', 'Bool'), ('saveRaises', 'Bool'), ('nested', 'Bool')],
             bools={'self.persistent': 'persistent', 'self.sync_state': 'sync'},
             bool_calls={'self.circuit.is_ready': 'ready', 'self.is_initialized': 'inited'},
             fallible={'super().event': ('superRaises', 'superEvent', 'retval')},
             # the flag "an event() of this block is being handled": `nested` = its value at entry
             entry_reads={'self._persist_event_active': 'nested'},
             assign_prims={'self.persistent': ('disable', 'False'),
                           'self._persist_event_active': [('enter', 'True'), ('leave', 'bool:nested')]},
             calls={'self.save_persistent_state()': ('save', 'saveRaises')}),
        dict(name='saveActs', doc='addons.AddonPersistence.save_persistent_state',
             node=lambda: list(fn_node(addons.AddonPersistence.save_persistent_state).body),
             params=[('persistent', 'Bool'), ('getStateRaises', 'Bool'), ('writeRaises', 'Bool'), ('popRaises', 'Bool')],
             bools={'self.persistent': 'persistent'},
             fallible={'self.get_state': ('getStateRaises', 'getState', 'state')},
             assign_prims={'self.circuit.persistent_dict[self.key]': ('setItem', 'state', 'writeRaises')},
             calls={'self.circuit.persistent_dict.pop(self.key, None)': ('popKey', 'popRaises')}),
        dict(name='stopActs', doc='simulator.Circuit.run_forever: the `if started_blocks:` block',
             node=find_stop_block,
             params=[('started', 'Bool'), ('startOk', 'Bool'), ('hasStorage', 'Bool'), ('saveRaises', 'Bool'),
                     ('writeRaises', 'Bool')],
             bools={'started_blocks': 'started', 'start_ok': 'startOk'},
             not_none={'self.persistent_dict': 'hasStorage'},
             loops={('started_blocks.intersection(self.getblocks(addons.AddonPersistence))',
                     '{var}.save_persistent_state()'): ('saveAll', 'saveRaises')},
             assign_prims={"self.persistent_dict['edzed-stop-time']": ('stamp', 'time.time()', 'writeRaises')},
             awaits={'self._stop_sblocks(started_blocks)': 'cleanup'}),
    ]


PRELUDE = '''/- GENERATED by tools/py2lean_persist.py from the Python source of edzed
   (addons.AddonPersistence, simulator.Circuit) -- do not edit -/
import EdzedModel.Persist

namespace Edzed.Gen.TrP2
open Edzed.Persist

/-- the primitive actions of the persistence code paths -/
inductive Prim where
  | superEvent     -- `retval = super().event(etype, **data)`
  | disable        -- `self.persistent = False`
  | reraise        -- `raise` inside the handler
  | save           -- `self.save_persistent_state()`
  | ret            -- `return [retval]`
  | getState       -- `self.get_state()`
  | setItem        -- `persistent_dict[self.key] = <the state just obtained>`
  | popKey         -- `persistent_dict.pop(self.key, None)`
  | propagate      -- an exception of a call / storage operation outside any `try` leaves the method
  | fails (p : Prim)   -- the call / storage operation was attempted and raised (no effect)
  | saveAll        -- `for blk in started_blocks.intersection(<persistent-capable blocks>): blk.save_persistent_state()`
  | stamp          -- `self.persistent_dict['edzed-stop-time'] = time.time()`
  | cleanup        -- `await self._stop_sblocks(started_blocks)`: the first await of the stop
  | enter          -- `self._persist_event_active = True`
  | leave          -- `self._persist_event_active = nested` (the value the flag had at entry)
  deriving Repr

/-- the read of `self.persistent_dict['edzed-stop-time']` -/
inductive StampRead where
  | missing                 -- KeyError
  | failed                  -- the storage raises something else
  | found (e : Entry)
  deriving Repr

/-- what `Circuit._check_persistent_data` decides -/
inductive CheckOut where
  | noStorage (disabled : List Blk)                       -- no storage: these blocks get `persistent = False`
  | checked (ts : Option Time) (deleted : List String)    -- `persistent_ts`, the keys removed from the storage
  | error                                                 -- an exception leaves the method
  deriving Repr

/-- the attributes set by `AddonPersistence.__init__` -/
structure PersistAttrs where
  persistent : Bool
  sync_state : Bool
  expiration : Option Rat          -- seconds
  key : String
  deriving Repr
'''


# --------------------------------------------------------------------------------------------- looptimes (values)

class Clock:
    """edzed/utils/looptimes.py: arithmetic over readings of two clocks.  A call of `time.time` / of the running
    loop's `time` (directly or through a local alias) is the NEXT reading of that clock: the readings are
    parameters of the definition, in call order (`unix1`, `loop1`, `unix2`, …).  A function whose parameter
    defaults to None and is replaced when None (`if x is None: x = …`) takes an `Option Rat`."""

    CLOCKS = {'time.time': 'unix', 'asyncio.get_running_loop().time': 'loop'}

    def __init__(self, known):
        self.known = known          # python name -> (lean name, [clock kinds of its readings]) of translated functions

    def function(self, fn, lean_name):
        self.readings = []          # clock kinds, in call order
        args = fn.args
        if args.vararg or args.kwarg or args.kwonlyargs or args.posonlyargs:
            raise Untranslatable('signature of ' + fn.name)
        defaults = [None] * (len(args.args) - len(args.defaults)) + list(args.defaults)
        env, params = {}, []
        for a, d in zip(args.args, defaults):
            if d is None:
                env[a.arg] = 'rat'
                params.append(f'({a.arg} : Rat)')
            elif isinstance(d, ast.Constant) and d.value is None:
                env[a.arg] = 'optrat'
                params.append(f'({a.arg} : Option Rat)')
            else:
                raise Untranslatable('default of ' + a.arg)
        body = self.block(list(fn.body), env, 1)
        count = {}
        names = []
        for k in self.readings:
            count[k] = count.get(k, 0) + 1
            names.append(f'{k}{count[k]}')
        rd = (' (' + ' '.join(names) + ' : Rat)') if names else ''
        return f"def {lean_name} {' '.join(params)}{rd} : Rat :=\n{body}", list(self.readings)

    def reading(self, kind):
        self.readings.append(kind)
        return f'{kind}{self.readings.count(kind)}'

    def expr(self, node, env):
        if isinstance(node, ast.BinOp) and isinstance(node.op, (ast.Add, ast.Sub, ast.Mult, ast.Div)):
            op = {ast.Add: '+', ast.Sub: '-', ast.Mult: '*', ast.Div: '/'}[type(node.op)]
            return f'({self.expr(node.left, env)} {op} {self.expr(node.right, env)})'
        if isinstance(node, ast.Constant) and isinstance(node.value, (int, float)) and not isinstance(node.value, bool):
            from fractions import Fraction
            q = Fraction(node.value)
            return f'({q.numerator} : Rat)' if q.denominator == 1 else f'(({q.numerator} : Rat) / {q.denominator})'
        if isinstance(node, ast.Name):
            if env.get(node.id) == 'rat':
                return node.id
            raise Untranslatable(f'{node.id} is not known to be a number here')
        if isinstance(node, ast.Call) and not node.args and not node.keywords:
            f = ast.unparse(node.func)
            if isinstance(node.func, ast.Name) and isinstance(env.get(f), tuple) and env[f][0] == 'clock':
                return self.reading(env[f][1])
            if f in self.CLOCKS:
                return self.reading(self.CLOCKS[f])
            if f in self.known:
                lean, kinds = self.known[f]
                return '(' + ' '.join([lean] + [self.reading(k) for k in kinds]) + ')'
        raise Untranslatable('expression ' + ast.unparse(node)[:60])

    def block(self, stmts, env, ind):
        pad = '  ' * ind
        if not stmts:
            raise Untranslatable('the function ends without a return')
        s, rest = stmts[0], stmts[1:]
        if isinstance(s, ast.Expr) and isinstance(s.value, ast.Constant) and isinstance(s.value.value, str):
            return self.block(rest, env, ind)
        if isinstance(s, ast.Return) and s.value is not None:
            return pad + self.expr(s.value, env)
        if isinstance(s, ast.Assign) and len(s.targets) == 1 and isinstance(s.targets[0], ast.Name):
            name = s.targets[0].id
            src = ast.unparse(s.value)
            if src in self.CLOCKS:                      # a local alias of a clock function
                return self.block(rest, dict(env, **{name: ('clock', self.CLOCKS[src])}), ind)
            val = self.expr(s.value, env)
            return f'{pad}let {name} : Rat := {val}\n' + self.block(rest, dict(env, **{name: 'rat'}), ind)
        if (isinstance(s, ast.If) and not s.orelse and len(s.body) == 1 and isinstance(s.body[0], ast.Assign)
                and isinstance(s.test, ast.Compare) and len(s.test.ops) == 1 and isinstance(s.test.ops[0], ast.Is)
                and isinstance(s.test.left, ast.Name) and isinstance(s.test.comparators[0], ast.Constant)
                and s.test.comparators[0].value is None):
            name = s.test.left.id
            a = s.body[0]
            if env.get(name) == 'optrat' and len(a.targets) == 1 and ast.unparse(a.targets[0]) == name:
                val = self.expr(a.value, env)
                return (f'{pad}let {name} : Rat := match {name} with\n{pad}  | some given => given\n'
                        f'{pad}  | none => {val}\n' + self.block(rest, dict(env, **{name: 'rat'}), ind))
        raise Untranslatable('statement ' + ast.unparse(s)[:80])


def looptimes_defs(py2lean, L):
    from edzed.utils import looptimes
    known = {}
    for pyname, lean in (('_get_timediff', 'getTimediff'), ('loop_to_unixtime', 'loopToUnixtime'),
                         ('unix_to_looptime', 'unixToLooptime')):
        def translate(t, pyname=pyname, lean=lean):
            try:
                text, kinds = Clock(known).function(fn_node(getattr(looptimes, pyname)), lean)
            except Untranslatable as err:
                raise py2lean.Untranslatable(str(err))
            known[pyname] = (lean, kinds)
            return text
        py2lean.emit(L, dict(name=lean, doc=f'utils.looptimes.{pyname}'), translate,
                     ' (the readings of time.time / of the loop clock are parameters, in call order)')


# --------------------------------------------------------------------------------------------- AddonPersistence.__init__

def persist_init_def():
    """`AddonPersistence.__init__` as a constructor of the attributes it sets, in the Except monad: `bool(x)` is the
    truthiness of a value, `utils.time_period` and `super().__init__` are primitives that may raise, `str(self)` is a
    parameter; the defaults of the keyword-only arguments come from the signature"""
    from edzed import addons
    fn = fn_node(addons.AddonPersistence.__init__)
    kwonly = [a.arg for a in fn.args.kwonlyargs]
    if kwonly != ['persistent', 'sync_state', 'expiration'] or fn.args.args[0].arg != 'self' or len(fn.args.args) != 1:
        raise Untranslatable('signature of AddonPersistence.__init__: ' + ', '.join(kwonly))
    dflt = []
    for d in fn.args.kw_defaults:
        if isinstance(d, ast.Constant) and isinstance(d.value, bool):
            dflt.append('Val.bool ' + ('true' if d.value else 'false'))
        elif isinstance(d, ast.Constant) and d.value is None:
            dflt.append('Val.none')
        else:
            raise Untranslatable('default ' + (ast.unparse(d) if d is not None else '<required>'))
    lines, fields = [], {}
    for s in fn.body:
        if isinstance(s, ast.Expr) and isinstance(s.value, ast.Constant) and isinstance(s.value.value, str):
            continue
        if isinstance(s, (ast.AnnAssign, ast.Assign)):
            tgt = s.target if isinstance(s, ast.AnnAssign) else (s.targets[0] if len(s.targets) == 1 else None)
            if not (isinstance(tgt, ast.Attribute) and isinstance(tgt.value, ast.Name) and tgt.value.id == 'self'
                    and tgt.attr in ('persistent', 'sync_state', 'expiration', 'key')) or tgt.attr in fields:
                raise Untranslatable('assignment ' + ast.unparse(s)[:60])
            v = s.value
            if isinstance(v, ast.Call) and len(v.args) == 1 and not v.keywords and isinstance(v.args[0], ast.Name):
                f, arg = ast.unparse(v.func), v.args[0].id
                if f == 'bool' and arg in kwonly and tgt.attr in ('persistent', 'sync_state'):
                    lines.append(f'  let a_{tgt.attr} : Bool := {arg}.truthy')
                elif f == 'utils.time_period' and arg in kwonly and tgt.attr == 'expiration':
                    lines.append(f'  let a_{tgt.attr} : Option Rat ← timePeriod {arg}')
                elif f == 'str' and arg == 'self' and tgt.attr == 'key':
                    lines.append(f'  let a_{tgt.attr} : String := strSelf')
                else:
                    raise Untranslatable('value ' + ast.unparse(v)[:60])
                fields[tgt.attr] = True
                continue
            raise Untranslatable('value ' + ast.unparse(v)[:60])
        if isinstance(s, ast.Expr) and ast.unparse(s.value) == 'super().__init__(*args, **kwargs)':
            lines.append('  superInit')
            continue
        raise Untranslatable('statement ' + ast.unparse(s)[:60])
    if set(fields) != {'persistent', 'sync_state', 'expiration', 'key'}:
        raise Untranslatable('attributes set: ' + ', '.join(sorted(fields)))
    return (f'def persistInitDefaults : Val × Val × Val := ({dflt[0]}, {dflt[1]}, {dflt[2]})'
            '      -- persistent, sync_state, expiration: the defaults of the signature\n\n'
            '/-- translated from `addons.AddonPersistence.__init__`: the attributes it sets, in statement order -/\n'
            'def persistInit {ε : Type} (timePeriod : Val → Except ε (Option Rat)) (superInit : Except ε Unit) '
            '(strSelf : String)\n    (persistent sync_state expiration : Val) : Except ε PersistAttrs := do\n'
            + '\n'.join(lines) + '\n'
            '  pure { persistent := a_persistent, sync_state := a_sync_state, expiration := a_expiration, key := a_key }')


def on_enter_expired_def():
    from edzed.blocklib import sblocks2
    fn = fn_node(sblocks2.InputExp.on_enter_expired)
    body = [s for s in fn.body if not (isinstance(s, ast.Expr) and isinstance(s.value, ast.Constant))]
    if len(body) == 1 and isinstance(body[0], ast.Expr) and ast.unparse(body[0].value) == "self.sdata.pop('input', None)":
        return 'def inputExpOnEnterExpired (sdata : Data) : Data := sdata.erase "input"'
    raise Untranslatable('body of InputExp.on_enter_expired')


def event_flag_default_def():
    """the class-level default of the flag `_persist_event_active` (no instance assigns it outside `event`)"""
    import inspect
    from edzed import addons
    name = '_persist_event_active'
    val = vars(addons.AddonPersistence).get(name, Untranslatable)
    if not isinstance(val, bool):
        raise Untranslatable(f'AddonPersistence.{name}: no Boolean class attribute')
    stores = [n for n in ast.walk(ast.parse(inspect.getsource(addons)))
              if isinstance(n, ast.Attribute) and n.attr == name and isinstance(n.ctx, (ast.Store, ast.Del))]
    if len(stores) != 2:          # the two assignments of `event` (translated there)
        raise Untranslatable(f'{name} is assigned {len(stores)} times in addons.py')
    return f"def eventFlagDefault : Bool := {'true' if val else 'false'}"


def main(outfile, py2lean):
    """`py2lean`: the module tools/py2lean.py (for emit / write_if_changed)"""
    L = [PRELUDE]

    def translate_acts(t):
        tr = Acts(t)
        body = tr.acts(t['node'](), {}, 1, [])
        params = ' '.join(f'({n} : {ty})' for n, ty in t['params'])
        return f"def {t['name']} {params} : List Prim :=\n{body}"

    def wrap(fn):
        def f(t):
            try:
                return fn(t)
            except Untranslatable as err:
                raise py2lean.Untranslatable(str(err))
        return f

    for t in act_targets():
        py2lean.emit(L, t, wrap(translate_acts), ': the primitive actions in program order')
    py2lean.emit(L, dict(name='eventFlagDefault', doc='addons.AddonPersistence._persist_event_active'),
                 wrap(lambda t: event_flag_default_def()), ' (class attribute: the flag of a block no event() has entered)')

    def translate_check(t):
        from edzed import simulator
        fn = fn_node(simulator.Circuit._check_persistent_data)
        body = Check().prog(list(fn.body), {}, 1)
        return ('def checkPersistentData (hasStorage : Bool) (stamp : StampRead) (storeKeys : List String) '
                '(blocks : List Blk) (iterRaises delRaises : Bool) : CheckOut :=\n' + body)

    py2lean.emit(L, dict(name='checkPersistentData', doc='simulator.Circuit._check_persistent_data'),
                 wrap(translate_check),
                 ' (`stamp`: the read of the entry under \'edzed-stop-time\'; a float is `Entry.ts`)')
    looptimes_defs(py2lean, L)
    py2lean.emit(L, dict(name='persistInit', doc='addons.AddonPersistence.__init__'), wrap(lambda t: persist_init_def()), '')
    py2lean.emit(L, dict(name='inputExpOnEnterExpired', doc='blocklib.sblocks2.InputExp.on_enter_expired'),
                 wrap(lambda t: on_enter_expired_def()), '')
    L.append('end Edzed.Gen.TrP2')
    py2lean.write_if_changed(outfile, '\n'.join(L) + '\n')
