#!/venv/bin/python
"""
Translator: regenerate lean/EdzedModel/Gen/Constants.lean from the CURRENT edzed source.

Run by every check.  It imports the code under $EDZED_SRC (default /repo) and reads the
objects the code itself uses (control tables built by FSM._build_tables, SBlock._ct_handlers,
inspect.signature of the handlers, module constants), so it follows refactorings of how the
tables are written and reacts only to what they mean.

Output is deterministic (sorted, no timestamps); the file is rewritten only when it changed.
Usage: extract.py <output file>
"""
import inspect
import json
import math
import os
import sys

SRC = os.environ.get('EDZED_SRC', '/repo')
sys.path.insert(0, SRC)

import edzed                                    # noqa: E402
from edzed import addons, block, fsm, simulator     # noqa: E402
from edzed.blocklib import cron, timeinterval, sblocks1, sblocks2, fsms, timedate   # noqa: E402
from edzed.utils import tconst, timeunits      # noqa: E402

assert os.path.realpath(edzed.__file__).startswith(os.path.realpath(SRC)), (edzed.__file__, SRC)


def lstr(s):
    return json.dumps(s, ensure_ascii=False)


def llist(items):
    return '[' + ', '.join(items) + ']'


def lopt(x, f=str):
    return 'none' if x is None else f'(some {f(x)})'


def us(seconds):
    """seconds -> integer microseconds (exact for the constants in use)"""
    v = seconds * 1_000_000
    assert abs(v - round(v)) < 1e-6, seconds
    return int(round(v))


def dur(x):
    """duration -> Lean `Dur`: none | inf | us n"""
    if x is None:
        return 'Dur.none'
    if x == math.inf:
        return 'Dur.inf'
    return f'(Dur.us {us(x)})'


def ev(e):
    """timed event -> Lean `TEvent`"""
    if isinstance(e, fsm.Goto):
        return f'(TEvent.goto {lstr(e.state)})'
    return f'(TEvent.ev {lstr(e)})'


def fsm_table(cls, name):
    states = list(cls.STATES) + [s for s in cls.TIMERS if s not in cls.STATES]
    assert set(states) == cls._ct_states
    trans = sorted(
        ((e, s, t) for (e, s), t in cls._ct_transition.items()),
        key=lambda x: (x[0], '' if x[1] is None else ' ' + x[1]))
    out = [f'def {name}States : List String := {llist(lstr(s) for s in states)}']
    out.append(f'def {name}Events : List String := {llist(lstr(e) for e in sorted(cls._ct_events))}')
    out.append(
        f'def {name}Trans : List (String × Option String × Option String) := '
        + llist(f'({lstr(e)}, {lopt(s, lstr)}, {lopt(t, lstr)})' for e, s, t in trans))
    out.append(
        f'def {name}Timed : List (String × TEvent × Dur) := '
        + llist(
            f'({lstr(s)}, {ev(cls._ct_timed_event[s])}, {dur(cls._ct_default_duration[s])})'
            for s in sorted(cls._ct_timed_event)))
    out.append(f'def {name}Default : String := {lstr(cls._ct_default_state)}')
    out.append(f'def {name}ChainLimit : Nat := {cls._ct_chainlimit}')
    out.append(
        f'def {name}Methods : List (String × String) := '
        + llist(f'({lstr(k)}, {lstr(n)})' for k in ('cond', 'enter', 'exit')
                for n in sorted(cls._ct_methods[k])))
    return out


def handler_table(cls):
    rows = []
    for etype in sorted(cls._ct_handlers):
        sig = inspect.signature(cls._ct_handlers[etype])
        req, opt, varkw = [], [], False
        for p in list(sig.parameters.values())[1:]:     # skip self
            if p.kind is p.VAR_KEYWORD:
                varkw = True
            elif p.kind is p.KEYWORD_ONLY:
                (req if p.default is p.empty else opt).append(p.name)
            else:
                req.append('<positional:' + p.name + '>')
        rows.append(
            f'({lstr(etype)}, {llist(lstr(x) for x in sorted(req))}, '
            f'{llist(lstr(x) for x in sorted(opt))}, {"true" if varkw else "false"})')
    return llist(rows)


def filters_tables():
    """C16: the constructor defaults of Edge and the operations of DataEdit"""
    from edzed.blocklib import filters

    def lbool(x):
        assert x is None or isinstance(x, bool), x
        return 'none' if x is None else f'(some {"true" if x else "false"})'
    params = list(inspect.signature(filters.Edge.__init__).parameters.values())[1:]
    out = ['/-- Edge(...) parameters in order with their defaults (none = None) -/',
           'def edgeDefaults : List (String × Option Bool) := '
           + llist(f'({lstr(p.name)}, {lbool(p.default)})' for p in params)]
    ops = sorted(n for n, v in vars(filters.DataEdit).items()
                 if not n.startswith('_') and isinstance(v, filters._dualmethod))
    out.append('/-- the chainable operations of DataEdit -/')
    out.append(f'def dataEditOps : List String := {llist(lstr(n) for n in ops)}')
    return out


def lchars(s):
    """string -> Lean `List Char` literal (used by the List-Char parsers of the interval model, C13)"""
    def one(c):
        if c in "'\\":
            return "'\\" + c + "'"
        if 32 <= ord(c) < 127:
            return "'" + c + "'"
        return f'(Char.ofNat {ord(c)})'
    return llist(one(c) for c in s)


def interval_tables():
    """C13: the string tables of timeinterval.py as character lists + the regular expressions in use"""
    out = ['', '/-- interval notation tables as character lists (C13) -/']
    out.append('def monthNamesC : List (List Char) := ' + llist(lchars(m) for m in tconst.MONTH_NAMES))
    out.append('def rangeSeparatorsC : List (List Char) := '
               + llist(lchars(s) for s in timeinterval._RANGE_SEPARATORS))
    out.append(f'def delimiterC : List Char := {lchars(timeinterval._DELIMITER)}')
    out.append(f'def delimiterLegacyC : List Char := {lchars(timeinterval._DELIMITER_LEGACY)}')
    out.append('/-- source text of the regular expressions modelled by hand in EdzedModel/Interval.lean -/')
    out.append('def intervalRegexes : List (String × String) := ' + llist(
        f'({lstr(n)}, {lstr(getattr(timeinterval, n).pattern)})'
        for n in ('_RE_DAY', '_RE_ISO_DM', '_RE_MONTH', '_RE_TIME', '_RE_YEAR', '_RE_YMD')))
    return out


def effective_pattern(rx):
    """pattern text of a compiled re; for re.VERBOSE patterns the layout is removed (whitespace outside
    character classes, `#` comments), so that only what the expression means is compared"""
    import re as _re
    text = rx.pattern
    if not rx.flags & _re.VERBOSE:
        return text
    out, i, in_class = [], 0, False
    while i < len(text):
        c = text[i]
        if c == '\\' and i + 1 < len(text):
            out.append(text[i:i + 2])
            i += 2
            continue
        if in_class:
            in_class = c != ']'
            out.append(c)
        elif c == '[':
            in_class = True
            out.append(c)
        elif c == '#':
            while i < len(text) and text[i] != '\n':
                i += 1
            continue
        elif not c.isspace():
            out.append(c)
        i += 1
    return ''.join(out)


def duration_regexes():
    """C19: the two regular expressions of timeunits.py (effective text + flags other than VERBOSE)"""
    import re as _re
    rows = []
    for n in ('_RE_DURATION', '_RE_ISO_DURATION'):
        rx = getattr(timeunits, n)
        flags = sorted(f.name for f in _re.RegexFlag
                       if f.name and rx.flags & f and f not in (_re.VERBOSE, _re.UNICODE))
        rows.append(f'({lstr(n)}, {lstr(effective_pattern(rx))}, {llist(lstr(f) for f in flags)})')
    return ['', '/-- the regular expressions of edzed/utils/timeunits.py modelled by hand in EdzedModel/TimeUnits.lean:',
            '    name, effective pattern text (VERBOSE layout removed), flags -/',
            'def durationRegexes : List (String × String × List String) := ' + llist(rows),
            f'def durationNum : String := {lstr(timeunits._NUM)}']


def main(outfile):
    L = []
    L.append('/- GENERATED by tools/extract.py from the edzed source -- do not edit -/')
    L.append('namespace Edzed.Gen')
    L.append('')
    L.append('inductive Dur where | none | inf | us (n : Nat) deriving DecidableEq, Repr, Inhabited')
    L.append('inductive TEvent where | ev (name : String) | goto (state : String) '
             'deriving DecidableEq, Repr, Inhabited')
    L.append('')
    L.append(f'def secPerDay : Nat := {tconst.SEC_PER_DAY}')
    L.append(f'def secPerHour : Nat := {tconst.SEC_PER_HOUR}')
    L.append(f'def secPerMin : Nat := {tconst.SEC_PER_MIN}')
    L.append(f'def monthNames : List String := {llist(lstr(m) for m in tconst.MONTH_NAMES)}')
    L.append(f'def maxEvalsPerBlock : Nat := {simulator._MAX_EVALS_PER_BLOCK}')
    L.append(f'def defaultInitTimeoutUs : Nat := {us(addons.DEFAULT_INIT_TIMEOUT)}')
    L.append(f'def defaultStopTimeoutUs : Nat := {us(addons.DEFAULT_STOP_TIMEOUT)}')
    L.append(f'def cronTtOkUs : Nat := {us(cron._TT_OK)}')
    L.append(f'def cronTtWarningUs : Nat := {us(cron._TT_WARNING)}')
    L.append(f'def cronTtErrorUs : Nat := {us(cron._TT_ERROR)}')
    L.append('def cronSet24 : List (Nat × Nat × Nat × Nat) := '
             + llist(f'({t.hour}, {t.minute}, {t.second}, {t.microsecond})'
                     for t in sorted(cron._SET24)))
    L.append(f'def rangeSeparators : List String := '
             f'{llist(lstr(s) for s in timeinterval._RANGE_SEPARATORS)}')
    L.append(f'def delimiter : String := {lstr(timeinterval._DELIMITER)}')
    L.append(f'def delimiterLegacy : String := {lstr(timeinterval._DELIMITER_LEGACY)}')
    L.append(f'def dummyYear : Nat := {timeinterval._DUMMY_YEAR}')
    ext_default = inspect.signature(block.ExtEvent.__init__).parameters['source'].default
    L.append(f'def extPrefix : String := {lstr(ext_default)}')
    L.append('')
    L.extend(fsm_table(fsms.Timer, 'timer'))
    L.append('')
    L.extend(fsm_table(sblocks2.InputExp, 'inputExp'))
    L.append('')
    L.append('/-- event handler tables: (event, required kwargs, optional kwargs, accepts **kwargs) -/')
    for cls, name in (
            (sblocks1.Counter, 'counter'), (sblocks1.ControlBlock, 'controlBlock'),
            (sblocks2.Input, 'input'), (sblocks2.OutputFunc, 'outputFunc'),
            (sblocks2.OutputAsync, 'outputAsync'), (timedate.TimeDate, 'timeDate'),
            (timedate.TimeSpan, 'timeSpan'), (cron.Cron, 'cron'),
            (sblocks1.Repeat, 'repeat'), (fsms.Timer, 'timerBlk')):
        L.append(f'def {name}Handlers : List (String × List String × List String × Bool) := '
                 + handler_table(cls))
    L.extend(interval_tables())
    L.append('')
    L.extend(filters_tables())
    L.extend(duration_regexes())
    L.append('')
    L.append('end Edzed.Gen')
    text = '\n'.join(L) + '\n'
    try:
        with open(outfile, encoding='utf-8') as f:
            if f.read() == text:
                return
    except FileNotFoundError:
        pass
    tmp = outfile + '.tmp'
    with open(tmp, 'w', encoding='utf-8') as f:
        f.write(text)
    os.replace(tmp, outfile)


if __name__ == '__main__':
    main(sys.argv[1])
