#!/venv/bin/python
"""
Translator (second generated part of the tie): regenerate lean/EdzedModel/Gen/Translated.lean from the
CURRENT source of a handful of small pure functions of edzed.

For each target the Python AST of the function (or lambda) is translated, statement by statement and
expression by expression, into a Lean definition in `namespace Edzed.Gen.Tr`.  The property files state
theorems `translated_…` saying that the translated definition IS the hand-written model's definition
(closed by `rfl` / `funext` / `decide`), so a semantic change of the Python function changes the generated
Lean text and breaks a proof obligation of the property that owns the function.

Supported Python subset (anything else: the translator fails, which the checks treat as a broken tie):
  statements   return, assignment to a local name, if/else with early returns, expression statements that
               are docstrings or calls in the target's `ignore` list (side effects outside the value computed)
  expressions  names, `self._attr`, declared subscripts/attributes (data['value'], self._in.override …),
               constants, comparison chains (< <= > >= == is / is not with UNDEF or None), and / or / not,
               conditional expressions, + - * / %, bool(x), x.startswith("lit"), "lit" + x,
               sum(1 for v in xs if v)
Types: ord (an abstract totally ordered type, comparisons go through the parameters lt/le), val (Edzed.Val),
bool, rat, optrat (Optional number), optx (any Optional), str, vals (List Val).

Further schemes in this file: TrEdit (filters.DataEdit), TrAct (order of actions of set_output / eval_block /
Circuit.abort / init_from_persistent_data), TrSend (ExtEvent.send); in tools/py2lean_dispatch.py: TrProg (control flow of
SBlock.event and Event.send as programs in a state + exception + early-return monad, property C11);
tools/py2lean_fsm.py translates the control flow of `FSM._ctx_event` into a program over named primitives
(Gen/TranslatedFsm.lean, tie theorems in EdzedProps/C04.lean `TrTie`); tools/py2lean_sig.py: CBlock.check_signature (C15).
The simulator's main loop `Circuit._simulate` (with its inner `select_blk`) has a generator of its own,
tools/py2lean_sim.py (statement-by-statement translation of one pass through `while True:` into a step
function over the loop's locals, primitives as parameters) -> Gen/TranslatedSimulate.lean.

Usage: py2lean.py <output file>
"""
import ast
import inspect
import os
import sys
import textwrap

SRC = os.environ.get('EDZED_SRC', '/repo')
sys.path.insert(0, SRC)

import edzed                                                    # noqa: E402
from edzed import block, simulator                              # noqa: E402
from edzed.blocklib import cblocks, filters, sblocks1, timeinterval     # noqa: E402

assert os.path.realpath(edzed.__file__).startswith(os.path.realpath(SRC)), (edzed.__file__, SRC)


class Untranslatable(Exception):
    pass


LEAN_TYPE = {'ord': 'α', 'val': 'Val', 'bool': 'Bool', 'rat': 'Rat', 'optrat': 'Option Rat',
             'optx': 'Option Unit', 'str': 'String', 'vals': 'List Val', 'nat': 'Nat', 'data': 'Data',
             'strs': 'List String'}


def node_path(node):
    """textual access path of Name / Attribute / Subscript chains, e.g. self._in['_'][0]"""
    if isinstance(node, ast.Name):
        return node.id
    if isinstance(node, ast.Attribute):
        return node_path(node.value) + '.' + node.attr
    if isinstance(node, ast.Subscript):
        key = node.slice
        if isinstance(key, ast.Constant):
            return node_path(node.value) + '[' + repr(key.value) + ']'
        if isinstance(key, (ast.Name, ast.Attribute)):
            return node_path(node.value) + '[' + node_path(key) + ']'
    raise Untranslatable(ast.dump(node))


class Tr:
    def __init__(self, target):
        self.t = target
        self.names = dict(target['names'])          # python name / access path -> (lean name, type)

    # ---- access paths -------------------------------------------------------------
    def path(self, node):
        return node_path(node)

    # ---- expressions --------------------------------------------------------------
    def truthy(self, text, typ):
        if typ == 'bool':
            return text
        if typ == 'val':
            return f'({text}).truthy'
        if typ == 'rat':
            return f'(({text}) != 0)'
        if typ == 'nat':
            return f'(({text}) != 0)'
        raise Untranslatable(f'truthiness of {typ}')

    def expr(self, node, env):
        atoms = self.t.get('atoms')
        if atoms:
            txt = ast.unparse(node)
            if txt in atoms:
                return atoms[txt]
        if isinstance(node, (ast.Name, ast.Attribute, ast.Subscript)):
            try:
                p = self.path(node)
            except Untranslatable:
                p = None
            if p is not None and p in env:
                if env[p][1] == 'opaque':
                    raise Untranslatable(f'use of the opaque value {p}')
                return env[p]
            if p == 'block.UNDEF':
                return ('Val.undef', 'val')
            raise Untranslatable(f'unknown name {p or ast.dump(node)}')
        if isinstance(node, ast.Constant):
            v = node.value
            if v is True:
                return ('true', 'bool')
            if v is False:
                return ('false', 'bool')
            if isinstance(v, int):
                return (f'({v} : Rat)', 'rat')
            if isinstance(v, float) and v == int(v):
                return (f'({int(v)} : Rat)', 'rat')
            if isinstance(v, str):
                return ('"' + v.replace('\\', '\\\\').replace('"', '\\"') + '"', 'str')
            raise Untranslatable(f'constant {v!r}')
        if isinstance(node, ast.UnaryOp) and isinstance(node.op, ast.Not):
            t, ty = self.expr(node.operand, env)
            return (f'(!{self.truthy(t, ty)})', 'bool')
        if isinstance(node, ast.BoolOp):
            parts = [self.expr(v, env) for v in node.values]
            if not all(ty == 'bool' for _, ty in parts):
                raise Untranslatable('and/or over non-bool operands')
            op = ' && ' if isinstance(node.op, ast.And) else ' || '
            return ('(' + op.join(t for t, _ in parts) + ')', 'bool')
        if isinstance(node, ast.IfExp):
            nar = self.narrowing(node.test, env)
            if nar is not None:
                # `a if X is None else b`: in the branch where X is not None it is a plain number
                opt, inner, env_some, none_first = nar
                a, aty = self.expr(node.body, env if none_first else env_some)
                b, bty = self.expr(node.orelse, env_some if none_first else env)
                if aty != bty:
                    raise Untranslatable(f'conditional expression of types {aty}/{bty}')
                n_, s_ = (a, b) if none_first else (b, a)
                return (f'(match {opt} with | none => {n_} | some {inner} => {s_})', aty)
            c, cty = self.expr(node.test, env)
            a, aty = self.expr(node.body, env)
            b, bty = self.expr(node.orelse, env)
            if aty != bty:
                raise Untranslatable(f'conditional expression of types {aty}/{bty}')
            return (f'(if {self.truthy(c, cty)} then {a} else {b})', aty)
        if isinstance(node, ast.Compare):
            left = node.left
            out = []
            for op, right in zip(node.ops, node.comparators):
                out.append(self.compare(left, op, right, env))
                left = right
            return (out[0] if len(out) == 1 else '(' + ' && '.join(out) + ')', 'bool')
        if isinstance(node, ast.BinOp):
            a, aty = self.expr(node.left, env)
            b, bty = self.expr(node.right, env)
            if aty == bty == 'rat':
                if isinstance(node.op, ast.Mod):
                    return (f'(pyMod {a} {b})', 'rat')
                sym = {ast.Add: '+', ast.Sub: '-', ast.Mult: '*', ast.Div: '/'}.get(type(node.op))
                if sym:
                    return (f'({a} {sym} {b})', 'rat')
            if aty == bty == 'nat':
                sym = {ast.Add: '+', ast.Mult: '*'}.get(type(node.op))
                if sym:
                    return (f'({a} {sym} {b})', 'nat')
            if aty == 'nat' and bty == 'rat' and isinstance(node.op, ast.Mod) and isinstance(node.right, ast.Constant):
                return (f'({a} % {node.right.value})', 'nat')
            if aty == bty == 'str' and isinstance(node.op, ast.Add):
                return (f'({a} ++ {b})', 'str')
            raise Untranslatable(f'binary {type(node.op).__name__} on {aty}, {bty}')
        if isinstance(node, ast.Call):
            f = node.func
            if isinstance(f, ast.Name) and f.id == 'bool' and len(node.args) == 1:
                t, ty = self.expr(node.args[0], env)
                return (self.truthy(t, ty), 'bool')
            if (isinstance(f, ast.Attribute) and f.attr == 'startswith' and len(node.args) == 1
                    and isinstance(node.args[0], ast.Constant)):
                t, ty = self.expr(f.value, env)
                if ty == 'str':
                    lit = node.args[0].value
                    return (f'(List.isPrefixOf {chars(lit)} ({t}).toList)', 'bool')
            if (isinstance(f, ast.Name) and f.id == 'sum' and len(node.args) == 1
                    and isinstance(node.args[0], ast.GeneratorExp)):
                g = node.args[0]
                if (isinstance(g.elt, ast.Constant) and g.elt.value == 1 and len(g.generators) == 1):
                    gen = g.generators[0]
                    xs, xty = self.expr(gen.iter, env)
                    if (xty == 'vals' and isinstance(gen.target, ast.Name) and len(gen.ifs) == 1
                            and isinstance(gen.ifs[0], ast.Name) and gen.ifs[0].id == gen.target.id):
                        return (f'(({xs}).filter Val.truthy).length', 'nat')
            if isinstance(f, ast.Name) and f.id in ('all', 'any') and len(node.args) == 1 and not node.keywords:
                xs, xty = self.expr(node.args[0], env)
                if xty == 'vals':
                    return (f'(({xs}).{f.id} Val.truthy)', 'bool')
            if isinstance(f, ast.Name) and f.id == 'len' and len(node.args) == 1:
                key = 'len(' + self.path(node.args[0]) + ')'
                if key in env:
                    return env[key]
            if (isinstance(f, ast.Attribute) and f.attr == 'get' and len(node.args) == 2
                    and isinstance(node.args[0], ast.Constant) and isinstance(node.args[0].value, str)):
                t, ty = self.expr(f.value, env)
                dflt, dty = self.expr(node.args[1], env)
                if ty == 'data' and dty == 'val':
                    return (f'((Data.get? {t} "{node.args[0].value}").getD {dflt})', 'val')
            try:
                fpath = self.path(f)
            except Untranslatable:
                fpath = None
            calls = self.t.get('calls', {})
            if fpath in calls and not node.keywords:
                lean, rty, atys = calls[fpath]
                args = [self.expr(a, env) for a in node.args]
                if [ty for _, ty in args] == list(atys):
                    return ('(' + lean + ''.join(' ' + t for t, _ in args) + ')', rty)
            raise Untranslatable('call ' + ast.dump(node)[:120])
        raise Untranslatable(ast.dump(node)[:120])

    def narrowing(self, test, env):
        """`X is None` / `X is not None` on an optional number -> (lean opt, inner name, env with X : rat,
        True if the test is `is None`)"""
        if (isinstance(test, ast.Compare) and len(test.ops) == 1 and isinstance(test.ops[0], (ast.Is, ast.IsNot))
                and isinstance(test.comparators[0], ast.Constant) and test.comparators[0].value is None):
            try:
                p = self.path(test.left)
            except Untranslatable:
                return None
            if p in env and env[p][1] == 'optrat':
                inner = env[p][0] + 'V'
                env_some = dict(env)
                env_some[p] = (inner, 'rat')
                return env[p][0], inner, env_some, isinstance(test.ops[0], ast.Is)
        return None

    def compare(self, left, op, right, env):
        # identity tests with the two singletons
        if isinstance(op, (ast.Is, ast.IsNot)):
            neg = isinstance(op, ast.IsNot)
            if isinstance(right, ast.Constant) and right.value is None:
                t, ty = self.expr(left, env)
                if ty in ('optrat', 'optx'):
                    return f'({t}).isSome' if neg else f'({t}).isNone'
                raise Untranslatable(f'is None on {ty}')
            t, ty = self.expr(left, env)
            r, rty = self.expr(right, env)
            if r == 'Val.undef' and ty == 'val':
                return f'(!({t}).isUndef)' if neg else f'({t}).isUndef'
            raise Untranslatable('identity test')
        a, aty = self.expr(left, env)
        b, bty = self.expr(right, env)
        if aty == bty == 'ord':
            return {ast.Lt: f'lt {a} {b}', ast.LtE: f'le {a} {b}', ast.Gt: f'lt {b} {a}',
                    ast.GtE: f'le {b} {a}'}[type(op)]
        if aty == bty == 'rat':
            return {ast.Lt: f'decide ({a} < {b})', ast.LtE: f'decide ({a} ≤ {b})', ast.Gt: f'decide ({b} < {a})',
                    ast.GtE: f'decide ({b} ≤ {a})', ast.Eq: f'({a} == {b})'}[type(op)]
        if aty == bty == 'val' and isinstance(op, ast.Eq):
            return f'Val.pyEq {a} {b}'
        if aty == 'optrat' and bty == 'rat' and isinstance(op, ast.Eq):
            return f'({a} == some {b})'        # None == number is False
        if aty == bty == 'nat':
            return {ast.Lt: f'decide ({a} < {b})', ast.LtE: f'decide ({a} ≤ {b})', ast.Gt: f'decide ({b} < {a})',
                    ast.GtE: f'decide ({b} ≤ {a})', ast.Eq: f'({a} == {b})'}[type(op)]
        raise Untranslatable(f'comparison {type(op).__name__} on {aty}, {bty}')

    # ---- statements ---------------------------------------------------------------
    def block(self, stmts, env, indent):
        """translate a statement list that must end in a return on every path"""
        pad = '  ' * indent
        if not stmts:
            raise Untranslatable('a path without return')
        s, rest = stmts[0], stmts[1:]
        if isinstance(s, ast.Expr):
            if isinstance(s.value, ast.Constant) and isinstance(s.value.value, str):
                return self.block(rest, env, indent)            # docstring
            if isinstance(s.value, ast.Call):
                f = s.value.func
                name = f.attr if isinstance(f, ast.Attribute) else getattr(f, 'id', None)
                if name in self.t.get('ignore', ()):
                    return self.block(rest, env, indent)
            raise Untranslatable('statement ' + ast.dump(s)[:100])
        if isinstance(s, ast.Return):
            t, ty = self.expr(s.value, env)
            self.rtypes.add(ty)
            return pad + t
        if isinstance(s, ast.Assign) and len(s.targets) == 1 and isinstance(s.targets[0], ast.Name):
            t, ty = self.expr(s.value, env)
            name = s.targets[0].id
            lean = name + "'" if name in [v[0] for v in env.values()] else name
            env2 = dict(env)
            env2[name] = (lean, ty)
            return f'{pad}let {lean} : {LEAN_TYPE.get(ty, "Nat")} := {t}\n' + self.block(rest, env2, indent)
        if isinstance(s, ast.If):
            c, cty = self.expr(s.test, env)
            then_ = self.block(trim(s.body) + ([] if returns(s.body) else rest), env, indent + 1)
            # assignments inside a branch are visible after it only if both branches assign: handled by
            # translating `rest` inside each branch with that branch's environment
            else_ = self.block(trim(s.orelse) + ([] if returns(s.orelse) else rest), env, indent + 1) \
                if (s.orelse or rest) else None
            if else_ is None:
                raise Untranslatable('if without else on a path without return')
            return f'{pad}if {self.truthy(c, cty)} then\n{then_}\n{pad}else\n{else_}'
        raise Untranslatable('statement ' + ast.dump(s)[:100])

    def branch_env(self, stmts, env):
        return env

    def function(self, fn_node):
        self.rtypes = set()
        env = dict(self.names)
        if isinstance(fn_node, ast.Lambda):
            t, ty = self.expr(fn_node.body, env)
            self.rtypes.add(ty)
            body = '  ' + t
        else:
            for arg, dflt in zip(fn_node.args.kwonlyargs, fn_node.args.kw_defaults):
                spec = self.t.get('defaults', {}).get(arg.arg)
                if spec is not None:
                    if dflt is None:
                        raise Untranslatable(f'{arg.arg}: no default in the signature')
                    d, dty = self.expr(dflt, env)
                    if dty != 'rat':
                        raise Untranslatable(f'default of {arg.arg}: {dty}')
                    env[arg.arg] = (f'({spec}.getD {d})', 'rat')
                elif arg.arg in self.t.get('required', ()) and dflt is not None:
                    raise Untranslatable(f'{arg.arg}: is no longer a required argument')
            body = self.block_with_assign_merge(fn_node.body, env)
        if len(self.rtypes) != 1:
            raise Untranslatable(f'return types {self.rtypes}')
        return body, self.rtypes.pop()

    def block_with_assign_merge(self, stmts, env):
        """`if c: x = a  else: x = b` followed by code using x  ==>  both branches continue with the rest
        (the generic rule of `block`), so nothing special is needed; kept as a hook"""
        return self.block(stmts, env, 1)


class TrEdit:
    """
    Second translation scheme: the edit functions that the `DataEdit` operations append to `_editlist`
    (an inner `def _edit(data)` or a `lambda data: …`).  The mapping `data` is threaded through the
    statements; the result is `Except Filters.Stop Data`: `.ok d` = the mapping returned, `.error .reject` =
    `None` returned (also by falling off the end), `.error (.raise .keyError)` = a failed lookup / `del`.

    statements   data[K] = data[K2] | data[K] = <value name> | NAME = data[K] | NAME = func(NAME) (the user's
                 function, modelled as `Val → ModRes`) | del data[K] | data.pop(K, None) | return data |
                 return None | if T: … else: … | for NAME in <strs name> / list(data): …
    tests        NAME not in <strs name> | NAME in <strs name> | NAME is self.REJECT | NAME is self.DELETE
    expressions  {**M, **M2} | {**M, K: V} | {K: V, **M}  (M: a mapping name, V: a value name)
    """
    KEYERR = '.error (.raise .keyError)'

    def __init__(self, target):
        self.t = target
        self.env = dict(target['names'])        # python name/path -> (lean, type)
        self.fresh = 0

    def path(self, node):
        return node_path(node)

    def name_of(self, node, types):
        p = self.path(node)
        if p in self.env and self.env[p][1] in types:
            return self.env[p]
        raise Untranslatable(f'{p}: expected one of {types}')

    def key(self, node):
        if isinstance(node, ast.Constant) and isinstance(node.value, str):
            return '"' + node.value + '"'
        return self.name_of(node, ('str',))[0]

    def value(self, node):
        t, ty = self.name_of(node, ('val', 'modres'))
        return f'(mrVal {t})' if ty == 'modres' else t

    def is_data_sub(self, node):
        return (isinstance(node, ast.Subscript) and isinstance(node.value, ast.Name) and node.value.id == 'data')

    def display(self, node):
        """dict display -> Data expression"""
        acc = None
        for k, v in zip(node.keys, node.values):
            if k is None:                   # **mapping
                m = self.name_of(v, ('data',))[0]
                acc = m if acc is None else f'(Filters.update {acc} {m})'
            else:
                acc = f'(Data.set {acc if acc is not None else "([] : Data)"} {self.key(k)} {self.value(v)})'
        if acc is None:
            acc = '([] : Data)'
        return acc

    def test(self, node):
        if isinstance(node, ast.Compare) and len(node.ops) == 1:
            op, right = node.ops[0], node.comparators[0]
            if isinstance(op, (ast.In, ast.NotIn)):
                k = self.key(node.left)
                xs = self.name_of(right, ('strs',))[0]
                return f'(!({xs}).contains {k})' if isinstance(op, ast.NotIn) else f'({xs}).contains {k}'
            if isinstance(op, (ast.Is, ast.IsNot)):
                r = self.name_of(node.left, ('modres',))[0]
                which = {'self.REJECT': 'mrIsReject', 'self.DELETE': 'mrIsDelete'}.get(self.path(right))
                if which:
                    return f'(!{which} {r})' if isinstance(op, ast.IsNot) else f'{which} {r}'
        raise Untranslatable('test ' + ast.dump(node)[:120])

    def block(self, stmts, fall, ind):
        """`fall`: the Lean term for leaving the statement list at its end"""
        pad = '  ' * ind
        if not stmts:
            return pad + fall
        s, rest = stmts[0], stmts[1:]
        if isinstance(s, ast.Expr) and isinstance(s.value, ast.Constant) and isinstance(s.value.value, str):
            return self.block(rest, fall, ind)
        if isinstance(s, ast.Return):
            v = s.value
            if v is None or (isinstance(v, ast.Constant) and v.value is None):
                return pad + '.error .reject'
            if isinstance(v, ast.Name) and v.id == 'data':
                return pad + '.ok data'
            if isinstance(v, ast.Dict):
                return pad + '.ok ' + self.display(v)
            raise Untranslatable('return ' + ast.dump(v)[:100])
        if isinstance(s, ast.Assign) and len(s.targets) == 1:
            tgt, val = s.targets[0], s.value
            if self.is_data_sub(tgt):
                k = self.key(tgt.slice)
                if self.is_data_sub(val):
                    k2 = self.key(val.slice)
                    self.fresh += 1
                    v = f'v{self.fresh}'
                    return (f'{pad}match Data.get? data {k2} with\n{pad}| none => {self.KEYERR}\n'
                            f'{pad}| some {v} =>\n{pad}  let data : Data := Data.set data {k} {v}\n'
                            + self.block(rest, fall, ind + 1))
                return f'{pad}let data : Data := Data.set data {k} {self.value(val)}\n' + self.block(rest, fall, ind)
            if isinstance(tgt, ast.Name):
                if self.is_data_sub(val):
                    k2 = self.key(val.slice)
                    self.env[tgt.id] = (tgt.id, 'val')
                    return (f'{pad}match Data.get? data {k2} with\n{pad}| none => {self.KEYERR}\n'
                            f'{pad}| some {tgt.id} =>\n' + self.block(rest, fall, ind + 1))
                if (isinstance(val, ast.Call) and len(val.args) == 1 and not val.keywords
                        and self.env.get(self.path(val.func), (None, None))[1] == 'modfunc'):
                    f = self.env[self.path(val.func)][0]
                    a = self.name_of(val.args[0], ('val',))[0]
                    self.env[tgt.id] = (tgt.id, 'modres')
                    return (f'{pad}match {f} {a} with\n{pad}| .raise e => .error (.raise e)\n'
                            f'{pad}| {tgt.id} =>\n' + self.block(rest, fall, ind + 1))
            raise Untranslatable('assignment ' + ast.dump(s)[:120])
        if isinstance(s, ast.Delete) and len(s.targets) == 1 and self.is_data_sub(s.targets[0]):
            k = self.key(s.targets[0].slice)
            return (f'{pad}if Data.has data {k} then\n{pad}  let data : Data := Data.erase data {k}\n'
                    + self.block(rest, fall, ind + 1) + f'\n{pad}else {self.KEYERR}')
        if (isinstance(s, ast.Expr) and isinstance(s.value, ast.Call) and isinstance(s.value.func, ast.Attribute)
                and s.value.func.attr == 'pop' and self.path(s.value.func.value) == 'data'
                and len(s.value.args) == 2 and isinstance(s.value.args[1], ast.Constant)
                and s.value.args[1].value is None):
            k = self.key(s.value.args[0])
            return f'{pad}let data : Data := Data.erase data {k}\n' + self.block(rest, fall, ind)
        if isinstance(s, ast.If):
            c = self.test(s.test)
            then_ = self.block(list(s.body) + ([] if returns(s.body) else rest), fall, ind + 1)
            else_ = self.block(list(s.orelse) + ([] if returns(s.orelse) else rest), fall, ind + 1)
            return f'{pad}if {c} then\n{then_}\n{pad}else\n{else_}'
        if isinstance(s, ast.For) and isinstance(s.target, ast.Name) and not s.orelse:
            it = s.iter
            if (isinstance(it, ast.Call) and getattr(it.func, 'id', None) == 'list' and len(it.args) == 1
                    and self.path(it.args[0]) == 'data'):
                xs = '(data.map (·.1))'             # a snapshot of the keys
            else:
                xs = self.name_of(it, ('strs',))[0]
            var = s.target.id
            self.env[var] = (var, 'str')
            body = self.block(list(s.body), '.ok data', ind + 2)
            return (f'{pad}match List.foldlM (m := Except Stop) (fun (data : Data) ({var} : String) =>\n{body}) data {xs} with\n'
                    f'{pad}| .error e => .error e\n{pad}| .ok data =>\n' + self.block(rest, fall, ind + 1))
        raise Untranslatable('statement ' + ast.dump(s)[:120])

    def function(self, node):
        if isinstance(node, ast.Lambda):
            if not isinstance(node.body, ast.Dict):
                raise Untranslatable('lambda body ' + ast.dump(node.body)[:100])
            return '  .ok ' + self.display(node.body)
        return self.block(list(node.body), '.error .reject', 1)


def pure_expr(node):
    """an expression whose evaluation has no effect and cannot raise for the objects of this code base:
    constants, names, attribute chains, `not`/`and`/`or`/comparisons of such, isinstance()/type(); an f-string
    whose fields are such expressions.  Everything the action translator IGNORES (arguments of logging calls,
    conditions of statements that only log) must be of this form: an eager `"…%s" % value`, a subscript, an
    arbitrary call inside an ignored construct could change the behaviour unnoticed."""
    if isinstance(node, ast.Constant):
        return True
    if isinstance(node, ast.Name):
        return True
    if isinstance(node, ast.Attribute):
        return pure_expr(node.value)
    if isinstance(node, ast.UnaryOp) and isinstance(node.op, ast.Not):
        return pure_expr(node.operand)
    if isinstance(node, ast.BoolOp):
        return all(pure_expr(v) for v in node.values)
    if isinstance(node, ast.Compare):
        return pure_expr(node.left) and all(pure_expr(c) for c in node.comparators)
    if isinstance(node, ast.IfExp):
        return pure_expr(node.test) and pure_expr(node.body) and pure_expr(node.orelse)
    if isinstance(node, ast.Call) and isinstance(node.func, ast.Name) and node.func.id in ('isinstance', 'type') \
            and not node.keywords:
        return all(pure_expr(a) for a in node.args)
    if isinstance(node, ast.JoinedStr):
        return all(isinstance(v, ast.Constant) or (isinstance(v, ast.FormattedValue) and pure_expr(v.value)
                                                   and v.format_spec is None) for v in node.values)
    if isinstance(node, ast.Tuple):
        return all(pure_expr(e) for e in node.elts)
    return False


def is_logging_call(call):
    """self.log_…(…) / _logger.…(…) with lazily formatted, pure arguments"""
    try:
        p = node_path(call.func)
    except Untranslatable:
        return False
    if not (p.startswith('self.log_') or p.startswith('_logger.') or p.startswith('source.log_')):
        return False
    if not all(pure_expr(a) for a in call.args) or not all(pure_expr(k.value) for k in call.keywords):
        raise Untranslatable('a logging call with an argument that is evaluated eagerly: ' + ast.unparse(call)[:100])
    return True


class TrAct(Tr):
    """
    Third translation scheme: the ORDER OF ACTIONS of `SBlock.set_output` / `CBlock.eval_block`.
    The method becomes a function returning the list of primitive actions it performs, in order
    (`Gen.TrO.Prim`): raise, store the output, queue the block for the simulator, send the events of a slot
    with given `previous`/`value`, return.  Conditions are translated by the expression translator of `Tr`.

    statements   if/else | NAME = <expr> | raise Exc(…) | return [True/False] | self._output = <val expr> |
                 self.circuit.sblock_queue.put_nowait(self) |
                 for event in self._<slot>_events: event.send(self, trigger='output', previous=<e>, value=<e>) |
                 self.log_debug(…) (ignored)
    """
    SLOTS = {'self._output_events': '.output', 'self._every_output_events': '.every'}

    def truthy(self, text, typ):
        if typ == 'evs':
            return f'(!({text}).isEmpty)'       # a tuple is true iff it is not empty
        return Tr.truthy(self, text, typ)

    def acts(self, stmts, env, ind):
        pad = '  ' * ind
        if not stmts:
            return pad + '[]'               # falling off the end = `return None`
        s, rest = stmts[0], stmts[1:]
        if isinstance(s, ast.Expr):
            if isinstance(s.value, ast.Constant) and isinstance(s.value.value, str):
                return self.acts(rest, env, ind)
            if isinstance(s.value, ast.Call):
                p = self.path(s.value.func)
                if is_logging_call(s.value):
                    return self.acts(rest, env, ind)
                if (p == 'self.circuit.sblock_queue.put_nowait' and len(s.value.args) == 1
                        and self.path(s.value.args[0]) == 'self' and not s.value.keywords):
                    return f'{pad}Prim.enqueue ::\n' + self.acts(rest, env, ind)
                if p in self.t.get('prims', {}):
                    return f"{pad}Prim.{self.t['prims'][p]} ::\n" + self.acts(rest, env, ind)
            raise Untranslatable('statement ' + ast.dump(s)[:120])
        if isinstance(s, ast.Assert):
            return self.acts(rest, env, ind)
        if isinstance(s, ast.Try) and not s.orelse and not s.finalbody:
            fall = self.t.get('fallible', {})
            if (len(s.body) == 1 and isinstance(s.body[0], ast.Assign) and len(s.body[0].targets) == 1
                    and isinstance(s.body[0].targets[0], ast.Name)):
                try:
                    src = self.path(s.body[0].value)
                except Untranslatable:
                    src = None
                if src in fall:
                    # try: NAME = <a lookup that may fail>  except E1: …  except E2: …
                    param, ctors, found = fall[src]
                    arms, seen = [], []
                    for h in s.handlers:
                        exc = getattr(h.type, 'id', None)
                        if exc not in ctors:
                            raise Untranslatable(f'handler for {exc}')
                        seen.append(exc)
                        body = list(h.body) + ([] if self.ends(h.body) else rest)
                        arms.append(f'{pad}| .{ctors[exc]} =>\n' + self.acts(body, env, ind + 1))
                    if seen != list(ctors):
                        raise Untranslatable(f'handlers {seen}, expected {list(ctors)}')
                    env2 = dict(env)
                    env2[s.body[0].targets[0].id] = (s.body[0].targets[0].id, 'opaque')
                    arms.append(f'{pad}| .{found} =>\n' + self.acts(rest, env2, ind + 1))
                    return f'{pad}match {param} with\n' + '\n'.join(arms)
            # try: <statements>  except Exception as err: <only logging>   (errors are suppressed)
            if (len(s.handlers) == 1 and getattr(s.handlers[0].type, 'id', None) == 'Exception'
                    and self.only_logging(s.handlers[0].body)):
                return self.acts(list(s.body) + rest, env, ind)
            raise Untranslatable('try ' + ast.dump(s)[:160])
        if isinstance(s, ast.Raise):
            if isinstance(s.exc, ast.Call) and isinstance(s.exc.func, ast.Name):
                return f'{pad}[Prim.raise "{s.exc.func.id}"]'
            raise Untranslatable('raise ' + ast.dump(s)[:100])
        if isinstance(s, ast.Return):
            if s.value is None:
                return pad + '[Prim.ret none]'
            if isinstance(s.value, ast.Constant) and isinstance(s.value.value, bool):
                return pad + f'[Prim.ret (some {"true" if s.value.value else "false"})]'
            raise Untranslatable('return ' + ast.dump(s.value)[:100])
        if isinstance(s, ast.Assign) and len(s.targets) == 1:
            tgt = s.targets[0]
            if isinstance(tgt, ast.Name):
                env2 = dict(env)
                try:
                    t, ty = self.expr(s.value, env)
                except Untranslatable:
                    # a value the translator does not understand: the name becomes opaque, any later use of
                    # it in a translated expression is an error (uses in ignored logging calls are fine)
                    env2[tgt.id] = (tgt.id, 'opaque')
                    return self.acts(rest, env2, ind)
                env2[tgt.id] = (tgt.id, ty)
                return f'{pad}let {tgt.id} : {LEAN_TYPE[ty]} := {t}\n' + self.acts(rest, env2, ind)
            if self.path(tgt) in self.t.get('assign_prims', {}):
                return f"{pad}Prim.{self.t['assign_prims'][self.path(tgt)]} ::\n" + self.acts(rest, env, ind)
            if self.path(tgt) == 'self._output':
                t, ty = self.expr(s.value, env)
                if ty != 'val':
                    raise Untranslatable('self._output = <' + ty + '>')
                return f'{pad}Prim.store {t} ::\n' + self.acts(rest, env, ind)
            raise Untranslatable('assignment ' + ast.dump(s)[:120])
        if isinstance(s, ast.If) and self.only_logging(s.body) and self.only_logging(s.orelse):
            if not pure_expr(s.test):
                raise Untranslatable('condition of a logging-only statement: ' + ast.unparse(s.test)[:100])
            return self.acts(rest, env, ind)        # whatever the (pure) condition: nothing but log messages
        if (isinstance(s, ast.If) and isinstance(s.test, ast.BoolOp) and isinstance(s.test.op, ast.And)
                and self.narrow_stmt(s.test.values[0], env) is not None):
            # `if X is not None and B: body else: orelse`  ==  `if X is not None: (if B: body else: orelse) else: orelse`
            others = s.test.values[1:]
            inner_test = others[0] if len(others) == 1 else ast.BoolOp(op=ast.And(), values=others)
            inner = ast.If(test=inner_test, body=s.body, orelse=s.orelse)
            s = ast.If(test=s.test.values[0], body=[inner], orelse=s.orelse)
        if isinstance(s, ast.If):
            nar = self.narrow_stmt(s.test, env)
            if nar is not None:
                opt, inner, env_some, none_first = nar
                some_body, none_body = (s.orelse, s.body) if none_first else (s.body, s.orelse)
                some_ = self.acts(list(some_body) + ([] if self.ends(some_body) else rest), env_some, ind + 1)
                none_ = self.acts(list(none_body) + ([] if self.ends(none_body) else rest), env, ind + 1)
                return (f'{pad}match {opt} with\n{pad}| none =>\n{none_}\n{pad}| some {inner} =>\n{some_}')
            c, cty = self.expr(s.test, env)
            then_ = self.acts(list(s.body) + ([] if self.ends(s.body) else rest), env, ind + 1)
            else_ = self.acts(list(s.orelse) + ([] if self.ends(s.orelse) else rest), env, ind + 1)
            return f'{pad}if {self.truthy(c, cty)} then\n{then_}\n{pad}else\n{else_}'
        if isinstance(s, ast.For) and not s.orelse and isinstance(s.target, ast.Name):
            slot = self.SLOTS.get(self.path(s.iter))
            var = s.target.id
            if slot and len(s.body) == 1 and isinstance(s.body[0], ast.Expr) and isinstance(s.body[0].value, ast.Call):
                call = s.body[0].value
                kws = {k.arg: k.value for k in call.keywords}
                if (self.path(call.func) == var + '.send' and len(call.args) == 1 and self.path(call.args[0]) == 'self'
                        and set(kws) == {'trigger', 'previous', 'value'}
                        and isinstance(kws['trigger'], ast.Constant) and kws['trigger'].value == 'output'):
                    pv, pty = self.expr(kws['previous'], env)
                    vv, vty = self.expr(kws['value'], env)
                    if pty == vty == 'val':
                        return f'{pad}Prim.send {slot} {pv} {vv} ::\n' + self.acts(rest, env, ind)
            raise Untranslatable('loop ' + ast.dump(s)[:160])
        raise Untranslatable('statement ' + ast.dump(s)[:120])

    def only_logging(self, stmts):
        return all(isinstance(h, ast.Expr) and isinstance(h.value, ast.Call) and is_logging_call(h.value)
                   for h in stmts)

    def narrow_stmt(self, test, env):
        """`PATH is [not] None` or `(NAME := PATH) is [not] None` with PATH an optional number"""
        if (isinstance(test, ast.Compare) and len(test.ops) == 1 and isinstance(test.ops[0], (ast.Is, ast.IsNot))
                and isinstance(test.comparators[0], ast.Constant) and test.comparators[0].value is None):
            left, bind = test.left, None
            if isinstance(left, ast.NamedExpr):
                bind, left = left.target.id, left.value
            try:
                p = self.path(left)
            except Untranslatable:
                return None
            if p in env and env[p][1] == 'optrat':
                inner = bind or (env[p][0] + 'V')
                env_some = dict(env)
                env_some[bind or p] = (inner, 'rat')
                return env[p][0], inner, env_some, isinstance(test.ops[0], ast.Is)
        return None

    def ends(self, stmts):
        """does every path through the list end in return/raise?"""
        for s in stmts:
            if isinstance(s, (ast.Return, ast.Raise)):
                return True
            if isinstance(s, ast.If) and s.orelse and self.ends(s.body) and self.ends(s.orelse):
                return True
        return False


def act_targets():
    return [
        dict(name='setOutputActs', doc='block.SBlock.set_output', node=lambda: fn_ast(block.SBlock.set_output),
             params=[('own', 'Val'), ('value', 'Val'), ('every', 'List Output.Ev')],
             names={'self._output': ('own', 'val'), 'value': ('value', 'val'), 'UNDEF': ('Val.undef', 'val'),
                    'self._every_output_events': ('every', 'evs')}),
        dict(name='evalBlockActs', doc='block.CBlock.eval_block (`computed`: what calc_output() returned)',
             node=lambda: fn_ast(block.CBlock.eval_block),
             params=[('own', 'Val'), ('computed', 'Val')],
             names={'self._output': ('own', 'val'), 'UNDEF': ('Val.undef', 'val')},
             calls={'self.calc_output': ('computed', 'val', [])}),
    ]


def persist_targets():
    from edzed import addons
    return [
        dict(name='restoreActs', doc='addons.AddonPersistence.init_from_persistent_data',
             node=lambda: fn_ast(addons.AddonPersistence.init_from_persistent_data),
             params=[('lookup', 'Lookup'), ('expiration', 'Option Rat'), ('ts', 'Option Rat'), ('now', 'Rat')],
             names={'self.expiration': ('expiration', 'optrat'), 'self.circuit.persistent_ts': ('ts', 'optrat')},
             calls={'time.time': ('now', 'rat', [])},
             fallible={'self.circuit.persistent_dict[self.key]':
                       ('lookup', {'KeyError': 'missing', 'Exception': 'failed'}, 'found')},
             prims={'self._restore_state': 'restore'}),
    ]


def sim_targets():
    return [
        dict(name='abortActs', doc='simulator.Circuit.abort', node=lambda: fn_ast(simulator.Circuit.abort),
             params=[('error', 'Option Unit'), ('simtask', 'Option Unit'), ('taskDone', 'Bool')],
             names={'self._error': ('error', 'optx'), 'self._simtask': ('simtask', 'optx')},
             atoms={'self._simtask.done()': ('taskDone', 'bool'),
                    # an argument that is no exception is replaced by a TypeError: still an exception
                    'isinstance(exc, BaseException)': ('true', 'bool')},
             assign_prims={'self._error': 'setError'}, prims={'self._simtask.cancel': 'cancelTask'}),
    ]


def main_sim(outfile):
    L = ['/- GENERATED by tools/py2lean.py from the Python source of edzed (simulator.Circuit) -- do not edit -/',
         '', 'namespace Edzed.Gen.TrS', '',
         'inductive Prim where',
         '  | setError             -- `self._error = exc`',
         '  | cancelTask           -- `self._simtask.cancel()`',
         '  | ret (b : Option Bool)',
         '  deriving DecidableEq, Repr', '']

    def translate(t):
        tr = TrAct(t)
        body = tr.acts(list(t['node']().body), dict(tr.names), 1)
        params = ' '.join(f'({n} : {ty})' for n, ty in t['params'])
        return f"def {t['name']} {params} : List Prim :=\n{body}"

    for t in sim_targets():
        emit(L, t, translate, ': the primitive actions in program order')
    L.append('end Edzed.Gen.TrS')
    write_if_changed(outfile, '\n'.join(L) + '\n')


def main_persist(outfile):
    L = ['/- GENERATED by tools/py2lean.py from the Python source of edzed (addons.AddonPersistence) -- do not edit -/',
         '', 'namespace Edzed.Gen.TrP', '',
         '/-- `self.circuit.persistent_dict[self.key]` -/',
         'inductive Lookup where',
         '  | found | missing /- KeyError -/ | failed /- any other exception -/',
         '  deriving DecidableEq, Repr', '',
         'inductive Prim where',
         '  | restore              -- `self._restore_state(state)` (its errors are logged and suppressed)',
         '  | ret (b : Option Bool)',
         '  deriving DecidableEq, Repr', '']

    def translate(t):
        tr = TrAct(t)
        body = tr.acts(list(t['node']().body), dict(tr.names), 1)
        params = ' '.join(f'({n} : {ty})' for n, ty in t['params'])
        return f"def {t['name']} {params} : List Prim :=\n{body}"

    for t in persist_targets():
        emit(L, t, translate, ': the primitive actions in program order')
    L.append('end Edzed.Gen.TrP')
    write_if_changed(outfile, '\n'.join(L) + '\n')


def main_acts(outfile):
    L = ['/- GENERATED by tools/py2lean.py from the Python source of edzed (set_output / eval_block) -- do not edit -/',
         'import EdzedModel.Output', '', 'namespace Edzed.Gen.TrO', 'open Edzed.Output', '',
         '/-- the primitive actions of an output assignment, in program order -/',
         'inductive Prim where',
         '  | raise (exc : String)',
         '  | store (v : Val)                            -- `self._output = v`',
         '  | enqueue                                    -- `self.circuit.sblock_queue.put_nowait(self)`',
         "  | send (slot : Slot) (previous value : Val)  -- `for event in <slot>: event.send(self, trigger='output', previous=…, value=…)`",
         '  | ret (b : Option Bool)                      -- `return`, `return True/False`',
         '  deriving Repr, Inhabited', '']

    def translate(t):
        tr = TrAct(t)
        body = tr.acts(list(t['node']().body), dict(tr.names), 1)
        params = ' '.join(f'({n} : {ty})' for n, ty in t['params'])
        return f"def {t['name']} {params} : List Prim :=\n{body}"

    for t in act_targets():
        emit(L, t, translate, ': the primitive actions in program order')
    L.append('end Edzed.Gen.TrO')
    write_if_changed(outfile, '\n'.join(L) + '\n')


class TrSend(TrEdit):
    """
    `ExtEvent.send`: the mapping-threading scheme of TrEdit plus
      if not <declared atom>: raise Exc(…)          ->  .error .<exc>
      if <val name> is not UNDEF: …                 ->  if !(v).isUndef then …
      try: NAME = data[K]  except KeyError: H  else: E
      if not isinstance(NAME, str): raise Exc(…)    ->  match strOf? NAME … (NAME is a string afterwards)
      if not <str expr>: …      data[K] = <str expr>      return self._dest.event(self._etype, **data)
    Result: `Except ExtErr Data` -- the data passed to the destination's `event()`.
    """
    EXC = {'EdzedInvalidState': '.invalidState', 'TypeError': '.typeError'}

    def sexpr(self, node):
        """string / bool expressions over the names known as strings"""
        tr = Tr({'names': {}})
        env = {k: v for k, v in self.env.items() if v[1] in ('str', 'bool')}
        return tr.expr(node, env)

    def raises(self, stmts):
        if len(stmts) == 1 and isinstance(stmts[0], ast.Raise) and isinstance(stmts[0].exc, ast.Call):
            return self.EXC.get(getattr(stmts[0].exc.func, 'id', None))
        return None

    def block(self, stmts, fall, ind):
        pad = '  ' * ind
        if not stmts:
            return pad + fall
        s, rest = stmts[0], stmts[1:]
        if isinstance(s, ast.If) and not s.orelse:
            exc = self.raises(s.body)
            t = s.test
            neg = isinstance(t, ast.UnaryOp) and isinstance(t.op, ast.Not)
            inner = t.operand if neg else t
            if exc and neg and ast.unparse(inner) in self.t.get('atoms', {}):
                a = self.t['atoms'][ast.unparse(inner)][0]
                return f'{pad}if !{a} then .error {exc} else\n' + self.block(rest, fall, ind)
            if (exc and neg and isinstance(inner, ast.Call) and getattr(inner.func, 'id', None) == 'isinstance'
                    and len(inner.args) == 2 and getattr(inner.args[1], 'id', None) == 'str'):
                name = self.name_of(inner.args[0], ('val',))[0]
                self.env[self.path(inner.args[0])] = (name + 'S', 'str')
                return (f'{pad}match strOf? {name} with\n{pad}| none => .error {exc}\n{pad}| some {name}S =>\n'
                        + self.block(rest, fall, ind + 1))
            if (isinstance(t, ast.Compare) and len(t.ops) == 1 and isinstance(t.ops[0], ast.IsNot)
                    and self.path(t.comparators[0]) == 'UNDEF'):
                v = self.name_of(t.left, ('val',))[0]
                return (f'{pad}let data : Data := if !({v}).isUndef then\n'
                        + self.block(list(s.body), 'data', ind + 2).replace('.ok data', 'data')
                        + f'\n{pad}  else data\n' + self.block(rest, fall, ind))
            if neg:
                c, cty = self.sexpr(inner)
                if cty == 'bool':
                    return (f'{pad}let data : Data := if !{c} then\n'
                            + self.block(list(s.body), 'data', ind + 2) + f'\n{pad}  else data\n'
                            + self.block(rest, fall, ind))
        if (isinstance(s, ast.Try) and len(s.body) == 1 and isinstance(s.body[0], ast.Assign)
                and isinstance(s.body[0].targets[0], ast.Name) and self.is_data_sub(s.body[0].value)
                and len(s.handlers) == 1 and getattr(s.handlers[0].type, 'id', None) == 'KeyError' and not s.finalbody):
            name = s.body[0].targets[0].id
            k = self.key(s.body[0].value.slice)
            none_ = self.block(list(s.handlers[0].body) + rest, fall, ind + 1)
            self.env[name] = (name, 'val')
            some_ = self.block(list(s.orelse) + rest, fall, ind + 1)
            return (f'{pad}match Data.get? data {k} with\n{pad}| none =>\n{none_}\n{pad}| some {name} =>\n{some_}')
        if (isinstance(s, ast.Assign) and len(s.targets) == 1 and self.is_data_sub(s.targets[0])
                and not isinstance(s.value, (ast.Name, ast.Subscript))
                or (isinstance(s, ast.Assign) and len(s.targets) == 1 and self.is_data_sub(s.targets[0])
                    and self.env.get(self.path(s.value) if isinstance(s.value, (ast.Name, ast.Attribute)) else '',
                                     (None, None))[1] == 'str')):
            k = self.key(s.targets[0].slice)
            c, cty = self.sexpr(s.value)
            if cty != 'str':
                raise Untranslatable('data[k] = <' + cty + '>')
            rest_txt = self.block(rest, fall, ind)
            return f'{pad}let data : Data := Data.set data {k} (Val.str {c})\n' + rest_txt
        if (isinstance(s, ast.Return) and isinstance(s.value, ast.Call)
                and self.path(s.value.func) == 'self._dest.event' and len(s.value.args) == 1
                and self.path(s.value.args[0]) == 'self._etype' and len(s.value.keywords) == 1
                and s.value.keywords[0].arg is None and self.path(s.value.keywords[0].value) == 'data'):
            return pad + '.ok data'
        return TrEdit.block(self, stmts, fall, ind)


def main_ext(outfile):
    L = ['/- GENERATED by tools/py2lean.py from the Python source of edzed (block.ExtEvent.send) -- do not edit -/',
         'import EdzedModel.Basic.Val', '', 'namespace Edzed.Gen.TrX', '',
         'inductive ExtErr where',
         '  | invalidState | typeError',
         '  deriving DecidableEq, Repr', '',
         '/-- `isinstance(x, str)` and the string itself -/',
         'def strOf? : Val → Option String',
         '  | .atom (.str s) => some s',
         '  | _ => none', '']
    t = dict(name='extSend', doc='block.ExtEvent.send (`value` = UNDEF: the argument was omitted)',
             node=lambda: fn_ast(block.ExtEvent.send),
             params=[('ready', 'Bool'), ('defaultSource', 'String'), ('value', 'Val'), ('data', 'Data')],
             names={'data': ('data', 'data'), 'value': ('value', 'val'), 'self._source': ('defaultSource', 'str')},
             # `ready` is the readiness of the DESTINATION's circuit (Block.circuit, assigned once by Block.__init__):
             # `simulator.get_circuit().is_ready()` is the readiness of whatever circuit is current NOW -- a different
             # thing after reset_circuit() (defect C14-stale-extevent-successor-circuit) and therefore not accepted
             atoms={'self._dest.circuit.is_ready()': ('ready', 'bool')})

    def translate(t):
        node = t['node']()
        a = node.args
        if ([x.arg for x in a.args] != ['self', 'value'] or len(a.defaults) != 1
                or node_path(a.defaults[0]) != 'UNDEF' or a.kwarg is None or a.kwarg.arg != 'data'):
            raise Untranslatable('signature of ExtEvent.send')
        body = TrSend(t).block(list(node.body), '.error .typeError', 1)
        params = ' '.join(f'({n} : {ty})' for n, ty in t['params'])
        return f"def {t['name']} {params} : Except ExtErr Data :=\n{body}"

    emit(L, t, translate, ': the data passed to `dest.event(etype, **data)`')
    L.append('end Edzed.Gen.TrX')
    write_if_changed(outfile, '\n'.join(L) + '\n')


def find_edit(method):
    """the function appended to `self._editlist` by a DataEdit operation: `def _edit(data)` or a lambda"""
    fn = fn_ast(getattr(method, '__wrapped__', method))
    for node in ast.walk(fn):
        if (isinstance(node, ast.Call) and isinstance(node.func, ast.Attribute) and node.func.attr == 'append'
                and node_path(node.func.value) == 'self._editlist' and len(node.args) == 1):
            arg = node.args[0]
            if isinstance(arg, ast.Lambda):
                if [a.arg for a in arg.args.args] != ['data']:
                    raise Untranslatable('lambda parameters')
                return arg
            if isinstance(arg, ast.Name):
                for n2 in ast.walk(fn):
                    if isinstance(n2, ast.FunctionDef) and n2.name == arg.id:
                        if [a.arg for a in n2.args.args] != ['data']:
                            raise Untranslatable('parameters of the edit function')
                        return n2
    raise Untranslatable(f'no edit function in {method}')


def edit_targets():
    D = filters.DataEdit
    S, V, L, M = 'str', 'val', 'strs', 'data'
    return [
        dict(name='editAdd', doc='DataEdit.add', node=lambda: find_edit(D.add),
             params=[('data', 'Data'), ('kwargs', 'Data')], names={'data': ('data', M), 'kwargs': ('kwargs', M)}),
        dict(name='editAddOutput', doc='DataEdit.add_output (`out`: the source block\'s output at the call)',
             node=lambda: find_edit(D.add_output), params=[('data', 'Data'), ('key', 'String'), ('out', 'Val')],
             names={'data': ('data', M), 'key': ('key', S), 'src.block.output': ('out', V)}),
        dict(name='editCopy', doc='DataEdit.copy', node=lambda: find_edit(D.copy),
             params=[('data', 'Data'), ('src', 'String'), ('dst', 'String')],
             names={'data': ('data', M), 'src': ('src', S), 'dst': ('dst', S)}),
        dict(name='editDelete', doc='DataEdit.delete', node=lambda: find_edit(D.delete),
             params=[('data', 'Data'), ('args', 'List String')], names={'data': ('data', M), 'args': ('args', L)}),
        dict(name='editModify', doc='DataEdit.modify (`func`: the user\'s function)', node=lambda: find_edit(D.modify),
             params=[('data', 'Data'), ('key', 'String'), ('func', 'Val → ModRes')],
             names={'data': ('data', M), 'key': ('key', S), 'func': ('func', 'modfunc')}),
        dict(name='editPermit', doc='DataEdit.permit', node=lambda: find_edit(D.permit),
             params=[('data', 'Data'), ('args', 'List String')], names={'data': ('data', M), 'args': ('args', L)}),
        dict(name='editRename', doc='DataEdit.rename', node=lambda: find_edit(D.rename),
             params=[('data', 'Data'), ('src', 'String'), ('dst', 'String')],
             names={'data': ('data', M), 'src': ('src', S), 'dst': ('dst', S)}),
        dict(name='editSetdefault', doc='DataEdit.setdefault', node=lambda: find_edit(D.setdefault),
             params=[('data', 'Data'), ('kwargs', 'Data')], names={'data': ('data', M), 'kwargs': ('kwargs', M)}),
    ]


def write_if_changed(outfile, text):
    try:
        with open(outfile, encoding='utf-8') as f:
            if f.read() == text:
                return
    except FileNotFoundError:
        pass
    tmp = outfile + '.tmp'
    with open(tmp, 'w', encoding='utf-8') as f:
        f.write(text)
    os.replace(tmp, outfile)


def main_edit(outfile):
    L = ['/- GENERATED by tools/py2lean.py from the Python source of edzed (filters.DataEdit) -- do not edit -/',
         'import EdzedModel.Filters', '', 'namespace Edzed.Gen.TrF', 'open Edzed.Filters', '',
         '/-- `replacement is self.REJECT` -/',
         'def mrIsReject : ModRes → Bool | .reject => true | _ => false',
         '/-- `replacement is self.DELETE` -/',
         'def mrIsDelete : ModRes → Bool | .delete => true | _ => false',
         '/-- the object returned by the user\'s function, when it is neither of the two markers -/',
         'def mrVal : ModRes → Val | .value v => v | _ => Val.none', '']
    def translate(t):
        body = TrEdit(t).function(t['node']())
        params = ' '.join(f'({n} : {ty})' for n, ty in t['params'])
        return f"def {t['name']} {params} : Except Stop Data :=\n{body}"

    for t in edit_targets():
        emit(L, t, translate, ': the function appended to `_editlist`')
    L.append('end Edzed.Gen.TrF')
    write_if_changed(outfile, '\n'.join(L) + '\n')


def trim(stmts):
    """cut a statement list after its first return"""
    out = []
    for s in stmts:
        out.append(s)
        if isinstance(s, ast.Return):
            break
    return out


def returns(stmts):
    """does every path through the list end in a return?"""
    for s in stmts:
        if isinstance(s, ast.Return):
            return True
        if isinstance(s, ast.If) and s.orelse and returns(s.body) and returns(s.orelse):
            return True
    return False


def chars(s):
    return '[' + ', '.join("'" + c + "'" for c in s) + ']'


def fn_ast(obj):
    src = textwrap.dedent(inspect.getsource(obj))
    tree = ast.parse(src)
    node = tree.body[0]
    assert isinstance(node, (ast.FunctionDef, ast.AsyncFunctionDef)), type(node)
    return node


def find_lambda(cls, kwarg):
    """the lambda passed as keyword argument `kwarg` somewhere in the class body"""
    tree = ast.parse(textwrap.dedent(inspect.getsource(cls)))
    for node in ast.walk(tree):
        if isinstance(node, ast.keyword) and node.arg == kwarg and isinstance(node.value, ast.Lambda):
            return node.value
    raise Untranslatable(f'no lambda {kwarg}= in {cls.__name__}')


def find_func_kw(cls):
    """the value of the keyword argument `func=` in the class body: a lambda, or the builtin `all` / `any`
    (turned into the equivalent lambda over `inputs`)"""
    tree = ast.parse(textwrap.dedent(inspect.getsource(cls)))
    for node in ast.walk(tree):
        if isinstance(node, ast.keyword) and node.arg == 'func':
            if isinstance(node.value, ast.Lambda):
                return node.value
            if isinstance(node.value, ast.Name) and node.value.id in ('all', 'any'):
                return ast.Lambda(args=None, body=ast.Call(func=ast.Name(id=node.value.id), keywords=[],
                                                           args=[ast.Name(id='inputs')]))
    raise Untranslatable(f'no func= in {cls.__name__}')


def find_assign_value(fn, attr):
    """the right-hand side of `self.<attr> = …` in a function"""
    for node in ast.walk(fn_ast(fn)):
        if (isinstance(node, ast.Assign) and len(node.targets) == 1 and isinstance(node.targets[0], ast.Attribute)
                and node.targets[0].attr == attr):
            return ast.Lambda(args=None, body=node.value)
    raise Untranslatable(f'no assignment to self.{attr}')


def find_local_assign(fn, name):
    """the right-hand side of the first `<name> = …` (a local variable) in a function"""
    for node in ast.walk(fn_ast(fn)):
        if (isinstance(node, ast.Assign) and len(node.targets) == 1 and isinstance(node.targets[0], ast.Name)
                and node.targets[0].id == name):
            return ast.Lambda(args=None, body=node.value)
    raise Untranslatable(f'no assignment to {name}')


def find_raise_test(fn, exc):
    """the condition of the first `if …: raise <exc>(…)` of a function"""
    for node in fn_ast(fn).body:
        if isinstance(node, ast.If) and node.body and isinstance(node.body[0], ast.Raise) and not node.orelse:
            r = node.body[0].exc
            if isinstance(r, ast.Call) and getattr(r.func, 'id', None) == exc:
                return ast.Lambda(args=None, body=node.test)
    raise Untranslatable(f'no `if …: raise {exc}` at the top level')


def targets():
    ordp = [('lt', 'α → α → Bool'), ('le', 'α → α → Bool')]
    return [
        dict(name='cmpOpen', doc='timeinterval._Interval._cmp_open', node=lambda: fn_ast(timeinterval._Interval._cmp_open),
             generic=True, params=ordp + [('low', 'α'), ('item', 'α'), ('high', 'α')],
             names={'low': ('low', 'ord'), 'item': ('item', 'ord'), 'high': ('high', 'ord')}),
        dict(name='cmpClosed', doc='timeinterval._Interval._cmp_closed', node=lambda: fn_ast(timeinterval._Interval._cmp_closed),
             generic=True, params=ordp + [('low', 'α'), ('item', 'α'), ('high', 'α')],
             names={'low': ('low', 'ord'), 'item': ('item', 'ord'), 'high': ('high', 'ord')}),
        dict(name='cmpNoWrap', doc='timeinterval.DateTimeInterval._cmp_open',
             node=lambda: fn_ast(timeinterval.DateTimeInterval._cmp_open),
             generic=True, params=ordp + [('low', 'α'), ('item', 'α'), ('high', 'α')],
             names={'low': ('low', 'ord'), 'item': ('item', 'ord'), 'high': ('high', 'ord')}),
        dict(name='edgeCall', doc='filters.Edge.__call__', node=lambda: fn_ast(filters.Edge.__call__),
             params=[('rise', 'Bool'), ('fall', 'Bool'), ('urise', 'Bool'), ('ufall', 'Bool'),
                     ('previous', 'Val'), ('value', 'Val')],
             names={'self._rise': ('rise', 'bool'), 'self._fall': ('fall', 'bool'), 'self._urise': ('urise', 'bool'),
                    'self._ufall': ('ufall', 'bool'), "data['previous']": ('previous', 'val'),
                    "data['value']": ('value', 'val')}),
        dict(name='compareCalc', doc='cblocks.Compare.calc_output', node=lambda: fn_ast(cblocks.Compare.calc_output),
             params=[('low', 'Rat'), ('high', 'Rat'), ('own', 'Val'), ('x', 'Rat')],
             names={'self._low': ('low', 'rat'), 'self._high': ('high', 'rat'), 'self._output': ('own', 'val'),
                    "self._in['_'][0]": ('x', 'rat')}),
        dict(name='overrideCalc', doc='cblocks.Override.calc_output', node=lambda: fn_ast(cblocks.Override.calc_output),
             params=[('null', 'Val'), ('input', 'Val'), ('override', 'Val')],
             names={'self._null': ('null', 'val'), 'self._in.input': ('input', 'val'),
                    'self._in.override': ('override', 'val')}),
        dict(name='notCalc', doc='cblocks.Not.calc_output', node=lambda: fn_ast(cblocks.Not.calc_output),
             params=[('x', 'Val')], names={"self._in['_'][0]": ('x', 'val')}),
        dict(name='andFunc', doc='cblocks.And: func=…', node=lambda: find_func_kw(cblocks.And),
             params=[('inputs', 'List Val')], names={'inputs': ('inputs', 'vals')}),
        dict(name='orFunc', doc='cblocks.Or: func=…', node=lambda: find_func_kw(cblocks.Or),
             params=[('inputs', 'List Val')], names={'inputs': ('inputs', 'vals')}),
        dict(name='xorFunc', doc='cblocks.Xor: func=lambda inputs: …', node=lambda: find_lambda(cblocks.Xor, 'func'),
             params=[('inputs', 'List Val')], names={'inputs': ('inputs', 'vals')}),
        dict(name='counterSetmod', doc='sblocks1.Counter._setmod (the value stored and returned)',
             node=lambda: fn_ast(sblocks1.Counter._setmod), ignore=('set_output',),
             params=[('mod', 'Option Rat'), ('value', 'Rat')],
             names={'self._mod': ('mod', 'optrat'), 'value': ('value', 'rat')}),
        dict(name='counterInc', doc='sblocks1.Counter._event_inc (the value returned)',
             node=lambda: fn_ast(sblocks1.Counter._event_inc), defaults={'amount': 'amount'},
             calls={'self._setmod': ('counterSetmod mod', 'rat', ['rat'])},
             params=[('mod', 'Option Rat'), ('output', 'Rat'), ('amount', 'Option Rat')],
             names={'self._output': ('output', 'rat')}),
        dict(name='counterDec', doc='sblocks1.Counter._event_dec (the value returned)',
             node=lambda: fn_ast(sblocks1.Counter._event_dec), defaults={'amount': 'amount'},
             calls={'self._setmod': ('counterSetmod mod', 'rat', ['rat'])},
             params=[('mod', 'Option Rat'), ('output', 'Rat'), ('amount', 'Option Rat')],
             names={'self._output': ('output', 'rat')}),
        dict(name='counterPut', doc='sblocks1.Counter._event_put (the value returned; `value` has no default)',
             node=lambda: fn_ast(sblocks1.Counter._event_put), required=('value',),
             calls={'self._setmod': ('counterSetmod mod', 'rat', ['rat'])},
             params=[('mod', 'Option Rat'), ('value', 'Rat')], names={'value': ('value', 'rat')}),
        dict(name='counterReset', doc='sblocks1.Counter._event_reset (the value returned)',
             node=lambda: fn_ast(sblocks1.Counter._event_reset),
             calls={'self._setmod': ('counterSetmod mod', 'rat', ['rat'])},
             params=[('mod', 'Option Rat'), ('initdef', 'Rat')], names={'self.initdef': ('initdef', 'rat')}),
        dict(name='counterRefusesModulo', doc='sblocks1.Counter.__init__: if …: raise ValueError("modulo must not be zero")',
             node=lambda: find_raise_test(sblocks1.Counter.__init__, 'ValueError'),
             params=[('modulo', 'Option Rat')], names={'modulo': ('modulo', 'optrat')}),
        dict(name='evalLimit', doc='simulator.Circuit._simulate: eval_limit = …',
             node=lambda: find_local_assign(simulator.Circuit._simulate, 'eval_limit'),
             params=[('maxEvalsPerBlock', 'Nat'), ('nBlocks', 'Nat')],
             names={'_MAX_EVALS_PER_BLOCK': ('maxEvalsPerBlock', 'nat'), 'len(self._blocks)': ('nBlocks', 'nat')}),
        dict(name='notFromUndef', doc='filters.not_from_undef', node=lambda: fn_ast(filters.not_from_undef),
             params=[('data', 'Data')], names={'data': ('data', 'data')}),
        dict(name='isReady', doc='simulator.Circuit.is_ready', node=lambda: fn_ast(simulator.Circuit.is_ready),
             params=[('simtask', 'Option Unit'), ('error', 'Option Unit')],
             names={'self._simtask': ('simtask', 'optx'), 'self._error': ('error', 'optx')}),
        dict(name='extSource', doc='block.ExtEvent.__init__: self._source = …',
             node=lambda: find_assign_value(block.ExtEvent.__init__, '_source'),
             params=[('source', 'String')], names={'source': ('source', 'str')}),
    ]


def emit(L, t, translate, header):
    """one target; a function outside the supported subset is OMITTED (with a comment), so that exactly the
    theorems that mention it stop compiling -- the checks of the other properties are not disturbed"""
    try:
        text = translate(t)
    except Exception as err:     # Untranslatable, or a finder that no longer finds its function
        L.append(f"-- UNTRANSLATABLE `{t['doc']}`: definition `{t['name']}` omitted ({' '.join(str(err).split())[:200]})")
        L.append('')
        print(f"UNTRANSLATABLE {t['name']} ({t['doc']}): {err}")
        return
    L.append(f"/-- translated from `{t['doc']}`{header} -/")
    L.append(text)
    L.append('')


def lazy(targets_fn):
    """the target lists evaluate `fn_ast`/`find_…` eagerly; a finder that fails must only lose its own target"""
    return targets_fn()


def main(outfile):
    L = ['/- GENERATED by tools/py2lean.py from the Python source of edzed -- do not edit -/',
         'import EdzedModel.Basic.Val', '', 'namespace Edzed.Gen.Tr', '',
         "/-- Python's `a % m` on numbers (floored) -/",
         'def pyMod (a m : Rat) : Rat := a - m * ((a / m).floor : Int)', '']

    def translate(t):
        tr = Tr(t)
        body, rty = tr.function(t['node']())
        params = ' '.join(f'({n} : {ty})' for n, ty in t['params'])
        generic = '{α : Type} ' if t.get('generic') else ''
        rt = {'nat': 'Nat'}.get(rty, LEAN_TYPE.get(rty, rty))
        return f"def {t['name']} {generic}{params} : {rt} :=\n{body}"

    for t in targets():
        emit(L, t, translate, '')
    L.append('end Edzed.Gen.Tr')
    write_if_changed(outfile, '\n'.join(L) + '\n')
    main_edit(os.path.join(os.path.dirname(outfile), 'TranslatedFilters.lean'))
    main_acts(os.path.join(os.path.dirname(outfile), 'TranslatedOutput.lean'))
    main_persist(os.path.join(os.path.dirname(outfile), 'TranslatedPersist.lean'))
    main_sim(os.path.join(os.path.dirname(outfile), 'TranslatedSim.lean'))
    main_ext(os.path.join(os.path.dirname(outfile), 'TranslatedExt.lean'))
    import py2lean_sig                                           # separate module: CBlock.check_signature (C15)
    py2lean_sig.main_sig(os.path.join(os.path.dirname(outfile), 'TranslatedSig.lean'), write_if_changed)
    import py2lean_dispatch
    py2lean_dispatch.main(os.path.join(os.path.dirname(outfile), 'TranslatedDispatch.lean'),
                          dict(Untranslatable=Untranslatable, node_path=node_path, fn_ast=fn_ast, emit=emit,
                               write_if_changed=write_if_changed, block=block))
    import py2lean_repeat                                        # separate module: Repeat._event, Repeat._maintask (C18)
    py2lean_repeat.main_repeat(os.path.join(os.path.dirname(outfile), 'TranslatedRepeat.lean'), write_if_changed)
    import py2lean_fsm
    py2lean_fsm.main_fsm(os.path.join(os.path.dirname(outfile), 'TranslatedFsm.lean'), sys.modules[__name__])
    import py2lean_init                                          # separate module: InitAsync.init_regular (C05)
    py2lean_init.main_init(os.path.join(os.path.dirname(outfile), 'TranslatedInit.lean'), sys.modules[__name__])
    import py2lean_persist                                       # separate module: persistence code paths (C06)
    py2lean_persist.main(os.path.join(os.path.dirname(outfile), 'TranslatedPersist2.lean'), sys.modules[__name__])
    import py2lean_validate                                      # separate module: _Validation / Input / InputExp (C17)
    py2lean_validate.main_validate(os.path.join(os.path.dirname(outfile), 'TranslatedValidate.lean'), write_if_changed)
    import py2lean_filters                                       # separate module: the filter objects (C16)
    py2lean_filters.main_filters(os.path.join(os.path.dirname(outfile), 'TranslatedFilterObjs.lean'), sys.modules[__name__])
    import py2lean_oasync                                        # separate module: OutputAsync, shield_cancel (C12)
    py2lean_oasync.main(os.path.join(os.path.dirname(outfile), 'TranslatedOutputAsync.lean'), dict(Untranslatable=Untranslatable, node_path=node_path, fn_ast=fn_ast, emit=emit, write_if_changed=write_if_changed))
    import py2lean_lifecycle                                     # separate module: run_forever & co. (C08)
    py2lean_lifecycle.main_lifecycle(os.path.join(os.path.dirname(outfile), 'TranslatedLifecycle.lean'), sys.modules[__name__])
    import py2lean_sim
    py2lean_sim.main_simulate(os.path.join(os.path.dirname(outfile), 'TranslatedSimulate.lean'),
                              lambda: fn_ast(simulator.Circuit._simulate), write_if_changed,
                              cls=simulator.Circuit)
    import py2lean_timeunits                                     # separate module: utils/timeunits.py (C19)
    py2lean_timeunits.main_timeunits(os.path.join(os.path.dirname(outfile), 'TranslatedTimeUnits.lean'), write_if_changed)
    import py2lean_cron                                          # separate module: cron, TimeDate, TimeSpan (C07)
    py2lean_cron.main_cron(os.path.join(os.path.dirname(outfile), 'TranslatedCron.lean'), sys.modules[__name__])
    import py2lean_cron_cfg                                      # separate module: construction / configuration of cron and its clients (C07)
    py2lean_cron_cfg.main_cron_cfg(os.path.join(os.path.dirname(outfile), 'TranslatedCronCfg.lean'), sys.modules[__name__])

    import py2lean_interval                                      # separate module: interval notations, timeinterval.py (C13)
    py2lean_interval.main_interval(os.path.join(os.path.dirname(outfile), 'TranslatedInterval.lean'), write_if_changed)
    import py2lean_vblk                                          # separate module: Circuit._validate_blk (C15)
    py2lean_vblk.main_vblk(os.path.join(os.path.dirname(outfile), 'TranslatedVblk.lean'), write_if_changed)
    import py2lean_errreg                                        # separate module: shutdown, wait_init, run() (C09)
    py2lean_errreg.main_errreg(os.path.join(os.path.dirname(outfile), 'TranslatedErrReg.lean'), sys.modules[__name__])
    import py2lean_wiring                                        # separate module: connect, _finalize, resolver, finalize (C15)
    py2lean_wiring.main_wiring(os.path.join(os.path.dirname(outfile), 'TranslatedWiring.lean'), write_if_changed)
    import py2lean_csig                                          # separate module: check_signature, input_signature, start() of the library CBlocks (C15)
    py2lean_csig.main_csig(os.path.join(os.path.dirname(outfile), 'TranslatedCsig.lean'), write_if_changed)
    import py2lean_initsb                                        # separate module: Circuit.init_sblock and the sync loops (C05)
    py2lean_initsb.main_initsb(os.path.join(os.path.dirname(outfile), 'TranslatedInitSb.lean'), sys.modules[__name__])
    import py2lean_fsmtimer
    py2lean_fsmtimer.main_fsmtimer(os.path.join(os.path.dirname(outfile), 'TranslatedFsmTimer.lean'), sys.modules[__name__])

    import py2lean_fsmtables                                     # separate module: FSM tables, __init__, _run_cb, _send_events, _event (C03)
    py2lean_fsmtables.main_fsmtables(os.path.join(os.path.dirname(outfile), 'TranslatedFsmTables.lean'), write_if_changed)
    import py2lean_cblocks                                       # separate module: library CBlocks, constructors and argument passing (C01)
    py2lean_cblocks.main_cblocks(os.path.join(os.path.dirname(outfile), 'TranslatedCBlocks.lean'), sys.modules[__name__])
    import py2lean_counter                                       # separate module: Counter.__init__ and its class-level aliases (C20)
    py2lean_counter.main_counter(os.path.join(os.path.dirname(outfile), 'TranslatedCounter.lean'), sys.modules[__name__])
    import py2lean_asyncinit                                     # separate module: async-init add-on, InitAsync, ValuePoll, small routines (C05)
    py2lean_asyncinit.main_asyncinit(os.path.join(os.path.dirname(outfile), 'TranslatedAsyncInit.lean'), sys.modules[__name__])
    import py2lean_ctor                                          # separate module: Event / Repeat constructors, task monitor (C18)
    py2lean_ctor.main_ctor(os.path.join(os.path.dirname(outfile), 'TranslatedCtor.lean'), write_if_changed)
    import py2lean_timerblk                                      # separate module: Timer, class FSM (C04)
    py2lean_timerblk.main_timerblk(os.path.join(os.path.dirname(outfile), 'TranslatedTimerBlk.lean'), sys.modules[__name__])
    import py2lean_blkctor                                          # separate module: constructors, name rules, circuit registry (C14)
    py2lean_blkctor.main_blkctor(os.path.join(os.path.dirname(outfile), 'TranslatedBlkCtor.lean'), write_if_changed)
    import py2lean_handlers                                      # separate module: SBlock.__init_subclass__, the handler tables (C11)
    py2lean_handlers.main_handlers(os.path.join(os.path.dirname(outfile), 'TranslatedHandlers.lean'), sys.modules[__name__])
    import py2lean_evtuple                                       # separate module: event_tuple, efilter_tuple (C02)
    py2lean_evtuple.main_evtuple(os.path.join(os.path.dirname(outfile), 'TranslatedEvTuple.lean'), write_if_changed)

if __name__ == '__main__':
    main(sys.argv[1])
